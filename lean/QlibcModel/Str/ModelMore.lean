/-
  Executable, mechanism-level model of the remaining routines of `src/utilities/qstring.c`
  (property C19, second part): qstr_comma_number, qstrtest, qstr_is_ip4addr, qstr_is_email,
  qstrdupf, qstrcatf. Same conventions as `Str/Model.lean` (blocks, `rd`/`wr`, fuel).

  Library calls are modelled by their C-standard definitions and are not the subject:
  * `snprintf(buf, size, "%u", v)` stores the first `size - 1` characters of the decimal
    numeral and a terminator; `vsnprintf` likewise and returns the untruncated length;
  * `strchr`, `strlen`, `strdup`, `strcat`;
  * `atoi` of one to three decimal digits is their value (`decVal`); the C code calls it only
    behind the tests that establish this;
  * `isdigit` & co. are the C-locale classes; the C code passes a plain (signed) `char`, which
    glibc tolerates (its tables start at -128) — bytes ≥ 0x80 are in no class.
-/
import QlibcModel.Str.Model
import QlibcModel.Str.SpecMore
import QlibcModel.Generated.FmtMacro

namespace Qlibc.Str
open Qlibc

/-! ### qstr_comma_number -/

/-- the loop `for (bufp = buf; *bufp; strp++, bufp++) { *strp = *bufp; if (strlen(bufp) % 3 == 1
    && bufp[1]) *(++strp) = ','; }` — returns the block and `strp` -/
def commaLoop (buf : Bytes) : (fuel : Nat) → (bufp : Nat) → (str : Bytes) → (strp : Nat) →
    Except Fault (Bytes × Nat)
  | 0, _, _, _ => .error .outOfFuel
  | fuel + 1, bufp, str, strp => do
    let c ← rd buf bufp
    if c = 0 then pure (str, strp)
    else do
      let str ← wr str strp c
      let e ← nulPos buf bufp                          -- strlen(bufp) = e - bufp
      if (e - bufp) % 3 = 1 then do
        let c1 ← rd buf (bufp + 1)
        if c1 ≠ 0 then do
          let str ← wr str (strp + 1) 44                -- *(++strp) = ','
          commaLoop buf fuel (bufp + 1) str (strp + 2)
        else commaLoop buf fuel (bufp + 1) str (strp + 1)
      else commaLoop buf fuel (bufp + 1) str (strp + 1)

/-- the grouping loop on `buf`, then `*strp = '\0'` -/
def commaFinish (buf str : Bytes) (strp : Nat) : Except Fault Bytes := do
  let (str, strp) ← commaLoop buf (buf.length + 1) 0 str strp
  wr str strp 0

/-- `qstr_comma_number(number)`: the `malloc(14 + 1)` block. The magnitude is taken in unsigned
    arithmetic (`0U - (unsigned) number`), printed with `%u` into `char buf[10 + 1]`
    (`snprintf` keeps at most 10 characters). -/
def qstrCommaNumber (number : Int) : Except Fault Bytes :=
  if number < 0 then do
    let s ← wr (List.replicate 15 fillByte) 0 45           -- *strp++ = '-'
    commaFinish ((decNat (number.natAbs % 4294967296)).take 10 ++ [0]) s 1
  else
    commaFinish ((decNat (number.natAbs % 4294967296)).take 10 ++ [0]) (List.replicate 15 fillByte) 0

/-! ### qstrtest -/

/-- `for (; *str; str++) if (testfunc(*str) == 0) return false; return true;` -/
def testLoop (p : UInt8 → Bool) (buf : Bytes) : (fuel : Nat) → (i : Nat) → Except Fault Bool
  | 0, _ => .error .outOfFuel
  | fuel + 1, i => do
    let c ← rd buf i
    if c = 0 then pure true
    else if p c then testLoop p buf fuel (i + 1) else pure false

def qstrtest (p : UInt8 → Bool) (buf : Bytes) : Except Fault Bool :=
  testLoop p buf (buf.length + 1) 0

/-! ### qstr_is_ip4addr -/

/-- `strchr(buf + i, ch)` for `ch ≠ 0`: offset of the first `ch`, `none` at the terminator -/
def strchrFrom (buf : Bytes) (ch : UInt8) : (fuel : Nat) → (i : Nat) → Except Fault (Option Nat)
  | 0, _ => .error .outOfFuel
  | fuel + 1, i => do
    let c ← rd buf i
    if c = ch then pure (some i)
    else if c = 0 then pure none
    else strchrFrom buf ch fuel (i + 1)

/-- `atoi(buf + i)` for a string of decimal digits -/
def atoiDigits (buf : Bytes) : (fuel : Nat) → (i : Nat) → (acc : Nat) → Except Fault Nat
  | 0, _, _ => .error .outOfFuel
  | fuel + 1, i, acc => do
    let c ← rd buf i
    if isDigitB c then atoiDigits buf fuel (i + 1) (acc * 10 + (c.toNat - 48)) else pure acc

/-- the test of one part that starts at `s1` (its terminator is in place): true = accepted.
    `*s1 == 0 || strlen(s1) > 3 || !qstrtest(isdigit, s1) || (n = atoi(s1)) < 0 || n >= 256` -/
def ip4Part (buf : Bytes) (s1 : Nat) : Except Fault Bool := do
  let c ← rd buf s1
  if c = 0 then pure false
  else do
    let e ← nulPos buf s1
    if e - s1 > 3 then pure false
    else do
      let dig ← testLoop isDigitB buf (buf.length + 1) s1
      if !dig then pure false
      else do
        let n ← atoiDigits buf (buf.length + 1) s1 0
        pure (decide (n < 256))

/-- the loop over the parts on the `strdup` copy -/
def ip4Loop : (fuel : Nat) → (buf : Bytes) → (s1 : Nat) → (periodcnt : Nat) → Except Fault Bool
  | 0, _, _, _ => .error .outOfFuel
  | fuel + 1, buf, s1, periodcnt => do
    match ← strchrFrom buf 46 (buf.length + 1) s1 with
    | some s2 =>
      let buf ← wr buf s2 0                               -- *s2 = '\0'
      let ok ← ip4Part buf s1
      if !ok then pure false
      else ip4Loop fuel buf (s2 + 1) (periodcnt + 1)
    | none =>
      let ok ← ip4Part buf s1
      if !ok then pure false
      else pure (decide (periodcnt = 3))                  -- break; periodcnt != 3 → false

def qstrIsIp4addr (str : Bytes) : Except Fault Bool := do
  let n ← nulPos str 0
  let dup ← rdN str 0 (n + 1)                             -- strdup(str)
  ip4Loop (dup.length + 1) dup 0 0

/-! ### qstr_is_email -/

/-- `email[i - 1]`; at `i = 0` this would be a read in front of the string -/
def rdPrev (buf : Bytes) (i : Nat) : Except Fault UInt8 :=
  if i = 0 then .error .oob else rd buf (i - 1)

/-- the `switch` loop; `none` = an early `return false`, otherwise the three counters -/
def emailLoop (buf : Bytes) : (fuel : Nat) → (i alpa dot gol : Nat) →
    Except Fault (Option (Nat × Nat × Nat))
  | 0, _, _, _, _ => .error .outOfFuel
  | fuel + 1, i, alpa, dot, gol => do
    let c ← rd buf i
    if c = 0 then pure (some (alpa, dot, gol))
    else if c = 64 then                                   -- '@'
      if alpa = 0 then pure none
      else if gol > 0 then pure none
      else emailLoop buf fuel (i + 1) alpa dot (gol + 1)
    else if c = 46 then do                                -- '.'
      -- (i > 0) && (email[i - 1] == '@')
      let bad1 ← if i > 0 then (do let p ← rdPrev buf i; pure (p == 64)) else pure false
      if bad1 then pure none
      else do
        -- (gol > 0) && (email[i - 1] == '.')
        let bad2 ← if gol > 0 then (do let p ← rdPrev buf i; pure (p == 46)) else pure false
        if bad2 then pure none
        else emailLoop buf fuel (i + 1) alpa (dot + 1) gol
    else
      if isOrdB c then emailLoop buf fuel (i + 1) (alpa + 1) dot gol
      else pure none

def qstrIsEmail (buf : Bytes) : Except Fault Bool := do
  match ← emailLoop buf (buf.length + 1) 0 0 0 0 with
  | none => pure false
  | some (alpa, dot, gol) => pure (!(alpa ≤ 3 || gol = 0 || dot = 0))

/-! ### qstrdupf, qstrcatf -/

/-- `vsnprintf(s, size, …)` for the formatted text `out` (a libc call, modelled by its
    definition as one block update): the first `size - 1` bytes and a terminator are stored at the
    start of the block; with `size = 0` nothing is stored (the return value is `|out|` always).
    A block shorter than `size` would be overrun. -/
def vsnStore (blk out : Bytes) (size : Nat) : Except Fault Bytes :=
  if size = 0 then pure blk
  else if (out.take (size - 1) ++ [0]).length ≤ blk.length then
    pure (out.take (size - 1) ++ [0] ++ blk.drop (out.take (size - 1) ++ [0]).length)
  else .error .oob

/-- `DYNAMIC_VSPRINTF(s, f)`: `for (_strsize = START; ; _strsize *= FACTOR)` — a block of
    `_strsize` bytes is allocated, the text `out` (what `vsnprintf` produces for the format and
    arguments) is formatted into it, and the block is accepted when `_n >= 0 && _n < _strsize`,
    otherwise freed. START and FACTOR come from the macro text (`Generated/FmtMacro.lean`).
    Returns the final block and the sizes that were allocated. -/
def dynVsprintf (factor : Nat) (out : Bytes) : (fuel : Nat) → (size : Nat) → (allocs : List Nat) →
    Except Fault (Bytes × List Nat)
  | 0, _, _ => .error .outOfFuel
  | fuel + 1, size, allocs => do
    let blk ← vsnStore (List.replicate size fillByte) out size   -- malloc; vsnprintf
    if out.length < size then pure (blk, allocs ++ [size])       -- _n >= 0 && _n < _strsize
    else dynVsprintf factor out fuel (size * factor) (allocs ++ [size])   -- free(s)

/-- `strlen(buf + i)` as one library call (no terminator inside the block = read past its end) -/
def strlenAt (buf : Bytes) (i : Nat) : Except Fault Nat :=
  if i + ((buf.drop i).takeWhile (· != 0)).length < buf.length
  then pure ((buf.drop i).takeWhile (· != 0)).length else .error .oob

/-- store `data` at offset `d` as one block update (the effect of a libc copy such as the one
    `strcat` performs); beyond the end of the block it is an overrun -/
def storeAt (buf : Bytes) (d : Nat) (data : Bytes) : Except Fault Bytes :=
  if d + data.length ≤ buf.length then pure (buf.take d ++ data ++ buf.drop (d + data.length))
  else .error .oob

/-- `qstrdupf(format, …)` with the loop parameters given: the `strdup` of the formatted text -/
def qstrdupfG (start factor : Nat) (out : Bytes) : Except Fault (Bytes × List Nat) := do
  let (str, allocs) ← dynVsprintf factor out (out.length + 1) start []
  let n ← strlenAt str 0                                   -- strdup(str)
  pure (str.take (n + 1), allocs)

/-- `qstrcatf(str, format, …)` with the loop parameters given: `strcat(str, buf)` into the
    caller's block -/
def qstrcatfG (start factor : Nat) (dst out : Bytes) : Except Fault (Bytes × List Nat) := do
  let (buf, allocs) ← dynVsprintf factor out (out.length + 1) start []
  let d ← strlenAt dst 0                                   -- end of the old content
  let n ← strlenAt buf 0
  let dst ← storeAt dst d (buf.take (n + 1))
  pure (dst, allocs)

/-- the routines as compiled from the current macro text -/
def qstrdupf (out : Bytes) : Except Fault (Bytes × List Nat) :=
  qstrdupfG Generated.fmtStartSize Generated.fmtGrowFactor out
def qstrcatf (dst out : Bytes) : Except Fault (Bytes × List Nat) :=
  qstrcatfG Generated.fmtStartSize Generated.fmtGrowFactor dst out

end Qlibc.Str

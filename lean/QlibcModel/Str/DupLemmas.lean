/-
  qstrdup_between (two `strstr` searches and a bounded copy into a fresh block) and qstrtokenizer.
-/
import QlibcModel.Str.ReplLemmas
import QlibcModel.Str.TokLemmas

namespace Qlibc.Str
open Qlibc

theorem findSub_bound (nd : Bytes) : ∀ (t : Bytes) (i : Nat), findSub nd t = some i →
    i + nd.length ≤ t.length := by
  intro t
  induction t with
  | nil =>
    intro i h
    simp only [findSub] at h
    split at h
    · rename_i hnil; subst hnil; cases h; simp
    · cases h
  | cons c t ih =>
    intro i h
    simp only [findSub] at h
    split at h
    · rename_i hp
      cases h
      have := isPrefixOf_length_le hp
      simpa using this
    · cases hf : findSub nd t with
      | none => simp [hf] at h
      | some j =>
        simp [hf] at h
        subst h
        have := ih j hf
        simp; omega

theorem strstrFrom_spec (nd nrest : Bytes) (hnd : NulFree nd) (t : Bytes) :
    ∀ (pre rest : Bytes) (fuel : Nat), NulFree t → t.length < fuel →
    strstrFrom (pre ++ t ++ 0 :: rest) (nd ++ 0 :: nrest) nd.length fuel pre.length
      = .ok ((findSub nd t).map (· + pre.length)) := by
  induction t with
  | nil =>
    intro pre rest fuel hn hf
    cases fuel with
    | zero => simp at hf
    | succ k =>
      rw [strstrFrom, strncmpEq_tok nd nrest pre [] rest hn hnd]
      simp only [bind_ok, findSub]
      cases nd with
      | nil => simp [List.isPrefixOf]
      | cons y nd =>
        have : pre ++ [] ++ 0 :: rest = pre ++ 0 :: rest := by simp
        simp [List.isPrefixOf, rd_mid]
  | cons c t ih =>
    intro pre rest fuel hn hf
    have ⟨hc, ht⟩ := hn.of_cons
    cases fuel with
    | zero => simp at hf
    | succ k =>
      rw [strstrFrom, strncmpEq_tok nd nrest pre (c :: t) rest hn hnd]
      simp only [bind_ok, findSub]
      by_cases hp : nd.isPrefixOf (c :: t) = true
      · simp [hp]
      · have hp' : nd.isPrefixOf (c :: t) = false := Bool.eq_false_iff.mpr hp
        simp only [hp', Bool.false_eq_true, if_false]
        have e1 : pre ++ c :: t ++ 0 :: rest = pre ++ c :: (t ++ 0 :: rest) := by simp
        have e2 : pre ++ c :: (t ++ 0 :: rest) = (pre ++ [c]) ++ t ++ 0 :: rest := by simp
        have i1 : pre.length + 1 = (pre ++ [c]).length := by simp
        rw [e1, rd_mid]
        simp only [bind_ok, hc, if_false]
        rw [e2, i1, ih (pre ++ [c]) rest k ht (by simp at hf; omega)]
        cases findSub nd t with
        | none => rfl
        | some j => simp; omega

theorem qstrdupBetween_correct (s rest st strest en enrest : Bytes) (hs : NulFree s)
    (hst : NulFree st) (hen : NulFree en) :
    qstrdupBetween (s ++ 0 :: rest) (st ++ 0 :: strest) (en ++ 0 :: enrest)
      = .ok ((dupBetween s st en).map (· ++ [0])) := by
  unfold qstrdupBetween dupBetween
  rw [nulPos_zero st strest hst, nulPos_zero en enrest hen]
  simp only [bind_ok]
  have h1 := strstrFrom_spec st strest hst s [] rest ((s ++ 0 :: rest).length + 1) hs (by simp; omega)
  simp only [List.nil_append, List.length_nil, Nat.add_zero] at h1
  rw [h1]
  simp only [bind_ok]
  cases hf1 : findSub st s with
  | none => simp
  | some i =>
    have hb1 := findSub_bound st s i hf1
    simp only [Option.map_some]
    -- second search starts at i + |st|
    have e1 : s ++ 0 :: rest = (s.take (i + st.length)) ++ s.drop (i + st.length) ++ 0 :: rest := by
      rw [List.take_append_drop]
    have i1 : i + st.length = (s.take (i + st.length)).length := by
      simp [List.length_take]; omega
    have hdn : NulFree (s.drop (i + st.length)) := NulFree.sublist (List.drop_sublist _ _) hs
    have h2 := strstrFrom_spec en enrest hen (s.drop (i + st.length)) (s.take (i + st.length)) rest
      ((s ++ 0 :: rest).length + 1) hdn (by simp; omega)
    rw [← e1, ← i1] at h2
    rw [h2]
    simp only [bind_ok]
    cases hf2 : findSub en (s.drop (i + st.length)) with
    | none => simp
    | some j =>
      have hb2 := findSub_bound en _ j hf2
      simp only [Option.map_some]
      have hlen : j + (i + st.length) - (i + st.length) = j := by omega
      rw [hlen]
      have e2 : s ++ 0 :: rest = (s.take (i + st.length)) ++ (s.drop (i + st.length)).take j
          ++ ((s.drop (i + st.length)).drop j ++ 0 :: rest) := by
        have hsplit := (List.take_append_drop j (s.drop (i + st.length))).symm
        calc s ++ 0 :: rest
            = s.take (i + st.length) ++ s.drop (i + st.length) ++ 0 :: rest := e1
          _ = s.take (i + st.length) ++ ((s.drop (i + st.length)).take j
                ++ (s.drop (i + st.length)).drop j) ++ 0 :: rest := by rw [← hsplit]
          _ = _ := by simp only [List.append_assoc]
      have hjl : ((s.drop (i + st.length)).take j).length = j := by
        simp [List.length_take]; simp at hb2; omega
      rw [rdN_at (s ++ 0 :: rest) _ ((s.drop (i + st.length)).take j) _ (i + st.length) j e2 i1 hjl.symm]
      simp only [bind_ok]
      rw [wrN_front _ _ (by simp [hjl])]
      simp only [bind_ok, hjl]
      have e3 : (List.replicate (j + 1) fillByte).drop j = [fillByte] := by
        simp [List.drop_replicate]
      rw [e3, wr_mid' _ _ _ _ _ hjl.symm]
      simp

theorem qstrtokenizer_correct (s rest d drest : Bytes) (hs : NulFree s) (hd : NulFree d) :
    qstrtokenizer (s ++ 0 :: rest) (d ++ 0 :: drest) = .ok (splitOnAny d s) := by
  unfold qstrtokenizer
  rw [nulPos_zero s rest hs]
  simp only [bind_ok]
  have hrd : rdN (s ++ 0 :: rest) 0 (s.length + 1) = .ok (s ++ [0]) := by
    have := rdN_at (s ++ 0 :: rest) [] (s ++ [0]) rest 0 (s.length + 1) (by simp) rfl (by simp)
    exact this
  rw [hrd]
  simp only [bind_ok]
  obtain ⟨t', r, hl, hrun, hbuf, hmap⟩ :=
    tokAll_spec d drest hd ((s ++ [0]).length + 2) s [] [] hs (by simp)
  have e : s ++ [0] = [] ++ s ++ 0 :: [] := by simp
  rw [e] at hrun ⊢
  simp only [List.length_nil] at hrun
  rw [hrun]
  simp only [bind_ok]
  exact congrArg _ hmap

end Qlibc.Str

/-
  C20 ac_accept_iff for MALFORMED nesting: a section that is still open at the end of the input, and
  a closing tag that closes nothing (at top level) or names another section than the innermost open
  one. The document type wraps the well-formed `AcDoc` of AconfNestedSpec.lean; the proofs reuse
  `parseInline_doc` (which is stated for an arbitrary tail of the file).
-/
import QlibcModel.Conf.AconfNested
namespace Qlibc.Conf.Aconf
open Qlibc Qlibc.Generated.Conf

/-- a document that may end inside sections or contain a closing tag that closes nothing:
    * `done d`            — well-formed text `d`, then the end of the input;
    * `unclosed d o m`    — well-formed `d`, the opening tag `o`, then `m` inside that section; the
                            section is never closed;
    * `stray d cl tail`   — well-formed `d`, then the closing tag `cl` which does not name the innermost
                            open section (or stands at top level), then ARBITRARY text `tail`. -/
inductive MDoc where
  | done (d : AcDoc)
  | unclosed (d : AcDoc) (o : Tag) (m : MDoc)
  | stray (d : AcDoc) (cl : Tag) (tail : Bytes)
  /-- well-formed `d`, then a line of more than `MAX_LINESIZE − 1` bytes that is no comment, then
      ARBITRARY text -/
  | tooLong (d : AcDoc) (line : Bytes) (tail : Bytes)

/-- a line that does not fit into the line buffer and is no comment: no newline / NUL inside, at
    least `MAX_LINESIZE` bytes, and the first non-blank byte of its first `MAX_LINESIZE − 1` bytes is
    not `#` -/
def LongOk (line : Bytes) : Prop :=
  (∀ c ∈ line, c ≠ 10 ∧ c ≠ 0) ∧ maxLineSize ≤ line.length ∧
  (Str.trim (line.take (maxLineSize - 1))).head? ≠ some 35

def renderM : MDoc → Bytes
  | .done d => renderAc d
  | .unclosed d o m => renderAc d ++ (renderOpen o ++ 10 :: renderM m)
  | .stray d cl tail => renderAc d ++ (renderClose cl ++ 10 :: tail)
  | .tooLong d line tail => renderAc d ++ (line ++ 10 :: tail)

/-- the closing tag `name` closes nothing: top level, or the innermost open section `n` has another name -/
def closesNothing (ci : Bool) (name : Bytes) : Option Bytes → Prop
  | none => True
  | some n => nameEq ci name n = false

/-- `pn` = the name (first word) of the innermost open section, `none` at top level -/
def MDocOk (ci : Bool) : MDoc → (pn : Option Bytes) → Prop
  | .done d, _ => DocOk ci d
  | .unclosed d o m, _ => DocOk ci d ∧ OpenOk o ∧ MDocOk ci m (some (o.texts.headD []))
  | .stray d cl _, pn =>
    DocOk ci d ∧ CloseOk cl ∧ closesNothing ci (cl.texts.headD []) pn
  | .tooLong d line _, _ => DocOk ci d ∧ LongOk line

/-- what the documentation says happens (events most recent first, as in `specDoc`): the callbacks
    of the well-formed parts in file order up to the first offence; a closing tag that closes
    nothing is an offence at its own line; reaching the end of the input inside a section is an
    offence reported with the number of the last line read. `top` = not inside any section. -/
def specM (cfg : Cfg) : MDoc → Ctx → (top : Bool) → (ln oc ns : Nat) → (evs : List Event) → List Event × FRes
  | .done d, c, top, ln, oc, ns, evs =>
    match specDoc cfg d c ln oc ns evs with
    | (e, .error k) => (e, .errLine k)
    | (e, .ok (ln', oc')) => if top then (e, .count oc') else (e, .errLine ln')
  | .unclosed d o m, c, _, ln, oc, ns, evs =>
    match specDoc cfg d c ln oc ns evs with
    | (e, .error k) => (e, .errLine k)
    | (e, .ok (ln', _)) =>
      if c.level = 255 then (e, .errLine (ln' + 1))
      else
      match judgeLine cfg c otypeOpen (nsAfter cfg d c ns) o.texts with
      | .reject => (e, .errLine (ln' + 1))
      | .refused ev => (ev :: e, .errLine (ln' + 1))
      | .pass ev argv ns' => specM cfg m (c.enter ns' argv) false (ln' + 1) 0 0 (ev.toList ++ e)
  | .stray d _ _, c, _, ln, oc, ns, evs =>
    match specDoc cfg d c ln oc ns evs with
    | (e, .error k) => (e, .errLine k)
    | (e, .ok (ln', _)) => (e, .errLine (ln' + 1))
  | .tooLong d _ _, c, _, ln, oc, ns, evs =>
    match specDoc cfg d c ln oc ns evs with
    | (e, .error k) => (e, .errLine k)
    | (e, .ok (ln', _)) => (e, .errLine (ln' + 1))        -- "Line is too long."

/-- a closing tag that does not name the innermost open section is rejected at its line -/
theorem step_stray (cfg : Cfg) (sid : Nat) (parent : Option CbData) (fuel oc ns ln : Nat) (evs : List Event)
    (t : Tag) (rest : Bytes) (hok : CloseOk t)
    (hmis : closesNothing cfg.ci (t.texts.headD []) (parent.map (·.argv.headD []))) :
    ∃ msg, parseInline cfg (fuel + 1) sid parent oc ns ⟨renderClose t ++ 10 :: rest, ln, evs⟩ =
      .ok (⟨rest, ln + 1, evs⟩, .err (ln + 1) msg) := by
  obtain ⟨htag, hlen⟩ := hok
  obtain ⟨w1, X, c0, r0, hmid, hw1, hpost, hlead, htrail10, hX0, hfirst, hc0ws, hXtight, htok, hbytes⟩ := tag_facts t htag
  have hline : renderClose t = t.lead ++ 60 :: 47 :: (w1 ++ X ++ t.post ++ [62]) ++ t.trail := by
    unfold renderClose; rw [hmid]
  have hb : ∀ c ∈ renderClose t, c ≠ 10 ∧ c ≠ 0 := by
    intro c hc
    have : c ∈ t.lead ++ t.pre ++ renderArgs t.args ++ t.post ++ t.trail ∨ c = 60 ∨ c = 47 ∨ c = 62 := by
      simp only [renderClose, List.mem_append, List.mem_cons, List.not_mem_nil, or_false] at hc ⊢
      grind
    rcases this with h | h | h | h
    · exact hbytes c h
    · subst h; decide
    · subst h; decide
    · subst h; decide
  have htrim : Str.trim (renderClose t ++ [10]) = 60 :: 47 :: (w1 ++ X ++ t.post ++ [62]) := by
    have e : renderClose t ++ [10] = t.lead ++ 60 :: 47 :: (w1 ++ X ++ t.post ++ [62]) ++ (t.trail ++ [10]) := by
      rw [hline]; simp
    rw [e]
    exact Ini.trim_pad _ _ _ hlead htrail10 (tight_angle' _)
  have hbr := brackets_close w1 X t.post hw1 hpost hXtight
  have hbody := parseInline_line cfg fuel sid parent oc ns ln evs (renderClose t) rest _ X otypeClose
    t.texts (fun c hc => (hb c hc).1) (fun c hc => (hb c hc).2) hlen htrim (by simp) (by simp) hbr htok
  rw [hbody]
  unfold lineBody
  have h1 : (decide (otypeClose = otypeOpen) && decide ((header sid parent).level = 2 ^ (8 * sizeofLevel) - 1)) = false := by
    have : ¬ (otypeClose = otypeOpen) := by decide
    simp [this]
  simp only [h1, Bool.false_eq_true, if_false]
  cases parent with
  | none => exact ⟨str "Trying to close <" ++ t.texts.headD [] ++ str "> section that wasn't opened.", by simp⟩
  | some p =>
    simp only [closesNothing, Option.map_some, Cfg.ci] at hmis
    simp only [hmis]
    exact ⟨str "Trying to close <" ++ t.texts.headD [] ++ str "> section that wasn't opened.", by simp⟩

/-- inside a section a malformed document always ends with an error line -/
theorem specM_inner (cfg : Cfg) (m : MDoc) : ∀ (c : Ctx) (ln oc ns : Nat) (evs : List Event),
    ∃ k, (specM cfg m c false ln oc ns evs).2 = .errLine k := by
  induction m with
  | done d =>
    intro c ln oc ns evs
    simp only [specM]
    cases specDoc cfg d c ln oc ns evs with
    | mk e r => cases r with
      | error k => exact ⟨k, rfl⟩
      | ok pr => exact ⟨pr.1, rfl⟩
  | stray d cl tail =>
    intro c ln oc ns evs
    simp only [specM]
    cases specDoc cfg d c ln oc ns evs with
    | mk e r => cases r with
      | error k => exact ⟨k, rfl⟩
      | ok pr => exact ⟨pr.1 + 1, rfl⟩
  | tooLong d line tail =>
    intro c ln oc ns evs
    simp only [specM]
    cases specDoc cfg d c ln oc ns evs with
    | mk e r => cases r with
      | error k => exact ⟨k, rfl⟩
      | ok pr => exact ⟨pr.1 + 1, rfl⟩
  | unclosed d o m ih =>
    intro c ln oc ns evs
    simp only [specM]
    cases specDoc cfg d c ln oc ns evs with
    | mk e r => cases r with
      | error k => exact ⟨k, rfl⟩
      | ok pr =>
        simp only []
        split
        · exact ⟨_, rfl⟩
        · split
          · exact ⟨_, rfl⟩
          · exact ⟨_, rfl⟩
          · exact ih _ _ _ _ _

/-- the generalisation over the nesting: run in any section on the rendering of a malformed document,
    the loop returns what `specM` predicts (the events, and the count or the error line) -/
theorem parseInline_mdoc (cfg : Cfg) (m : MDoc) :
    ∀ (c : Ctx) (parent : Option CbData) (fuel oc ns ln : Nat) (evs : List Event),
    MDocOk cfg.ci m (parent.map (·.argv.headD [])) → header c.sid parent = c.data 0 [] → c.level ≤ 255 →
    (renderM m).length < fuel →
    ∃ st r, parseInline cfg fuel c.sid parent oc ns ⟨renderM m, ln, evs⟩ = .ok (st, r) ∧
      (st.events, r.toF) = specM cfg m c parent.isNone ln oc ns evs := by
  induction m with
  | done d =>
    intro c parent fuel oc ns ln evs hok hlink hlev hf
    have h := parseInline_doc cfg d c parent fuel oc ns ln evs [] hok hlink hlev (by simpa [renderM] using hf)
    simp only [List.append_nil] at h
    simp only [renderM, specM]
    cases hs : specDoc cfg d c ln oc ns evs with
    | mk e r =>
    cases r with
    | error k =>
      obtain ⟨inp, msg, hp⟩ := h.1 e k hs
      exact ⟨_, _, hp, rfl⟩
    | ok pr =>
      obtain ⟨ln', oc'⟩ := pr
      have hp := h.2 e ln' oc' hs
      rw [hp]
      have hpos : fuel - d.top = (fuel - d.top - 1) + 1 := by
        have := top_le d; simp only [renderM] at hf; omega
      rw [hpos]
      cases parent with
      | none => exact ⟨⟨[], ln', e⟩, .count oc', by simp [parseInline, fgets], by simp [Res.toF]⟩
      | some p =>
        exact ⟨⟨[], ln', e⟩, .err ln' (str "<" ++ p.argv.headD [] ++ str "> section was not closed."),
          by simp [parseInline, fgets], by simp [Res.toF]⟩
  | stray d cl tail =>
    intro c parent fuel oc ns ln evs hok hlink hlev hf
    obtain ⟨hokd, hcl, hmis⟩ := hok
    have hlen : (renderAc d ++ (renderClose cl ++ 10 :: tail)).length < fuel := by simpa [renderM] using hf
    have h := parseInline_doc cfg d c parent fuel oc ns ln evs (renderClose cl ++ 10 :: tail) hokd hlink hlev hlen
    simp only [renderM, specM]
    cases hs : specDoc cfg d c ln oc ns evs with
    | mk e r =>
    cases r with
    | error k =>
      obtain ⟨inp, msg, hp⟩ := h.1 e k hs
      exact ⟨_, _, hp, rfl⟩
    | ok pr =>
      obtain ⟨ln', oc'⟩ := pr
      have hp := h.2 e ln' oc' hs
      rw [hp]
      have hpos : fuel - d.top = (fuel - d.top - 1) + 1 := by
        have := top_le d
        simp only [List.length_append, List.length_cons] at hlen; omega
      rw [hpos]
      obtain ⟨msg, hst⟩ := step_stray cfg c.sid parent (fuel - d.top - 1) oc' (nsAfter cfg d c ns) ln' e cl tail hcl hmis
      exact ⟨_, _, hst, rfl⟩
  | tooLong d line tail =>
    intro c parent fuel oc ns ln evs hok hlink hlev hf
    obtain ⟨hokd, hno, hll, hnc⟩ := hok
    have hlen : (renderAc d ++ (line ++ 10 :: tail)).length < fuel := by simpa [renderM] using hf
    have h := parseInline_doc cfg d c parent fuel oc ns ln evs (line ++ 10 :: tail) hokd hlink hlev hlen
    simp only [renderM, specM]
    cases hs : specDoc cfg d c ln oc ns evs with
    | mk e r =>
    cases r with
    | error k =>
      obtain ⟨inp, msg, hp⟩ := h.1 e k hs
      exact ⟨_, _, hp, rfl⟩
    | ok pr =>
      obtain ⟨ln', oc'⟩ := pr
      have hp := h.2 e ln' oc' hs
      rw [hp]
      have hpos : fuel - d.top = (fuel - d.top - 1) + 1 := by
        have := top_le d
        simp only [List.length_append, List.length_cons] at hlen; omega
      rw [hpos]
      have hst := parseInline_tooLong cfg (fuel - d.top - 1) c.sid parent oc' (nsAfter cfg d c ns) ln' e line
        (10 :: tail) hno hll hnc (Or.inr ⟨_, rfl⟩)
      exact ⟨_, _, hst, rfl⟩
  | unclosed d o m ih =>
    intro c parent fuel oc ns ln evs hok hlink hlev hf
    obtain ⟨hokd, hoo, hokm⟩ := hok
    have hlen : (renderAc d ++ (renderOpen o ++ 10 :: renderM m)).length < fuel := by simpa [renderM] using hf
    have h := parseInline_doc cfg d c parent fuel oc ns ln evs (renderOpen o ++ 10 :: renderM m) hokd hlink hlev hlen
    simp only [renderM, specM]
    cases hs : specDoc cfg d c ln oc ns evs with
    | mk e r =>
    cases r with
    | error k =>
      obtain ⟨inp, msg, hp⟩ := h.1 e k hs
      exact ⟨_, _, hp, rfl⟩
    | ok pr =>
      obtain ⟨ln', oc'⟩ := pr
      have hp := h.2 e ln' oc' hs
      rw [hp]
      have htop := top_le d
      simp only [List.length_append, List.length_cons] at hlen
      have hpos : fuel - d.top = (fuel - d.top - 1) + 1 := by omega
      rw [hpos]
      obtain ⟨hdeep, hopen⟩ := step_open cfg c parent hlink (fuel - d.top - 1) oc' (nsAfter cfg d c ns) ln' e o (renderM m) hoo
      simp only []
      by_cases hl : c.level = 255
      · obtain ⟨msg, hst⟩ := hdeep hl
        exact ⟨_, _, hst, by simp [hl, Res.toF]⟩
      · have hopen := hopen hl
        simp only [hl, if_false]
        cases hj : judgeLine cfg c otypeOpen (nsAfter cfg d c ns) o.texts with
        | reject =>
          rw [hj] at hopen
          obtain ⟨msg, hst⟩ := hopen
          exact ⟨_, _, hst, rfl⟩
        | refused ev =>
          rw [hj] at hopen
          obtain ⟨msg, hst⟩ := hopen
          exact ⟨_, _, hst, rfl⟩
        | pass ev argv ns1 =>
          rw [hj] at hopen
          simp only [] at hopen ⊢
          rw [hopen]
          have hlt : c.level < 255 := by omega
          have hlink' : header (c.enter ns1 argv).sid (some (c.data otypeOpen argv)) = (c.enter ns1 argv).data 0 [] :=
            header_enter c otypeOpen ns1 argv hlt
          have hname : (some (c.data otypeOpen argv)).map (·.argv.headD []) = some (o.texts.headD []) := by
            have := judgeLine_head cfg c otypeOpen (nsAfter cfg d c ns) o.texts ev argv ns1 hj
            simp only [Option.map_some, Ctx.data, this]
          have hokm' : MDocOk cfg.ci m ((some (c.data otypeOpen argv)).map (·.argv.headD [])) := by
            rw [hname]; exact hokm
          obtain ⟨st, r, hrun, hspec⟩ := ih (c.enter ns1 argv) (some (c.data otypeOpen argv)) (fuel - d.top - 1) 0 0
            (ln' + 1) (ev.toList ++ e) hokm' hlink' (by simp only [Ctx.enter]; omega) (by omega)
          have hsid : (c.enter ns1 argv).sid = ns1 := rfl
          rw [hsid] at hrun
          rw [hrun]
          simp only [Option.isNone_some] at hspec
          -- inside a section the run never ends with a count
          obtain ⟨k, hk⟩ := specM_inner cfg m (c.enter ns1 argv) (ln' + 1) 0 0 (ev.toList ++ e)
          have hr : r.toF = .errLine k := by rw [← hk, ← hspec]
          cases r with
          | count n => simp [Res.toF] at hr
          | err l msg => exact ⟨st, .err l msg, rfl, hspec⟩

/-! ### the whole file, and the reading without accumulators -/

theorem parse_malformed (cfg : Cfg) (m : MDoc) (hok : MDocOk cfg.ci m none) :
    (parse cfg (renderM m)).map (fun x => (x.1, x.2.toF)) =
      .ok ((specM cfg m Ctx.root true 0 0 0 []).1.reverse, (specM cfg m Ctx.root true 0 0 0 []).2) := by
  obtain ⟨st, r, hrun, hspec⟩ := parseInline_mdoc cfg m Ctx.root none ((renderM m).length + 1) 0 0 0 [] hok rfl
    (by decide) (by omega)
  have hsid : Ctx.root.sid = qacSectionRoot := rfl
  rw [hsid] at hrun
  unfold parse
  rw [hrun]
  simp only [Option.isNone_none] at hspec
  simp only [Except.map, ← hspec]

def FRes.shift (n : Nat) : FRes → FRes
  | .errLine k => .errLine (k + n)
  | .count c => .count c

/-- number of lines of the rendered document (for `stray`: up to and including the stray tag) -/
def MDoc.lines : MDoc → Nat
  | .done d => d.lines
  | .unclosed d _ m => d.lines + 1 + m.lines
  | .stray d _ _ => d.lines + 1
  | .tooLong d _ _ => d.lines + 1

/-- the declarative reading, lines counted from the first line of `m`: the callbacks are those of
    the well-formed parts (`walk`) and of the opening tags, in file order, up to the first offence;
    the offence is the first offending line of a well-formed part, a refused / non-conforming / too
    deeply nested opening tag, the closing tag that closes nothing, or — when the input ends inside
    a section — the last line of the input -/
def walkM (cfg : Cfg) : MDoc → Ctx → (top : Bool) → (ns : Nat) → List Event × FRes
  | .done d, c, top, ns =>
    match walk cfg d c ns with
    | (es, some i) => (es, .errLine i)
    | (es, none) => if top then (es, .count (d.directives + 2 * d.sections)) else (es, .errLine d.lines)
  | .unclosed d o m, c, _, ns =>
    match walk cfg d c ns with
    | (es, some i) => (es, .errLine i)
    | (es, none) =>
      if c.level = 255 then (es, .errLine (d.lines + 1))
      else
      match judgeLine cfg c otypeOpen (nsAfter cfg d c ns) o.texts with
      | .reject => (es, .errLine (d.lines + 1))
      | .refused ev => (es ++ [ev], .errLine (d.lines + 1))
      | .pass ev argv ns' =>
        (es ++ ev.toList ++ (walkM cfg m (c.enter ns' argv) false 0).1,
          (walkM cfg m (c.enter ns' argv) false 0).2.shift (d.lines + 1))
  | .stray d _ _, c, _, ns =>
    match walk cfg d c ns with
    | (es, some i) => (es, .errLine i)
    | (es, none) => (es, .errLine (d.lines + 1))
  | .tooLong d _ _, c, _, ns =>
    match walk cfg d c ns with
    | (es, some i) => (es, .errLine i)
    | (es, none) => (es, .errLine (d.lines + 1))

/-- a document that is not simply well-formed text is never accepted -/
theorem walkM_err (cfg : Cfg) (m : MDoc) : ∀ (c : Ctx) (top : Bool) (ns : Nat),
    (top = false ∨ ∀ d, m ≠ .done d) → ∃ k, (walkM cfg m c top ns).2 = .errLine k := by
  induction m with
  | done d =>
    intro c top ns h
    rcases h with h | h
    · subst h
      simp only [walkM]
      cases walk cfg d c ns with
      | mk es r => cases r <;> exact ⟨_, rfl⟩
    · exact absurd rfl (h d)
  | stray d cl tail =>
    intro c top ns _
    simp only [walkM]
    cases walk cfg d c ns with
    | mk es r => cases r <;> exact ⟨_, rfl⟩
  | tooLong d line tail =>
    intro c top ns _
    simp only [walkM]
    cases walk cfg d c ns with
    | mk es r => cases r <;> exact ⟨_, rfl⟩
  | unclosed d o m ih =>
    intro c top ns _
    simp only [walkM]
    cases walk cfg d c ns with
    | mk es r => cases r with
      | some i => exact ⟨_, rfl⟩
      | none =>
        simp only []
        by_cases hl : c.level = 255
        · exact ⟨d.lines + 1, by simp [hl]⟩
        · simp only [hl, if_false]
          cases hj : judgeLine cfg c otypeOpen (nsAfter cfg d c ns) o.texts with
          | reject => exact ⟨_, rfl⟩
          | refused ev => exact ⟨_, rfl⟩
          | pass ev argv ns' =>
            obtain ⟨k, hk⟩ := ih (c.enter ns' argv) false 0 (Or.inl rfl)
            exact ⟨k + (d.lines + 1), by simp [hk, FRes.shift]⟩

theorem specM_eq_walkM (cfg : Cfg) (m : MDoc) : ∀ (c : Ctx) (top : Bool) (ln oc ns : Nat) (evs : List Event),
    specM cfg m c top ln oc ns evs =
      ((walkM cfg m c top ns).1.reverse ++ evs,
        match (walkM cfg m c top ns).2 with
        | .errLine k => .errLine (ln + k)
        | .count n => .count (oc + n)) := by
  induction m with
  | done d =>
    intro c top ln oc ns evs
    simp only [specM, walkM, specDoc_eq_walk]
    cases hw : walk cfg d c ns with
    | mk es r => cases r with
      | some i => simp
      | none => cases top <;> simp
  | stray d cl tail =>
    intro c top ln oc ns evs
    simp only [specM, walkM, specDoc_eq_walk]
    cases hw : walk cfg d c ns with
    | mk es r => cases r with
      | some i => simp
      | none => simp; omega
  | tooLong d line tail =>
    intro c top ln oc ns evs
    simp only [specM, walkM, specDoc_eq_walk]
    cases hw : walk cfg d c ns with
    | mk es r => cases r with
      | some i => simp
      | none => simp; omega
  | unclosed d o m ih =>
    intro c top ln oc ns evs
    simp only [specM, walkM, specDoc_eq_walk]
    cases hw : walk cfg d c ns with
    | mk es r => cases r with
      | some i => simp
      | none =>
        simp only []
        by_cases hl : c.level = 255
        · simp [hl]; omega
        · simp only [hl, if_false]
          cases judgeLine cfg c otypeOpen (nsAfter cfg d c ns) o.texts with
          | reject => simp; omega
          | refused ev => simp; omega
          | pass ev argv ns' =>
            simp only [ih]
            obtain ⟨k, hk⟩ := walkM_err cfg m (c.enter ns' argv) false 0 (Or.inl rfl)
            rw [hk]
            simp [FRes.shift, toList_reverse]; omega


end Qlibc.Conf.Aconf

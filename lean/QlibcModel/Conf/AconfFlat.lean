/-
  C20 ac_accept_iff / ac_callbacks for FLAT documents (no sections): the declarative reading of the
  documentation (`judgeDir`, `specRun`) and the proof that the parser model computes it.
-/
import QlibcModel.Conf.AconfNum
import QlibcModel.Conf.AconfRender
import QlibcModel.Conf.AconfTotal
import QlibcModel.Conf.IniRound
namespace Qlibc.Conf.Aconf
open Qlibc Qlibc.Generated.Conf

/-! ### the declarative side -/

/-- declared-type check of the arguments `j, j+1, …` with the DOCUMENTED classifiers; the BOOL
    arguments normalised to "1"/"0"; `none` = some argument is not of its declared type -/
def checkArgsSpec (take : Nat) : (j : Nat) → List Bytes → Option (List Bytes)
  | _, [] => some []
  | j, a :: rest =>
    let ty := argType take j
    let a' : Option Bytes :=
      if ty = 1 then (if classify a = 1 then some a else none)
      else if ty = 2 then (if classify a ≠ 0 then some a else none)
      else if ty = 3 then (boolSpec a).map (fun b => if b then [49] else [48])
      else some a
    match a', checkArgsSpec take (j + 1) rest with
    | some x, some r => some (x :: r)
    | _, _ => none

/-- the callback data of a directive at top level -/
def rootData (argv : List Bytes) : CbData :=
  { otype := otypeOption, sect := qacSectionRoot, sections := qacSectionRoot, level := 0, parents := [], argv := argv }

inductive Verdict where
  | reject                      -- the line violates a declaration
  | silent                      -- accepted, nobody to call
  | call (e : Event)            -- accepted, this callback is made

/-- does the directive `texts` (name :: arguments) at top level satisfy the declarations? -/
def judgeDir (cfg : Cfg) (texts : List Bytes) : Verdict :=
  let ci := cfg.flags &&& qacCaseInsensitive ≠ 0
  let name := texts.headD []
  match cfg.opts.find? (fun o => nameEq ci name o.name) with
  | none =>
    if cfg.defcb then .call ⟨.dflt, rootData texts⟩
    else if cfg.flags &&& qacIgnoreUnknown = 0 then .reject else .silent
  | some o =>
    if o.sections ≠ qacSectionAll ∧ o.sections &&& qacSectionRoot = 0 then .reject          -- scope
    else if o.take &&& qacTakeAll ≠ qacTakeAll ∧ o.take &&& qacTakeAll ≠ texts.length - 1 then .reject   -- count
    else match checkArgsSpec o.take 1 (texts.drop 1) with
      | none => .reject                                                                       -- types
      | some args' =>
        if o.hasCb then .call ⟨.main, rootData (name :: args')⟩
        else if cfg.defcb then .call ⟨.dflt, rootData (name :: args')⟩
        else .silent

/-- a line of a flat document -/
inductive FLine where
  | blank (ws : Bytes)
  | comment (ws text : Bytes)
  | dir (args : List (Bytes × RArg)) (trail : Bytes)

def renderLine : FLine → Bytes
  | .blank ws => ws
  | .comment ws text => ws ++ [35] ++ text
  | .dir args trail => renderArgs args ++ trail

/-- every line is terminated by `\n` -/
def renderFlat : List FLine → Bytes
  | [] => []
  | l :: rest => renderLine l ++ [10] ++ renderFlat rest

/-- result without the message text -/
inductive FRes where
  | count (n : Nat)
  | errLine (k : Nat)
  deriving DecidableEq, Repr

def Res.toF : Res → FRes
  | .count n => .count n
  | .err k _ => .errLine k

/-- what the documentation says happens: callbacks for the conforming directives in order until the
    first offending line, whose number is reported; otherwise the number of directives -/
def specRun (cfg : Cfg) : List FLine → (lineno count : Nat) → (evs : List Event) → List Event × FRes
  | [], _, count, evs => (evs.reverse, .count count)
  | .blank _ :: rest, ln, count, evs => specRun cfg rest (ln + 1) count evs
  | .comment _ _ :: rest, ln, count, evs => specRun cfg rest (ln + 1) count evs
  | .dir args _ :: rest, ln, count, evs =>
    match judgeDir cfg (args.map (·.2.text)) with
    | .reject => (evs.reverse, .errLine (ln + 1))
    | .silent => specRun cfg rest (ln + 1) (count + 1) evs
    | .call e => specRun cfg rest (ln + 1) (count + 1) (e :: evs)

/-- layout white space of a flat document: blank, tab, CR -/
def WsRun (w : Bytes) : Prop := ∀ c ∈ w, c = 32 ∨ c = 9 ∨ c = 13

/-- which lines can be written -/
def FLineOk : FLine → Prop
  | .blank ws => WsRun ws ∧ ws.length + 1 < maxLineSize
  | .comment ws text => WsRun ws ∧ (∀ c ∈ text, c ≠ 10 ∧ c ≠ 0) ∧ ws.length + 1 < maxLineSize      -- ANY length
  | .dir args trail =>
    args ≠ [] ∧ LineOk args ∧ WsRun trail ∧
    (∀ x ∈ args, (∀ c ∈ x.2.text, c ≠ 10) ∧ (x.2.style = .bare → ∀ c ∈ x.2.text, Str.isWs c = false)) ∧
    (∀ a ∈ args.head?, (renderArg a.2).head? ≠ some 60 ∧ (renderArg a.2).head? ≠ some 35) ∧
    (renderArgs args).length + trail.length + 1 < maxLineSize

/-! ### the parser computes the declarative reading -/

theorem checkArgs_spec (take : Nat) (args : List Bytes) : ∀ (j : Nat),
    match checkArgsSpec take j args with
    | some r => checkArgs take j args = .ok r
    | none => ∃ e, checkArgs take j args = .error e := by
  induction args with
  | nil => intro j; simp [checkArgsSpec, checkArgs]
  | cons a rest ih =>
    intro j
    have ihj := ih (j + 1)
    unfold checkArgsSpec checkArgs
    simp only [isStrNumber_eq_classify, isStrBool_eq_boolSpec]
    by_cases h1 : argType take j = 1
    · simp only [h1, if_true]
      by_cases hc : classify a = 1
      · simp only [hc, if_true, ne_eq, not_true_eq_false, if_false]
        cases hs : checkArgsSpec take (j + 1) rest with
        | none => rw [hs] at ihj; obtain ⟨e, he⟩ := ihj; simp [he, Except.map]
        | some r => rw [hs] at ihj; simp [ihj, Except.map]
      · simp [hc]
    · simp only [h1, if_false]
      by_cases h2 : argType take j = 2
      · simp only [h2, if_true]
        by_cases hc : classify a = 0
        · simp [hc]
        · simp only [hc, if_false, ne_eq, not_false_eq_true, if_true]
          cases hs : checkArgsSpec take (j + 1) rest with
          | none => rw [hs] at ihj; obtain ⟨e, he⟩ := ihj; simp [he, Except.map]
          | some r => rw [hs] at ihj; simp [ihj, Except.map]
      · simp only [h2, if_false]
        by_cases h3 : argType take j = 3
        · simp only [h3, if_true]
          cases hb : boolSpec a with
          | none => simp
          | some b =>
            simp only [Option.map_some]
            cases hs : checkArgsSpec take (j + 1) rest with
            | none => rw [hs] at ihj; obtain ⟨e, he⟩ := ihj; simp [he, Except.map]
            | some r => rw [hs] at ihj; simp [ihj, Except.map]
        · simp only [h3, if_false]
          cases hs : checkArgsSpec take (j + 1) rest with
          | none => rw [hs] at ihj; obtain ⟨e, he⟩ := ihj; simp [he, Except.map]
          | some r => rw [hs] at ihj; simp [ihj, Except.map]

/-- the dispatch of a top-level directive is the declarative verdict -/
theorem dispatch_judge (cfg : Cfg) (hcb : ∀ d, cfg.cbFail d = none) (ns : Nat) (texts : List Bytes) :
    ∃ stp, dispatch cfg qacSectionRoot none ns (rootData texts) = .ok stp ∧
      match judgeDir cfg texts with
      | .reject => stp.err ≠ none ∧ stp.events = []
      | .silent => stp.err = none ∧ stp.events = []
      | .call e => stp.err = none ∧ stp.events = [e] := by
  unfold dispatch judgeDir
  simp only [rootData]
  have ho : otypeOption ≠ otypeClose := by decide
  have ho' : otypeOption ≠ otypeOpen := by decide
  cases hfind : cfg.opts.find? (fun o => nameEq (cfg.flags &&& qacCaseInsensitive ≠ 0) (texts.headD []) o.name) with
  | none =>
    simp only []
    by_cases hd : cfg.defcb = true
    · simp [hd]
    · simp only [hd, Bool.false_eq_true, if_false]
      by_cases hi : cfg.flags &&& qacIgnoreUnknown = 0
      · simp [hi]
      · simp [hi]
  | some o =>
    simp only [ne_eq, ho, not_false_eq_true, Bool.true_and, decide_true, Bool.and_eq_true, decide_eq_true_eq]
    by_cases hs : ¬ o.sections = qacSectionAll ∧ o.sections &&& qacSectionRoot = 0
    · simp [hs]
    · simp only [hs, if_false]
      by_cases hc : ¬ o.take &&& qacTakeAll = qacTakeAll ∧ ¬ o.take &&& qacTakeAll = texts.length - 1
      · simp [hc]
      · have hc' : ¬ (¬ o.take &&& qacTakeAll = qacTakeAll ∧ (decide ¬ o.take &&& qacTakeAll = texts.length - 1) = true) := by
          simpa using hc
        simp only [hc, hc', if_false, if_true]
        have hsp := checkArgs_spec o.take (texts.drop 1) 1
        cases hcs : checkArgsSpec o.take 1 (texts.drop 1) with
        | none =>
          rw [hcs] at hsp
          obtain ⟨e, he⟩ := hsp
          rw [he]
          cases e <;> (split; (rename_i h; exact absurd h hc'); simp)
        | some args' =>
          rw [hcs] at hsp
          rw [hsp]
          simp only [ho', if_false]
          split
          · rename_i h; exact absurd h hc'
          by_cases hh : o.hasCb = true
          · simp [hh, hcb, ho]
          · by_cases hd : cfg.defcb = true
            · simp [hh, hd, ho]
            · simp [hh, hd]

/-! ### reading one line -/

theorem takeWhile_ne_append (line tail : Bytes) (b : UInt8) (h : ∀ c ∈ line, c ≠ b) :
    (line ++ b :: tail).takeWhile (· != b) = line := by
  induction line with
  | nil => simp
  | cons c l ih =>
    have hc : c ≠ b := h c (by simp)
    simp only [List.cons_append, List.takeWhile_cons, bne_iff_ne, ne_eq, hc, not_false_eq_true, if_true]
    rw [ih (fun x hx => h x (by simp [hx]))]

theorem fgets_line (line rest : Bytes) (hno : ∀ c ∈ line, c ≠ 10) (hlen : line.length + 1 < maxLineSize) :
    fgets (line ++ 10 :: rest) = some (line ++ [10], rest) := by
  unfold fgets
  have hne : line ++ 10 :: rest ≠ [] := by simp
  simp only [hne, if_false]
  -- the line (with its newline) lies inside the first MAX_LINESIZE - 1 bytes
  have hsplit : (line ++ 10 :: rest).take (maxLineSize - 1) = line ++ 10 :: rest.take (maxLineSize - 1 - (line.length + 1)) := by
    rw [List.take_append]
    have h1 : line.take (maxLineSize - 1) = line := List.take_of_length_le (by omega)
    rw [h1]
    congr 1
    have : maxLineSize - 1 - line.length = (maxLineSize - 1 - (line.length + 1)) + 1 := by omega
    rw [this, List.take_succ_cons]
  have htw : ∀ (tail : Bytes), (line ++ 10 :: tail).takeWhile (· != 10) = line :=
    fun tail => takeWhile_ne_append line tail 10 hno
  rw [hsplit, htw]
  have hlt : line.length < (line ++ 10 :: rest.take (maxLineSize - 1 - (line.length + 1))).length := by
    simp only [List.length_append, List.length_cons]; omega
  simp only [hlt, if_true]
  have e1 : (line ++ 10 :: rest).take (line.length + 1) = line ++ [10] := by
    have : line ++ 10 :: rest = (line ++ [10]) ++ rest := by simp
    rw [this]
    have hl : line.length + 1 = (line ++ [10]).length := by simp
    rw [hl, List.take_left]
  have e2 : (line ++ 10 :: rest).drop (line.length + 1) = rest := by
    have : line ++ 10 :: rest = (line ++ [10]) ++ rest := by simp
    rw [this]
    have hl : line.length + 1 = (line ++ [10]).length := by simp
    rw [hl, List.drop_left]
  rw [e1, e2]

theorem takeWhile_nonzero (x : Bytes) (h : ∀ c ∈ x, c ≠ 0) : x.takeWhile (· != 0) = x := by
  induction x with
  | nil => rfl
  | cons c l ih =>
    have hc : c ≠ 0 := h c (by simp)
    simp only [List.takeWhile_cons, bne_iff_ne, ne_eq, hc, not_false_eq_true, if_true]
    rw [ih (fun x hx => h x (by simp [hx]))]

theorem wsRun_isWs {w : Bytes} (h : WsRun w) : ∀ c ∈ w, Str.isWs c = true := by
  intro c hc
  rcases h c hc with h | h | h <;> subst h <;> decide

theorem wsRun_props {w : Bytes} (h : WsRun w) : (∀ c ∈ w, c ≠ 10) ∧ (∀ c ∈ w, c ≠ 0) := by
  refine ⟨?_, ?_⟩ <;> intro c hc <;> rcases h c hc with h | h | h <;> subst h <;> decide

/-- the last byte of a rendered line of arguments is not white space -/
theorem renderArgs_last (l : List (Bytes × RArg)) (hne : l ≠ []) (hok : LineOk l)
    (hbare : ∀ x ∈ l, x.2.style = .bare → ∀ c ∈ x.2.text, Str.isWs c = false) :
    ∃ c, (renderArgs l).getLast? = some c ∧ Str.isWs c = false := by
  induction l with
  | nil => exact absurd rfl hne
  | cons x rest ih =>
    obtain ⟨bl, a⟩ := x
    by_cases hr : rest = []
    · subst hr
      simp only [renderArgs, List.append_nil]
      obtain ⟨_, ha⟩ := hok.1 (bl, a) (by simp)
      -- the last byte of the rendered argument
      have hlast : ∃ c, (renderArg a).getLast? = some c ∧ Str.isWs c = false := by
        unfold renderArg
        cases hs : a.style with
        | bare =>
          simp only []
          obtain ⟨hne', _, _, _⟩ := ha.2 hs
          cases hl : a.text.getLast? with
          | none => simp [List.getLast?_eq_none_iff] at hl; exact absurd hl hne'
          | some c => exact ⟨c, rfl, hbare (bl, a) (by simp) hs c (List.mem_of_getLast? hl)⟩
        | single => exact ⟨39, by simp only [quoteChar, List.cons_append, List.nil_append]; exact Ini.getLast?_cons_snoc _ _ _, by decide⟩
        | double => exact ⟨34, by simp only [quoteChar, List.cons_append, List.nil_append]; exact Ini.getLast?_cons_snoc _ _ _, by decide⟩
      obtain ⟨c, hc, hw⟩ := hlast
      refine ⟨c, ?_, hw⟩
      rw [List.getLast?_append, hc]; simp
    · obtain ⟨c, hc, hw⟩ := ih hr hok.tail (fun y hy => hbare y (by simp [hy]))
      refine ⟨c, ?_, hw⟩
      simp only [renderArgs]
      rw [List.getLast?_append, hc]; simp

theorem header_root : header qacSectionRoot none =
    { otype := 0, sect := qacSectionRoot, sections := qacSectionRoot, level := 0, parents := [], argv := [] } := rfl

/-- a blank or comment line only advances the line counter -/
theorem parseInline_skip (cfg : Cfg) (fuel oc ns ln : Nat) (evs : List Event) (line rest : Bytes)
    (hno : ∀ c ∈ line, c ≠ 10) (hnz : ∀ c ∈ line, c ≠ 0) (hlen : line.length + 1 < maxLineSize)
    (hskip : Str.trim (line ++ [10]) = [] ∨ (Str.trim (line ++ [10])).head? = some 35) :
    parseInline cfg (fuel + 1) qacSectionRoot none oc ns ⟨line ++ 10 :: rest, ln, evs⟩ =
      parseInline cfg fuel qacSectionRoot none oc ns ⟨rest, ln + 1, evs⟩ := by
  conv => lhs; unfold parseInline
  simp only [fgets_line line rest hno hlen]
  have htz : (line ++ [10]).takeWhile (· != 0) = line ++ [10] :=
    takeWhile_nonzero _ (by intro c hc; rcases List.mem_append.mp hc with h | h
                            · exact hnz c h
                            · simp at h; subst h; decide)
  rw [htz]
  have hcond : ((Str.trim (line ++ [10]) = []) || ((Str.trim (line ++ [10])).head? == some 35)) = true := by
    rcases hskip with h | h <;> simp [h]
  simp only [drain_nl, Bool.false_and, Bool.false_eq_true, if_false, hcond, if_true]

/-! ### lines that do not fit into the buffer -/

theorem takeWhile_id {p : UInt8 → Bool} (l : Bytes) (h : ∀ c ∈ l, p c = true) : l.takeWhile p = l := by
  induction l with
  | nil => rfl
  | cons c l ih =>
    simp only [List.takeWhile_cons, h c (by simp), if_true]
    rw [ih (fun x hx => h x (by simp [hx]))]

/-- `fgets` on a line of at least `MAX_LINESIZE − 1` bytes: the buffer takes the first
    `MAX_LINESIZE − 1` bytes, whatever follows the line -/
theorem fgets_long (line tail : Bytes) (hno : ∀ c ∈ line, c ≠ 10) (hlen : maxLineSize - 1 ≤ line.length) :
    fgets (line ++ tail) = some (line.take (maxLineSize - 1), line.drop (maxLineSize - 1) ++ tail) := by
  unfold fgets
  have hpos : 0 < line.length := by
    have : maxLineSize - 1 = 4095 := by decide
    rw [this] at hlen; omega
  have hne : line ++ tail ≠ [] := by
    intro h; have := congrArg List.length h; simp only [List.length_append, List.length_nil] at this; omega
  simp only [hne, if_false]
  generalize hk : maxLineSize - 1 = k at hlen
  have ht : (line ++ tail).take k = line.take k := List.take_append_of_le_length hlen
  have htw : (line.take k).takeWhile (· != 10) = line.take k :=
    takeWhile_id _ (fun c hc => by simpa using hno c (List.mem_of_mem_take hc))
  rw [ht, htw]
  simp only [Nat.lt_irrefl, if_false, List.length_take, Nat.min_eq_left hlen]
  rw [List.take_append_of_le_length hlen, List.drop_append_of_le_length hlen]

/-- the rest of such a line is consumed up to and including its newline (or to the end of the file);
    `toolong` says whether anything had to be thrown away -/
theorem drain_long (line tail : Bytes) (hno : ∀ c ∈ line, c ≠ 10) (hlen : maxLineSize - 1 ≤ line.length)
    (htail : tail = [] ∨ ∃ rest, tail = 10 :: rest) :
    drain (line.take (maxLineSize - 1)) (line.drop (maxLineSize - 1) ++ tail) =
      (tail.drop 1, !(line.drop (maxLineSize - 1)).isEmpty) := by
  unfold drain
  have hfull : (line.take (maxLineSize - 1)).length = maxLineSize - 1 ∧
      (line.take (maxLineSize - 1)).getLast? ≠ some 10 := by
    refine ⟨by simp [List.length_take]; omega, ?_⟩
    intro h
    exact hno 10 (List.mem_of_mem_take (List.mem_of_getLast? h)) rfl
  rw [if_pos hfull]
  have hd : ∀ c ∈ line.drop (maxLineSize - 1), (c != 10) = true :=
    fun c hc => by simpa using hno c (List.mem_of_mem_drop hc)
  rcases htail with h | ⟨rest, h⟩
  · subst h
    simp only [List.append_nil, takeWhile_id _ hd, Ini.dropWhile_all _ hd, List.drop_nil]
  · subst h
    have e1 : (line.drop (maxLineSize - 1) ++ 10 :: rest).takeWhile (· != 10) = line.drop (maxLineSize - 1) :=
      takeWhile_ne_append _ rest 10 (fun c hc => hno c (List.mem_of_mem_drop hc))
    have e2 : (line.drop (maxLineSize - 1) ++ 10 :: rest).dropWhile (· != 10) = 10 :: rest := by
      rw [Ini.dropWhile_all_append _ _ hd]; simp
    rw [e1, e2]

/-- C20 ac_long_comment_ignored at the level of the loop: a comment line of ANY length — white space,
    `#` within the first `MAX_LINESIZE − 1` bytes, then any text — in any section only advances the
    line counter by one; nothing of it is tokenized or dispatched -/
theorem parseInline_comment (cfg : Cfg) (fuel sid : Nat) (parent : Option CbData) (oc ns ln : Nat) (evs : List Event)
    (ws text tail : Bytes) (hws : WsRun ws) (htext : ∀ c ∈ text, c ≠ 10 ∧ c ≠ 0) (hlen : ws.length + 1 < maxLineSize)
    (htail : tail = [] ∨ ∃ rest, tail = 10 :: rest) (hnl : tail = [] → maxLineSize - 1 ≤ (ws ++ [35] ++ text).length) :
    parseInline cfg (fuel + 1) sid parent oc ns ⟨ws ++ [35] ++ text ++ tail, ln, evs⟩ =
      parseInline cfg fuel sid parent oc ns ⟨tail.drop 1, ln + 1, evs⟩ := by
  have hp := wsRun_props hws
  have hno : ∀ c ∈ ws ++ [35] ++ text, c ≠ 10 := by
    intro c hc
    rcases List.mem_append.mp hc with h | h
    · rcases List.mem_append.mp h with h | h
      · exact hp.1 c h
      · simp at h; subst h; decide
    · exact (htext c h).1
  have hnz : ∀ c ∈ ws ++ [35] ++ text, c ≠ 0 := by
    intro c hc
    rcases List.mem_append.mp hc with h | h
    · rcases List.mem_append.mp h with h | h
      · exact hp.2 c h
      · simp at h; subst h; decide
    · exact (htext c h).2
  by_cases hshort : (ws ++ [35] ++ text).length + 1 < maxLineSize
  · -- the line fits
    obtain ⟨rest, rfl⟩ : ∃ rest, tail = 10 :: rest := by
      rcases htail with h | h
      · have := hnl h; omega
      · exact h
    conv => lhs; unfold parseInline
    simp only [fgets_line _ rest hno hshort]
    rw [takeWhile_nonzero _ (by
      intro c hc; rcases List.mem_append.mp hc with h | h
      · exact hnz c h
      · simp at h; subst h; decide)]
    obtain ⟨ys, hy⟩ := Ini.trim_head ws (text ++ [10]) 35 (wsRun_isWs hws) (by decide)
    have e : ws ++ [35] ++ text ++ [10] = ws ++ 35 :: (text ++ [10]) := by simp
    rw [drain_nl, e, hy]
    simp
  · have hlong : maxLineSize - 1 ≤ (ws ++ [35] ++ text).length := by omega
    conv => lhs; unfold parseInline
    simp only [fgets_long _ tail hno hlong]
    have hnzc : ∀ c ∈ (ws ++ [35] ++ text).take (maxLineSize - 1), c ≠ 0 := fun c hc => hnz c (List.mem_of_mem_take hc)
    rw [takeWhile_nonzero _ hnzc, drain_long _ tail hno hlong htail]
    -- the buffer starts with the white space and the `#`
    have hchunk : (ws ++ [35] ++ text).take (maxLineSize - 1) = ws ++ 35 :: text.take (maxLineSize - 1 - (ws.length + 1)) := by
      have e : ws ++ [35] ++ text = (ws ++ [35]) ++ text := rfl
      rw [e, List.take_append]
      have h1 : (ws ++ [35]).take (maxLineSize - 1) = ws ++ [35] :=
        List.take_of_length_le (by simp only [List.length_append, List.length_cons, List.length_nil]; omega)
      rw [h1]
      simp
    obtain ⟨ys, hy⟩ := Ini.trim_head ws (text.take (maxLineSize - 1 - (ws.length + 1))) 35 (wsRun_isWs hws) (by decide)
    rw [hchunk, hy]
    simp

/-- C20 ac_long_directive_rejected at the level of the loop: a line of more than `MAX_LINESIZE − 1`
    bytes whose first non-blank byte (within the buffer) is not `#` is the error "Line is too long."
    of that line, in any section; the callbacks made so far are kept, nothing is added -/
theorem parseInline_tooLong (cfg : Cfg) (fuel sid : Nat) (parent : Option CbData) (oc ns ln : Nat) (evs : List Event)
    (line tail : Bytes) (hno : ∀ c ∈ line, c ≠ 10 ∧ c ≠ 0) (hlen : maxLineSize ≤ line.length)
    (hnc : (Str.trim (line.take (maxLineSize - 1))).head? ≠ some 35)
    (htail : tail = [] ∨ ∃ rest, tail = 10 :: rest) :
    parseInline cfg (fuel + 1) sid parent oc ns ⟨line ++ tail, ln, evs⟩ =
      .ok (⟨tail.drop 1, ln + 1, evs⟩, .err (ln + 1) (str "Line is too long.")) := by
  have hno10 : ∀ c ∈ line, c ≠ 10 := fun c hc => (hno c hc).1
  have hlong : maxLineSize - 1 ≤ line.length := by omega
  conv => lhs; unfold parseInline
  simp only [fgets_long _ tail hno10 hlong]
  rw [takeWhile_nonzero _ (fun c hc => (hno c (List.mem_of_mem_take hc)).2), drain_long _ tail hno10 hlong htail]
  have hrest : (line.drop (maxLineSize - 1)).isEmpty = false := by
    cases hd : line.drop (maxLineSize - 1) with
    | nil =>
      have := congrArg List.length hd
      simp only [List.length_drop, List.length_nil] at this
      have hk : maxLineSize = 4096 := by decide
      omega
    | cons a t => rfl
  have hh : ((Str.trim (line.take (maxLineSize - 1))).head? != some 35) = true := by simp [hnc]
  simp only [hrest, Bool.not_false, hh, Bool.and_self, if_true]

theorem mem_escapeGo (qc : UInt8) (t : Bytes) : ∀ (e : List Bool) (c : UInt8), c ∈ escapeGo qc t e → c ∈ t ∨ c = 92 := by
  induction t with
  | nil => intro e c h; simp [escapeGo] at h
  | cons a t ih =>
    intro e c h
    simp only [escapeGo] at h
    rcases List.mem_append.mp h with h1 | h2
    · split at h1
      · simp at h1; rcases h1 with rfl | rfl
        · exact Or.inr rfl
        · exact Or.inl (by simp)
      · simp at h1; subst h1; exact Or.inl (by simp)
    · rcases ih _ c h2 with h3 | h3
      · exact Or.inl (by simp [h3])
      · exact Or.inr h3

theorem mem_renderArg (a : RArg) (c : UInt8) (h : c ∈ renderArg a) : c ∈ a.text ∨ c = 92 ∨ c = 39 ∨ c = 34 := by
  unfold renderArg at h
  cases hs : a.style with
  | bare => rw [hs] at h; exact Or.inl h
  | single =>
    rw [hs] at h
    simp only [quoteChar, List.cons_append, List.nil_append, List.mem_cons, List.mem_append, List.not_mem_nil, or_false] at h
    rcases h with rfl | h | rfl
    · exact Or.inr (Or.inr (Or.inl rfl))
    · rcases mem_escapeGo _ _ _ _ h with h | h
      · exact Or.inl h
      · exact Or.inr (Or.inl h)
    · exact Or.inr (Or.inr (Or.inl rfl))
  | double =>
    rw [hs] at h
    simp only [quoteChar, List.cons_append, List.nil_append, List.mem_cons, List.mem_append, List.not_mem_nil, or_false] at h
    rcases h with rfl | h | rfl
    · exact Or.inr (Or.inr (Or.inr rfl))
    · rcases mem_escapeGo _ _ _ _ h with h | h
      · exact Or.inl h
      · exact Or.inr (Or.inl h)
    · exact Or.inr (Or.inr (Or.inr rfl))

/-- a byte that is neither blank, quote nor backslash occurs in a rendered line only inside a text -/
theorem renderArgs_noByte (b : UInt8) (hb : b ≠ 32 ∧ b ≠ 9 ∧ b ≠ 92 ∧ b ≠ 39 ∧ b ≠ 34) (l : List (Bytes × RArg))
    (hbl : ∀ x ∈ l, ∀ c ∈ x.1, isBlank c = true) (ht : ∀ x ∈ l, ∀ c ∈ x.2.text, c ≠ b) :
    ∀ c ∈ renderArgs l, c ≠ b := by
  induction l with
  | nil => intro c h; simp [renderArgs] at h
  | cons x rest ih =>
    obtain ⟨bl, a⟩ := x
    intro c h
    simp only [renderArgs] at h
    rcases List.mem_append.mp h with h1 | h3
    · rcases List.mem_append.mp h1 with h1 | h2
      · have := hbl (bl, a) (by simp) c h1
        simp only [isBlank, Bool.or_eq_true, beq_iff_eq] at this
        rcases this with rfl | rfl
        · exact fun h => hb.1 h.symm
        · exact fun h => hb.2.1 h.symm
      · rcases mem_renderArg a c h2 with h | rfl | rfl | rfl
        · exact ht (bl, a) (by simp) c h
        · exact fun h => hb.2.2.1 h.symm
        · exact fun h => hb.2.2.2.1 h.symm
        · exact fun h => hb.2.2.2.2 h.symm
    · exact ih (fun y hy => hbl y (by simp [hy])) (fun y hy => ht y (by simp [hy])) c h3

/-- the rendered arguments without the blanks in front of the first one -/
def dropLead : List (Bytes × RArg) → List (Bytes × RArg)
  | [] => []
  | (_, a) :: rest => ([], a) :: rest

theorem dropLead_ok (l : List (Bytes × RArg)) (h : LineOk l) : LineOk (dropLead l) := by
  cases l with
  | nil => exact h
  | cons x rest =>
    obtain ⟨bl, a⟩ := x
    refine ⟨?_, ?_⟩
    · intro y hy
      rcases List.mem_cons.mp hy with rfl | hy'
      · exact ⟨by simp, (h.1 (bl, a) (by simp)).2⟩
      · exact h.1 y (by simp [hy'])
    · intro y hy; exact h.2 y (by simpa [dropLead] using hy)

theorem dropLead_texts (l : List (Bytes × RArg)) : (dropLead l).map (·.2.text) = l.map (·.2.text) := by
  cases l with
  | nil => rfl
  | cons x rest => obtain ⟨bl, a⟩ := x; rfl

theorem parseInline_dir (cfg : Cfg) (hcb : ∀ d, cfg.cbFail d = none) (fuel oc ns ln : Nat) (evs : List Event)
    (args : List (Bytes × RArg)) (trail rest : Bytes) (hok : FLineOk (.dir args trail)) :
    match judgeDir cfg (args.map (·.2.text)) with
    | .reject => ∃ msg, parseInline cfg (fuel + 1) qacSectionRoot none oc ns
        ⟨renderLine (.dir args trail) ++ 10 :: rest, ln, evs⟩ = .ok (⟨rest, ln + 1, evs⟩, .err (ln + 1) msg)
    | .silent => ∃ ns', parseInline cfg (fuel + 1) qacSectionRoot none oc ns
        ⟨renderLine (.dir args trail) ++ 10 :: rest, ln, evs⟩ =
          parseInline cfg fuel qacSectionRoot none (oc + 1) ns' ⟨rest, ln + 1, evs⟩
    | .call e => ∃ ns', parseInline cfg (fuel + 1) qacSectionRoot none oc ns
        ⟨renderLine (.dir args trail) ++ 10 :: rest, ln, evs⟩ =
          parseInline cfg fuel qacSectionRoot none (oc + 1) ns' ⟨rest, ln + 1, e :: evs⟩ := by
  obtain ⟨hne, hlo, htr, htexts, hhead, hlen⟩ := hok
  obtain ⟨x0, restA, hargs⟩ : ∃ x r, args = x :: r := by
    cases args with
    | nil => exact absurd rfl hne
    | cons x r => exact ⟨x, r, rfl⟩
  obtain ⟨bl0, a0⟩ := x0
  -- the line and its trimmed form
  let X := renderArgs (dropLead args)
  have hX : renderArgs args = bl0 ++ X := by simp [X, hargs, dropLead, renderArgs]
  have hbl0 : ∀ c ∈ bl0, isBlank c = true := (hlo.1 (bl0, a0) (by simp [hargs])).1
  have hbl0ws : ∀ c ∈ bl0, Str.isWs c = true := by
    intro c hc
    have := hbl0 c hc
    simp only [isBlank, Bool.or_eq_true, beq_iff_eq] at this
    rcases this with h | h <;> subst h <;> decide
  have hblk : ∀ x ∈ args, ∀ c ∈ x.1, isBlank c = true := fun x hx => (hlo.1 x hx).1
  have hline10 : ∀ c ∈ renderArgs args ++ trail, c ≠ 10 := by
    intro c hc
    rcases List.mem_append.mp hc with h | h
    · exact renderArgs_noByte 10 (by decide) args hblk (fun x hx => (htexts x hx).1) c h
    · exact (wsRun_props htr).1 c h
  have hline0 : ∀ c ∈ renderArgs args ++ trail, c ≠ 0 := by
    intro c hc
    rcases List.mem_append.mp hc with h | h
    · exact renderArgs_noByte 0 (by decide) args hblk (fun x hx => (hlo.1 x hx).2.1) c h
    · exact (wsRun_props htr).2 c h
  have hlen' : (renderArgs args ++ trail).length + 1 < maxLineSize := by
    simp only [List.length_append]; omega
  -- the trimmed line is X
  have hdl : LineOk (dropLead args) := dropLead_ok args hlo
  have hdne : dropLead args ≠ [] := by simp [hargs, dropLead]
  obtain ⟨c0, r0, hr0, hc0b, hc00⟩ := renderArg_head a0 (hlo.1 (bl0, a0) (by simp [hargs])).2
  have hXhead : X = c0 :: (r0 ++ renderArgs restA) := by
    simp [X, hargs, dropLead, renderArgs, hr0]
  have hc0 : c0 ≠ 60 ∧ c0 ≠ 35 := by
    have := hhead (bl0, a0) (by simp [hargs])
    simp only [hr0, List.head?_cons, ne_eq, Option.some.injEq] at this
    exact this
  have hc0ws : Str.isWs c0 = false := by
    -- bare: a text byte; quoted: the quote character
    have hmem : c0 ∈ renderArg a0 := by rw [hr0]; simp
    cases hs : a0.style with
    | bare =>
      have : renderArg a0 = a0.text := by simp [renderArg, hs]
      rw [this] at hmem
      exact (htexts (bl0, a0) (by simp [hargs])).2 hs c0 hmem
    | single =>
      have : renderArg a0 = 39 :: (escapeGo 39 a0.text a0.esc ++ [39]) := by simp [renderArg, hs, quoteChar]
      rw [this] at hr0; cases hr0; decide
    | double =>
      have : renderArg a0 = 34 :: (escapeGo 34 a0.text a0.esc ++ [34]) := by simp [renderArg, hs, quoteChar]
      rw [this] at hr0; cases hr0; decide
  have hbare' : ∀ x ∈ dropLead args, x.2.style = .bare → ∀ c ∈ x.2.text, Str.isWs c = false := by
    intro x hx
    rw [hargs] at hx
    simp only [dropLead, List.mem_cons] at hx
    rcases hx with rfl | hx
    · exact (htexts (bl0, a0) (by simp [hargs])).2
    · exact (htexts x (by simp [hargs, hx])).2
  obtain ⟨cl, hcl, hclw⟩ := renderArgs_last (dropLead args) hdne hdl hbare'
  have hXtight : Ini.Tight X := by
    refine ⟨?_, ?_⟩
    · intro c hc; rw [hXhead] at hc; simp at hc; subst hc; exact hc0ws
    · intro c hc; rw [hcl] at hc; cases hc; exact hclw
  have htrim : Str.trim (renderArgs args ++ trail ++ [10]) = X := by
    have e : renderArgs args ++ trail ++ [10] = bl0 ++ X ++ (trail ++ [10]) := by rw [hX]; simp
    rw [e]
    refine Ini.trim_pad bl0 X (trail ++ [10]) hbl0ws ?_ hXtight
    intro c hc
    rcases List.mem_append.mp hc with h | h
    · exact wsRun_isWs htr c h
    · simp at h; subst h; decide
  have htok : tokenize X = .ok (.args (args.map (·.2.text))) := by
    have := tokenize_render (dropLead args) hdne hdl
    rw [dropLead_texts] at this
    exact this
  -- run the loop body
  obtain ⟨stp, hdisp, hverdict⟩ := dispatch_judge cfg hcb ns (args.map (·.2.text))
  have hbody : parseInline cfg (fuel + 1) qacSectionRoot none oc ns
      ⟨renderLine (.dir args trail) ++ 10 :: rest, ln, evs⟩ =
      (match stp.err with
       | some m => Except.ok (({ input := rest, lineno := ln + 1, events := stp.events.reverse ++ evs } : PState), Res.err (ln + 1) m)
       | none => parseInline cfg fuel qacSectionRoot none (oc + 1) stp.nsid
           { input := rest, lineno := ln + 1, events := stp.events.reverse ++ evs }) := by
    conv => lhs; unfold parseInline
    simp only [renderLine, fgets_line _ rest hline10 hlen']
    rw [takeWhile_nonzero _ (by
      intro c hc; rcases List.mem_append.mp hc with h | h
      · exact hline0 c h
      · simp at h; subst h; decide)]
    rw [htrim]
    simp only [drain_nl, Bool.false_and, Bool.false_eq_true, if_false]
    have hXne : X ≠ [] := by rw [hXhead]; simp
    have hcond : ((X = []) || (X.head? == some 35)) = false := by
      rw [hXhead]; simp [hc0.2]
    simp only [hcond, Bool.false_eq_true, if_false]
    have hbr : brackets X = .ok (some (otypeOption, X)) := by
      unfold brackets
      have : (X.head? == some 60) = false := by rw [hXhead]; simp [hc0.1]
      simp [this]
    rw [hbr]
    simp only []
    have hoo : (decide (otypeOption = otypeOpen) && decide ((header qacSectionRoot none).level = 2 ^ (8 * sizeofLevel) - 1)) = false := by
      decide
    simp only [hoo, Bool.false_eq_true, if_false, htok]
    have hoc : (decide (otypeOption = otypeClose) && true) = false := by decide
    simp only [hoc, Bool.false_eq_true, if_false]
    have hcb0 : ({ header qacSectionRoot none with otype := otypeOption, argv := args.map (·.2.text) } : CbData) =
        rootData (args.map (·.2.text)) := rfl
    rw [hcb0, hdisp]
    simp only []
    have h1 : ¬ (otypeOption = otypeOpen) := by decide
    have h2 : ¬ (otypeOption = otypeClose) := by decide
    cases stp.err with
    | some m => rfl
    | none => simp only [h1, h2, if_false]
  rw [hbody]
  cases hj : judgeDir cfg (args.map (·.2.text)) with
  | reject =>
    rw [hj] at hverdict
    obtain ⟨he, hev⟩ := hverdict
    cases hse : stp.err with
    | none => exact absurd hse he
    | some m => exact ⟨m, by simp [hev]⟩
  | silent =>
    rw [hj] at hverdict
    obtain ⟨he, hev⟩ := hverdict
    exact ⟨stp.nsid, by simp [he, hev]⟩
  | call e =>
    rw [hj] at hverdict
    obtain ⟨he, hev⟩ := hverdict
    exact ⟨stp.nsid, by simp [he, hev]⟩

def proj (x : PState × Res) : List Event × FRes := (x.1.events.reverse, x.2.toF)

theorem parseInline_flat (cfg : Cfg) (hcb : ∀ d, cfg.cbFail d = none) (lines : List FLine) :
    ∀ (fuel oc ns ln : Nat) (evs : List Event), (∀ l ∈ lines, FLineOk l) → (renderFlat lines).length < fuel →
    (parseInline cfg fuel qacSectionRoot none oc ns ⟨renderFlat lines, ln, evs⟩).map proj =
      .ok (specRun cfg lines ln oc evs) := by
  induction lines with
  | nil =>
    intro fuel oc ns ln evs _ hf
    cases fuel with
    | zero => simp at hf
    | succ f => simp [renderFlat, parseInline, fgets, specRun, Except.map, proj, Res.toF]
  | cons l rest ih =>
    intro fuel oc ns ln evs hok hf
    have hl := hok l (by simp)
    have hokr : ∀ x ∈ rest, FLineOk x := fun x hx => hok x (by simp [hx])
    cases fuel with
    | zero => simp at hf
    | succ f =>
    have hfr : (renderFlat rest).length < f := by
      simp only [renderFlat, List.length_append, List.length_cons, List.length_nil] at hf; omega
    have hshape : renderFlat (l :: rest) = renderLine l ++ 10 :: renderFlat rest := by simp [renderFlat]
    rw [hshape]
    cases l with
    | blank ws =>
      obtain ⟨hws, hlen⟩ := hl
      have hp := wsRun_props hws
      simp only [renderLine]
      rw [parseInline_skip cfg f oc ns ln evs ws (renderFlat rest) hp.1 hp.2 hlen (Or.inl (by
        have := Ini.trim_pad (ws ++ [10]) [] [] (by
          intro c hc; rcases List.mem_append.mp hc with h | h
          · exact wsRun_isWs hws c h
          · simp at h; subst h; decide) (by simp) ⟨by simp, by simp⟩
        simpa using this))]
      simp only [specRun]
      exact ih f oc ns (ln + 1) evs hokr hfr
    | comment ws text =>
      obtain ⟨hws, htext, hlen⟩ := hl
      simp only [renderLine]
      have := parseInline_comment cfg f qacSectionRoot none oc ns ln evs ws text (10 :: renderFlat rest) hws htext hlen
        (Or.inr ⟨_, rfl⟩) (by intro h; cases h)
      simp only [List.drop_succ_cons, List.drop_zero] at this
      rw [this]
      simp only [specRun]
      exact ih f oc ns (ln + 1) evs hokr hfr
    | dir args trail =>
      have hd := parseInline_dir cfg hcb f oc ns ln evs args trail (renderFlat rest) hl
      simp only [specRun]
      cases hj : judgeDir cfg (args.map (·.2.text)) with
      | reject =>
        rw [hj] at hd
        obtain ⟨msg, h⟩ := hd
        rw [h]; simp [Except.map, proj, Res.toF]
      | silent =>
        rw [hj] at hd
        obtain ⟨ns', h⟩ := hd
        rw [h]
        exact ih f (oc + 1) ns' (ln + 1) evs hokr hfr
      | call e =>
        rw [hj] at hd
        obtain ⟨ns', h⟩ := hd
        rw [h]
        exact ih f (oc + 1) ns' (ln + 1) (e :: evs) hokr hfr

/-- the whole parse of a flat document -/
theorem parse_flat (cfg : Cfg) (hcb : ∀ d, cfg.cbFail d = none) (lines : List FLine) (hok : ∀ l ∈ lines, FLineOk l) :
    (parse cfg (renderFlat lines)).map (fun x => (x.1, x.2.toF)) = .ok (specRun cfg lines 0 0 []) := by
  have h := parseInline_flat cfg hcb lines ((renderFlat lines).length + 1) 0 0 0 [] hok (by omega)
  unfold parse
  cases hp : parseInline cfg ((renderFlat lines).length + 1) qacSectionRoot none 0 0 ⟨renderFlat lines, 0, []⟩ with
  | error f => rw [hp] at h; simp [Except.map] at h
  | ok x =>
    rw [hp] at h
    simp only [Except.map, proj] at h ⊢
    exact h

/-! ### reading `specRun`: accepted exactly when no directive is rejected -/

def Verdict.isReject : Verdict → Bool
  | .reject => true
  | _ => false

def isRejected (cfg : Cfg) : FLine → Bool
  | .dir args _ => (judgeDir cfg (args.map (·.2.text))).isReject
  | _ => false

def isDir : FLine → Bool
  | .dir _ _ => true
  | _ => false

/-- 0-based index of the first line that violates a declaration -/
def firstOffence (cfg : Cfg) : List FLine → Option Nat
  | [] => none
  | l :: rest =>
    match isRejected cfg l with
    | true => some 0
    | false => (firstOffence cfg rest).map (· + 1)

theorem specRun_result (cfg : Cfg) (lines : List FLine) : ∀ (ln c : Nat) (evs : List Event),
    (specRun cfg lines ln c evs).2 =
      match firstOffence cfg lines with
      | some i => .errLine (ln + i + 1)
      | none => .count (c + (lines.filter isDir).length) := by
  induction lines with
  | nil => intro ln c evs; simp [specRun, firstOffence]
  | cons l rest ih =>
    intro ln c evs
    have tailcase : ∀ (c' : Nat) (evs' : List Event) (k : Nat), c' + (rest.filter isDir).length = c + k →
        (specRun cfg rest (ln + 1) c' evs').2 =
          match (firstOffence cfg rest).map (· + 1) with
          | some i => .errLine (ln + i + 1)
          | none => .count (c + k) := by
      intro c' evs' k hk
      rw [ih]
      cases firstOffence cfg rest with
      | none => simp [hk]
      | some i => simp; omega
    cases l with
    | blank ws =>
      simp only [specRun, firstOffence, isRejected, List.filter_cons, isDir, Bool.false_eq_true, if_false]
      exact tailcase c evs _ rfl
    | comment ws text =>
      simp only [specRun, firstOffence, isRejected, List.filter_cons, isDir, Bool.false_eq_true, if_false]
      exact tailcase c evs _ rfl
    | dir args trail =>
      simp only [specRun, firstOffence, isRejected, List.filter_cons, isDir, if_true, List.length_cons]
      cases hj : judgeDir cfg (args.map (·.2.text)) with
      | reject => simp [Verdict.isReject]
      | silent =>
        simp only [Verdict.isReject]
        exact tailcase (c + 1) evs _ (by omega)
      | call e =>
        simp only [Verdict.isReject]
        exact tailcase (c + 1) (e :: evs) _ (by omega)

end Qlibc.Conf.Aconf

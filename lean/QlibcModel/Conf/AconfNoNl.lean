/-
  C20: a last line without a terminating newline. `fgets` on such a file, trimming, and a simulation
  of `_parse_inline` on `text` and `text ++ "\\n"`; fuel monotonicity of the loop.
-/
import QlibcModel.Conf.AconfNested
namespace Qlibc.Conf.Aconf
open Qlibc Qlibc.Generated.Conf

theorem all_of_dropWhile_nil {p : UInt8 → Bool} (x : Bytes) (h : x.dropWhile p = []) : ∀ c ∈ x, p c = true := by
  induction x with
  | nil => intro c hc; simp at hc
  | cons a x ih =>
    simp only [List.dropWhile_cons] at h
    by_cases ha : p a = true
    · simp only [ha, if_true] at h
      intro c hc
      rcases List.mem_cons.mp hc with rfl | hc'
      · exact ha
      · exact ih h c hc'
    · simp [ha] at h

/-- trimming ignores a final newline -/
theorem trim_snoc_nl (x : Bytes) : Str.trim (x ++ [10]) = Str.trim x := by
  unfold Str.trim Str.trimHead Str.trimTail
  by_cases h : x.dropWhile Str.isWs = []
  · have hall := all_of_dropWhile_nil x h
    rw [Ini.dropWhile_all_append x [10] hall, h]
    decide
  · have e : (x ++ [10]).dropWhile Str.isWs = x.dropWhile Str.isWs ++ [10] := by
      induction x with
      | nil => simp at h
      | cons c x ih =>
        simp only [List.cons_append, List.dropWhile_cons] at h ⊢
        split
        · rename_i hc; simp only [hc, if_true] at h; exact ih h
        · rfl
    rw [e, List.reverse_append]
    simp only [List.reverse_cons, List.reverse_nil, List.nil_append, List.cons_append, List.dropWhile_cons]
    have : Str.isWs 10 = true := by decide
    simp only [this, if_true]

theorem takeWhile_nz_snoc (x : Bytes) :
    Str.trim ((x ++ [10]).takeWhile (· != 0)) = Str.trim (x.takeWhile (· != 0)) := by
  by_cases h : ∀ c ∈ x, c ≠ 0
  · rw [takeWhile_nonzero x h, takeWhile_nonzero (x ++ [10]) (by
      intro c hc; rcases List.mem_append.mp hc with h1 | h1
      · exact h c h1
      · simp at h1; subst h1; decide)]
    exact trim_snoc_nl x
  · -- a NUL inside x: both strings end there
    have : (x ++ [10]).takeWhile (· != 0) = x.takeWhile (· != 0) := by
      induction x with
      | nil => simp at h
      | cons c x ih =>
        simp only [List.cons_append, List.takeWhile_cons]
        by_cases hc : c = 0
        · simp [hc]
        · have hc' : (c != 0) = true := by simp [hc]
          simp only [hc', if_true]
          congr 1
          apply ih
          intro hall
          apply h
          intro d hd
          rcases List.mem_cons.mp hd with rfl | hd'
          · exact hc
          · exact hall d hd'
    rw [this]

theorem takeWhile_append_stop {p : UInt8 → Bool} (a z : Bytes) (h : (a.takeWhile p).length < a.length) :
    (a ++ z).takeWhile p = a.takeWhile p := by
  induction a with
  | nil => simp at h
  | cons c a ih =>
    simp only [List.cons_append, List.takeWhile_cons] at h ⊢
    by_cases hc : p c = true
    · simp only [hc, if_true, List.length_cons] at h ⊢
      rw [ih (by omega)]
    · simp [hc]

theorem takeWhile_full_no {p : UInt8 → Bool} (a : Bytes) (h : ¬ (a.takeWhile p).length < a.length) :
    ∀ c ∈ a, p c = true := by
  induction a with
  | nil => intro c hc; simp at hc
  | cons x a ih =>
    simp only [List.takeWhile_cons] at h
    by_cases hx : p x = true
    · simp only [hx, if_true, List.length_cons] at h
      intro c hc
      rcases List.mem_cons.mp hc with rfl | hc'
      · exact hx
      · exact ih (by omega) c hc'
    · simp [hx] at h

/-- `fgets` on a text whose last byte is a newline does not look at what follows the text -/
theorem fgets_append (pre x : Bytes) (hpre : pre.getLast? = some 10) :
    ∃ chunk r, fgets pre = some (chunk, r) ∧ fgets (pre ++ x) = some (chunk, r ++ x) ∧
      (r = [] ∨ r.getLast? = some 10) ∧ r.length < pre.length := by
  have hne : pre ≠ [] := by intro h; subst h; simp at hpre
  have hmem : (10 : UInt8) ∈ pre := List.mem_of_getLast? hpre
  have hpos : 0 < pre.length := List.length_pos_iff.mpr hne
  unfold fgets
  have hne' : pre ++ x ≠ [] := by simp [hne]
  simp only [hne, hne', if_false]
  generalize hk : maxLineSize - 1 = k
  have hkpos : 0 < k := by rw [← hk]; decide
  have hL' : (pre ++ x).take k = pre.take k ++ x.take (k - pre.length) := List.take_append
  generalize hz : x.take (k - pre.length) = z at hL'
  -- the stop position is the same
  have key : ((pre ++ x).take k).takeWhile (· != 10) = (pre.take k).takeWhile (· != 10) ∧
      ((((pre.take k).takeWhile (· != 10)).length < ((pre ++ x).take k).length) ↔
        (((pre.take k).takeWhile (· != 10)).length < (pre.take k).length)) := by
    rw [hL']
    by_cases hs : ((pre.take k).takeWhile (· != 10)).length < (pre.take k).length
    · refine ⟨takeWhile_append_stop _ _ hs, ?_⟩
      simp only [List.length_append]; constructor <;> intro _ <;> omega
    · -- no newline in the first k bytes of pre: pre is longer than k
      have hall := takeWhile_full_no _ hs
      have hlong : k < pre.length := by
        apply Classical.byContradiction
        intro hle
        have : pre.take k = pre := List.take_of_length_le (by omega)
        rw [this] at hall
        have := hall 10 hmem
        simp at this
      have : z = [] := by rw [← hz]; simp; omega
      rw [this]; simp
  rw [key.1]
  generalize htw : ((pre.take k).takeWhile (· != 10)) = tw at key
  have htwle : tw.length ≤ (pre.take k).length := by
    rw [← htw]; exact (List.takeWhile_sublist _).length_le
  have hLle : (pre.take k).length ≤ pre.length := by simp [List.length_take]; omega
  have hLpos : 0 < (pre.take k).length := by simp [List.length_take]; omega
  by_cases hs : tw.length < (pre.take k).length
  · have hs' := key.2.mpr hs
    simp only [hs, hs', if_true]
    have hn : tw.length + 1 ≤ pre.length := by omega
    refine ⟨_, _, rfl, ?_, ?_, ?_⟩
    · rw [List.take_append_of_le_length hn, List.drop_append_of_le_length hn]
    · by_cases hr : pre.drop (tw.length + 1) = []
      · exact Or.inl hr
      · right
        rw [List.getLast?_drop]
        have : ¬ (pre.length ≤ tw.length + 1) := by
          intro hle; exact hr (List.drop_eq_nil_of_le hle)
        simp [this, hpre]
    · simp only [List.length_drop]; omega
  · have hs' : ¬ tw.length < ((pre ++ x).take k).length := fun h => hs (key.2.mp h)
    simp only [hs, hs', if_false]
    have htwk : tw.length = (pre.take k).length := by omega
    have hn : tw.length ≤ pre.length := by omega
    refine ⟨_, _, rfl, ?_, ?_, ?_⟩
    · rw [List.take_append_of_le_length hn, List.drop_append_of_le_length hn]
    · by_cases hr : pre.drop tw.length = []
      · exact Or.inl hr
      · right
        rw [List.getLast?_drop]
        have : ¬ (pre.length ≤ tw.length) := by
          intro hle; exact hr (List.drop_eq_nil_of_le hle)
        simp [this, hpre]
    · simp only [List.length_drop]; omega

/-! ### a last line without newline -/

def Hpre (pre : Bytes) : Prop := pre = [] ∨ pre.getLast? = some 10
def Hlast (last : Bytes) : Prop := (∀ c ∈ last, c ≠ 10) ∧ last ≠ [] ∧ last.length + 1 < maxLineSize

/-- two final states of the loop that differ at most by the newline at the very end of the input -/
def OutRel (a b : PState × Res) : Prop :=
  a = b ∨ (a.2 = b.2 ∧ a.1.lineno = b.1.lineno ∧ a.1.events = b.1.events ∧
    ∃ pre last, Hpre pre ∧ Hlast last ∧ a.1.input = pre ++ last ∧ b.1.input = pre ++ last ++ [10])

def ResRel : Except Fault (PState × Res) → Except Fault (PState × Res) → Prop
  | .error f, .error g => f = g
  | .ok a, .ok b => OutRel a b
  | _, _ => False

theorem resRel_refl (A : Except Fault (PState × Res)) : ResRel A A := by
  cases A with
  | error f => rfl
  | ok a => exact Or.inl rfl

theorem fgets_lastline (last : Bytes) (h : Hlast last) :
    fgets last = some (last, []) ∧ fgets (last ++ [10]) = some (last ++ [10], []) := by
  obtain ⟨hno, hne, hlen⟩ := h
  refine ⟨?_, ?_⟩
  · unfold fgets
    simp only [hne, if_false]
    have hk : maxLineSize - 1 = 4095 := by decide
    have hl : last.length < 4095 := by have : maxLineSize = 4096 := by decide
                                       omega
    have ht : last.take (maxLineSize - 1) = last := List.take_of_length_le (by omega)
    have htw : last.takeWhile (· != 10) = last := takeWhile_id last (fun c hc => by simpa using hno c hc)
    rw [ht, htw]
    simp
  · exact fgets_line last [] hno hlen

theorem fgets_split (inp c r : Bytes) (h : fgets inp = some (c, r)) : c ++ r = inp ∧ c.length ≤ maxLineSize - 1 := by
  unfold fgets at h
  by_cases he : inp = []
  · simp [he] at h
  · simp only [he, if_false, Option.some.injEq, Prod.mk.injEq] at h
    obtain ⟨rfl, rfl⟩ := h
    refine ⟨List.take_append_drop _ _, ?_⟩
    have h1 : ((inp.take (maxLineSize - 1)).takeWhile (· != 10)).length ≤ (inp.take (maxLineSize - 1)).length :=
      (List.takeWhile_sublist _).length_le
    have h2 : (inp.take (maxLineSize - 1)).length ≤ maxLineSize - 1 := by simp [List.length_take]; omega
    simp only [List.length_take]
    split <;> omega

/-- the C string of a buffer that is completely filled is the buffer -/
theorem takeWhile_full (l : Bytes) (n : Nat) (hl : l.length ≤ n) (h : (l.takeWhile (· != 0)).length = n) :
    l.takeWhile (· != 0) = l :=
  (List.takeWhile_prefix (· != 0)).eq_of_length (by
    have := (List.takeWhile_sublist (· != 0) (l := l)).length_le; omega)

theorem dropWhile_eq_drop {p : UInt8 → Bool} (l : Bytes) : l.dropWhile p = l.drop (l.takeWhile p).length := by
  induction l with
  | nil => rfl
  | cons c l ih =>
    simp only [List.dropWhile_cons, List.takeWhile_cons]
    split
    · simpa using ih
    · rfl

/-- draining looks only at the current line: text behind a newline is left alone -/
theorem drain_append (s r x : Bytes)
    (h : r.getLast? = some 10 ∨ ¬ (s.length = maxLineSize - 1 ∧ s.getLast? ≠ some 10)) :
    drain s (r ++ x) = ((drain s r).1 ++ x, (drain s r).2) := by
  unfold drain
  by_cases hf : s.length = maxLineSize - 1 ∧ s.getLast? ≠ some 10
  · simp only [if_pos hf]
    rcases h with h | h
    · have hmem : (10 : UInt8) ∈ r := List.mem_of_getLast? h
      have hstop : (r.takeWhile (· != 10)).length < r.length := by
        apply Classical.byContradiction
        intro hn
        have := takeWhile_full_no r hn 10 hmem
        simp at this
      have htw : (r ++ x).takeWhile (· != 10) = r.takeWhile (· != 10) := takeWhile_append_stop r x hstop
      have hdw : (r ++ x).dropWhile (· != 10) = r.dropWhile (· != 10) ++ x := by
        have e1 := dropWhile_eq_drop (p := (· != 10)) (r ++ x)
        have e2 := dropWhile_eq_drop (p := (· != 10)) r
        rw [e1, htw, e2, List.drop_append_of_le_length (by omega)]
      have hne : r.dropWhile (· != 10) ≠ [] := by
        intro h0
        have := congrArg List.length (List.takeWhile_append_dropWhile (p := (· != 10)) (l := r))
        rw [h0] at this; simp at this; omega
      rw [htw, hdw]
      cases hd : r.dropWhile (· != 10) with
      | nil => exact absurd hd hne
      | cons a t => simp
    · exact absurd hf h
  · simp only [hf, if_false]

theorem drain_hpre (s r : Bytes) (hr : Hpre r) : Hpre (drain s r).1 := by
  unfold drain
  split
  · show Hpre ((r.dropWhile (· != 10)).drop 1)
    rcases hr with h | h
    · subst h; left; rfl
    · by_cases he : ((r.dropWhile (· != 10)).drop 1) = []
      · left; exact he
      · right
        have hsuf : ((r.dropWhile (· != 10)).drop 1) <:+ r :=
          (List.drop_suffix _ _).trans (List.dropWhile_suffix _)
        obtain ⟨t, ht⟩ := hsuf
        rw [← ht, List.getLast?_append] at h
        cases hl : ((r.dropWhile (· != 10)).drop 1).getLast? with
        | none => exact absurd (List.getLast?_eq_none_iff.mp hl) he
        | some v => rw [hl] at h; simpa using h
  · exact hr

theorem hpre_of_rest {r : Bytes} (h : r = [] ∨ r.getLast? = some 10) : Hpre r := h

/-- the loop gives the same result (callbacks, count or error line and message) whether or not the
    last line of the input ends with a newline -/
theorem parseInline_snoc (cfg : Cfg) (fuel : Nat) : ∀ (sid : Nat) (parent : Option CbData) (oc ns ln : Nat)
    (evs : List Event) (pre last : Bytes), Hpre pre → Hlast last →
    ResRel (parseInline cfg fuel sid parent oc ns ⟨pre ++ last, ln, evs⟩)
           (parseInline cfg fuel sid parent oc ns ⟨pre ++ last ++ [10], ln, evs⟩) := by
  induction fuel with
  | zero => intro sid parent oc ns ln evs pre last _ _; simp [parseInline, ResRel]
  | succ fuel ih =>
    intro sid parent oc ns ln evs pre last hpre hlast
    rcases hpre with hp | hp
    · -- the last line itself
      subst hp
      simp only [List.nil_append]
      obtain ⟨f1, f2⟩ := fgets_lastline last hlast
      have hA : parseInline cfg (fuel + 1) sid parent oc ns ⟨last, ln, evs⟩ =
          parseInline cfg (fuel + 1) sid parent oc ns ⟨last ++ [10], ln, evs⟩ := by
        conv => lhs; unfold parseInline
        conv => rhs; unfold parseInline
        have hk : maxLineSize - 1 = 4095 := by decide
        have hA1 : (last.takeWhile (· != 0)).length ≤ last.length := (List.takeWhile_sublist _).length_le
        have dA : drain (last.takeWhile (· != 0)) [] = ([], false) :=
          drain_short _ _ (by have := hlast.2.2; omega)
        have dB : drain ((last ++ [10]).takeWhile (· != 0)) [] = ([], false) := by
          apply drain_not_full
          intro hfull
          have hl : (last ++ [10]).length ≤ maxLineSize - 1 := by
            have := hlast.2.2; simp only [List.length_append, List.length_cons, List.length_nil]; omega
          have := takeWhile_full (last ++ [10]) _ hl hfull.1
          rw [this] at hfull
          exact hfull.2 (by simp)
        simp only [f1, f2, dA, dB, takeWhile_nz_snoc]
      rw [hA]
      exact resRel_refl _
    · obtain ⟨chunk, r, g1, g2, hr, hrl⟩ := fgets_append pre last hp
      obtain ⟨chunk', r', g1', g2', _, _⟩ := fgets_append pre (last ++ [10]) hp
      rw [g1] at g1'
      obtain ⟨rfl, rfl⟩ : chunk = chunk' ∧ r = r' := by
        simp only [Option.some.injEq, Prod.mk.injEq] at g1'; exact g1'
      have e2 : pre ++ last ++ [10] = pre ++ (last ++ [10]) := by simp
      have e3 : r ++ (last ++ [10]) = r ++ last ++ [10] := by simp
      -- the rest of an over-long line is consumed inside `pre`
      have hcond : r.getLast? = some 10 ∨
          ¬ ((chunk.takeWhile (· != 0)).length = maxLineSize - 1 ∧ (chunk.takeWhile (· != 0)).getLast? ≠ some 10) := by
        rcases hr with h0 | h0
        · right
          intro hfull
          obtain ⟨hsp, hcl⟩ := fgets_split pre chunk r g1
          rw [h0, List.append_nil] at hsp
          have := takeWhile_full chunk _ hcl hfull.1
          rw [this, hsp] at hfull
          exact hfull.2 hp
        · exact Or.inl h0
      have hdA := drain_append (chunk.takeWhile (· != 0)) r last hcond
      have hdB := drain_append (chunk.takeWhile (· != 0)) r (last ++ [10]) hcond
      have hr2 := drain_hpre (chunk.takeWhile (· != 0)) r hr
      generalize (drain (chunk.takeWhile (· != 0)) r).1 = r2 at hdA hdB hr2
      generalize (drain (chunk.takeWhile (· != 0)) r).2 = tl at hdA hdB
      have e4 : r2 ++ (last ++ [10]) = r2 ++ last ++ [10] := by simp
      -- states after reading the line
      have out : ∀ (res : Res) (ev : List Event),
          ResRel (.ok (⟨r2 ++ last, ln + 1, ev⟩, res)) (.ok (⟨r2 ++ last ++ [10], ln + 1, ev⟩, res)) :=
        fun res ev => Or.inr ⟨rfl, rfl, rfl, r2, last, hr2, hlast, rfl, rfl⟩
      conv => lhs; unfold parseInline
      conv => rhs; unfold parseInline
      rw [e2]
      simp only [g2, g2', hdA, hdB, e4]
      split
      · exact out _ _
      split
      · exact ih sid parent oc ns (ln + 1) evs r2 last hr2 hlast
      · cases brackets (Str.trim (chunk.takeWhile (· != 0))) with
        | error f => rfl
        | ok br =>
          cases br with
          | none => exact out _ _
          | some os =>
            obtain ⟨otype, sp⟩ := os
            simp only []
            split
            · exact out _ _
            · cases tokenize sp with
              | error f => rfl
              | ok tr =>
                cases tr with
                | unclosedQuote => exact out _ _
                | args argv =>
                  simp only []
                  cases parent with
                  | none =>
                    simp only []
                    split
                    · exact out _ _
                    · cases dispatch cfg sid none ns { header sid none with otype := otype, argv := argv } with
                      | error f => rfl
                      | ok stp =>
                        simp only []
                        cases stp.err with
                        | some m => exact out _ _
                        | none =>
                          simp only []
                          split
                          · -- a section is entered
                            have hn := ih stp.nsid (some stp.cb) 0 0 (ln + 1) (stp.events.reverse ++ evs) r2 last hr2 hlast
                            revert hn
                            cases parseInline cfg fuel stp.nsid (some stp.cb) 0 0
                                ⟨r2 ++ last, ln + 1, stp.events.reverse ++ evs⟩ with
                            | error f =>
                              cases parseInline cfg fuel stp.nsid (some stp.cb) 0 0
                                  ⟨r2 ++ last ++ [10], ln + 1, stp.events.reverse ++ evs⟩ with
                              | error g => intro hn; exact hn
                              | ok b => intro hn; exact absurd hn (by simp [ResRel])
                            | ok a =>
                              cases parseInline cfg fuel stp.nsid (some stp.cb) 0 0
                                  ⟨r2 ++ last ++ [10], ln + 1, stp.events.reverse ++ evs⟩ with
                              | error g => intro hn; exact absurd hn (by simp [ResRel])
                              | ok b =>
                                intro hn
                                rcases hn with hab | ⟨hres, hln, hev, p2, l2, hp2, hl2, ha, hb⟩
                                · subst hab; exact resRel_refl _
                                · obtain ⟨sa, ra⟩ := a
                                  obtain ⟨sb, rb⟩ := b
                                  simp only [] at hres hln hev ha hb
                                  subst hres
                                  cases ra with
                                  | err l m => exact Or.inr ⟨rfl, hln, hev, p2, l2, hp2, hl2, ha, hb⟩
                                  | count n2 =>
                                    simp only []
                                    have ea : sa = ⟨p2 ++ l2, sa.lineno, sa.events⟩ := by
                                      cases sa; simp only [] at ha; subst ha; rfl
                                    have eb : sb = ⟨p2 ++ l2 ++ [10], sa.lineno, sa.events⟩ := by
                                      cases sb; simp only [] at hb hln hev; subst hb; subst hln; subst hev; rfl
                                    rw [ea, eb]
                                    exact ih sid (none) (oc + n2 + 1) stp.nsid _ _ p2 l2 hp2 hl2
                          · split
                            · exact out _ _
                            · exact ih sid (none) (oc + 1) stp.nsid (ln + 1) _ r2 last hr2 hlast

                  | some p =>
                    simp only []
                    split
                    · exact out _ _
                    · cases dispatch cfg sid (some p) ns { header sid (some p) with otype := otype, argv := argv } with
                      | error f => rfl
                      | ok stp =>
                        simp only []
                        cases stp.err with
                        | some m => exact out _ _
                        | none =>
                          simp only []
                          split
                          · -- a section is entered
                            have hn := ih stp.nsid (some stp.cb) 0 0 (ln + 1) (stp.events.reverse ++ evs) r2 last hr2 hlast
                            revert hn
                            cases parseInline cfg fuel stp.nsid (some stp.cb) 0 0
                                ⟨r2 ++ last, ln + 1, stp.events.reverse ++ evs⟩ with
                            | error f =>
                              cases parseInline cfg fuel stp.nsid (some stp.cb) 0 0
                                  ⟨r2 ++ last ++ [10], ln + 1, stp.events.reverse ++ evs⟩ with
                              | error g => intro hn; exact hn
                              | ok b => intro hn; exact absurd hn (by simp [ResRel])
                            | ok a =>
                              cases parseInline cfg fuel stp.nsid (some stp.cb) 0 0
                                  ⟨r2 ++ last ++ [10], ln + 1, stp.events.reverse ++ evs⟩ with
                              | error g => intro hn; exact absurd hn (by simp [ResRel])
                              | ok b =>
                                intro hn
                                rcases hn with hab | ⟨hres, hln, hev, p2, l2, hp2, hl2, ha, hb⟩
                                · subst hab; exact resRel_refl _
                                · obtain ⟨sa, ra⟩ := a
                                  obtain ⟨sb, rb⟩ := b
                                  simp only [] at hres hln hev ha hb
                                  subst hres
                                  cases ra with
                                  | err l m => exact Or.inr ⟨rfl, hln, hev, p2, l2, hp2, hl2, ha, hb⟩
                                  | count n2 =>
                                    simp only []
                                    have ea : sa = ⟨p2 ++ l2, sa.lineno, sa.events⟩ := by
                                      cases sa; simp only [] at ha; subst ha; rfl
                                    have eb : sb = ⟨p2 ++ l2 ++ [10], sa.lineno, sa.events⟩ := by
                                      cases sb; simp only [] at hb hln hev; subst hb; subst hln; subst hev; rfl
                                    rw [ea, eb]
                                    exact ih sid ((some p)) (oc + n2 + 1) stp.nsid _ _ p2 l2 hp2 hl2
                          · split
                            · exact out _ _
                            · exact ih sid ((some p)) (oc + 1) stp.nsid (ln + 1) _ r2 last hr2 hlast


/-- more fuel does not change a result -/
theorem parseInline_mono (cfg : Cfg) (fuel : Nat) : ∀ (sid : Nat) (parent : Option CbData) (oc ns : Nat) (st : PState)
    (x : PState × Res), parseInline cfg fuel sid parent oc ns st = .ok x →
    parseInline cfg (fuel + 1) sid parent oc ns st = .ok x := by
  induction fuel with
  | zero => intro sid parent oc ns st x h; simp [parseInline] at h
  | succ fuel ih =>
    intro sid parent oc ns st x h
    unfold parseInline at h
    conv => lhs; unfold parseInline
    cases hfg : fgets st.input with
    | none => rw [hfg] at h; exact h
    | some cr =>
      obtain ⟨chunk, rest0⟩ := cr
      rw [hfg] at h
      simp only [] at h ⊢
      generalize drain (chunk.takeWhile (· != 0)) rest0 = dr at h ⊢
      obtain ⟨rest, tl⟩ := dr
      simp only [] at h ⊢
      split at h
      · rename_i hc0; simp only [hc0, if_true]; exact h
      rename_i hc0
      simp only [hc0, if_false]
      split at h
      · rename_i hc; simp only [hc, if_true]; exact ih _ _ _ _ _ _ h
      · rename_i hc
        simp only [hc, if_false]
        cases hb : brackets (Str.trim (chunk.takeWhile (· != 0))) with
        | error f => rw [hb] at h; exact h
        | ok br =>
          rw [hb] at h
          cases br with
          | none => exact h
          | some os =>
            obtain ⟨otype, sp⟩ := os
            simp only [] at h ⊢
            split at h
            · rename_i hc2; simp only [hc2, if_true]; exact h
            · rename_i hc2
              simp only [hc2, if_false]
              cases ht : tokenize sp with
              | error f => rw [ht] at h; exact h
              | ok tr =>
                rw [ht] at h
                cases tr with
                | unclosedQuote => exact h
                | args argv =>
                  simp only [] at h ⊢
                  cases parent with
                  | none =>
                    simp only [] at h ⊢
                    split at h
                    · rename_i hc3; simp only [hc3, if_true]; exact h
                    · rename_i hc3
                      simp only [hc3, if_false]
                      cases hd : dispatch cfg sid none ns { header sid none with otype := otype, argv := argv } with
                      | error f => rw [hd] at h; exact h
                      | ok stp =>
                        rw [hd] at h
                        simp only [] at h ⊢
                        cases he : stp.err with
                        | some m => rw [he] at h; exact h
                        | none =>
                          rw [he] at h
                          simp only [] at h ⊢
                          split at h
                          · rename_i ho
                            simp only [ho, if_true]
                            cases hn : parseInline cfg fuel stp.nsid (some stp.cb) 0 0
                                { input := rest, lineno := st.lineno + 1, events := stp.events.reverse ++ st.events } with
                            | error f => rw [hn] at h; simp at h
                            | ok a =>
                              rw [hn] at h
                              rw [ih _ _ _ _ _ _ hn]
                              obtain ⟨sa, ra⟩ := a
                              cases ra with
                              | err l m => exact h
                              | count n2 => simp only [] at h ⊢; exact ih _ _ _ _ _ _ h
                          · rename_i ho
                            simp only [ho, if_false]
                            split at h
                            · rename_i hcl; simp only [hcl, if_true]; exact h
                            · rename_i hcl; simp only [hcl, if_false]; exact ih _ _ _ _ _ _ h

                  | some p =>
                    simp only [] at h ⊢
                    split at h
                    · rename_i hc3; simp only [hc3, if_true]; exact h
                    · rename_i hc3
                      simp only [hc3, if_false]
                      cases hd : dispatch cfg sid (some p) ns { header sid (some p) with otype := otype, argv := argv } with
                      | error f => rw [hd] at h; exact h
                      | ok stp =>
                        rw [hd] at h
                        simp only [] at h ⊢
                        cases he : stp.err with
                        | some m => rw [he] at h; exact h
                        | none =>
                          rw [he] at h
                          simp only [] at h ⊢
                          split at h
                          · rename_i ho
                            simp only [ho, if_true]
                            cases hn : parseInline cfg fuel stp.nsid (some stp.cb) 0 0
                                { input := rest, lineno := st.lineno + 1, events := stp.events.reverse ++ st.events } with
                            | error f => rw [hn] at h; simp at h
                            | ok a =>
                              rw [hn] at h
                              rw [ih _ _ _ _ _ _ hn]
                              obtain ⟨sa, ra⟩ := a
                              cases ra with
                              | err l m => exact h
                              | count n2 => simp only [] at h ⊢; exact ih _ _ _ _ _ _ h
                          · rename_i ho
                            simp only [ho, if_false]
                            split at h
                            · rename_i hcl; simp only [hcl, if_true]; exact h
                            · rename_i hcl; simp only [hcl, if_false]; exact ih _ _ _ _ _ _ h


/-- C20, last line without newline: if the text after the last `\n` of the file is non-empty and
    shorter than MAX_LINESIZE − 1, `parse` returns exactly what it returns for the same file with a
    terminating newline — the same callbacks, the same count or the same error line AND message -/
theorem parse_noFinalNewline (cfg : Cfg) (pre last : Bytes) (hpre : Hpre pre) (hlast : Hlast last) :
    parse cfg (pre ++ last) = parse cfg (pre ++ last ++ [10]) := by
  unfold parse
  obtain ⟨sa, ra, hA, _⟩ := parseInline_total cfg ((pre ++ last).length + 1) qacSectionRoot none 0 0
    ⟨pre ++ last, 0, []⟩ (by simp)
  have hA' := parseInline_mono cfg _ _ _ _ _ _ _ hA
  have hrel := parseInline_snoc cfg ((pre ++ last).length + 1 + 1) qacSectionRoot none 0 0 0 [] pre last hpre hlast
  rw [hA'] at hrel
  have hlen : (pre ++ last ++ [10]).length + 1 = (pre ++ last).length + 1 + 1 := by
    simp only [List.length_append, List.length_cons, List.length_nil]
  rw [hA, hlen]
  cases hB : parseInline cfg ((pre ++ last).length + 1 + 1) qacSectionRoot none 0 0 ⟨pre ++ last ++ [10], 0, []⟩ with
  | error f => rw [hB] at hrel; simp [ResRel] at hrel
  | ok b =>
    rw [hB] at hrel
    rcases hrel with h | ⟨hr, _, hev, _⟩
    · rw [← h]
    · obtain ⟨sb, rb⟩ := b
      simp only [] at hr hev ⊢
      rw [hr, hev]

end Qlibc.Conf.Aconf

/-
  C20 ac_accept_iff / ac_callbacks for documents with ARBITRARILY NESTED sections: the document type,
  its renderer and the declarative reading of the documentation (`judgeLine`, `judgeClose`,
  `specDoc`, `Conforms`, `callbacks`). The proof that the parser model computes it is in
  AconfNested.lean.
-/
import QlibcModel.Conf.AconfFlat
namespace Qlibc.Conf.Aconf
open Qlibc Qlibc.Generated.Conf

/-! ### section context -/

/-- where a line stands: the id of the enclosing section, the OR of the ids of all enclosing
    sections (root included), the nesting level and the (normalised) argv of every enclosing
    section-open directive, nearest first -/
structure Ctx where
  sid : Nat
  bits : Nat
  level : Nat
  chain : List (List Bytes)
  deriving Repr, DecidableEq

/-- top level of a file -/
def Ctx.root : Ctx := ⟨qacSectionRoot, qacSectionRoot, 0, []⟩

/-- the callback data of a line with this type and argv in this context -/
def Ctx.data (c : Ctx) (otype : Nat) (argv : List Bytes) : CbData :=
  { otype := otype, sect := c.sid, sections := c.bits, level := c.level, parents := c.chain, argv := argv }

/-- the context of the lines inside a section with id `nsid` opened in `c` by the directive `argv` -/
def Ctx.enter (c : Ctx) (nsid : Nat) (argv : List Bytes) : Ctx :=
  ⟨nsid, c.bits ||| nsid, c.level + 1, argv :: c.chain⟩

/-- `flags & QAC_CASEINSENSITIVE` -/
def Cfg.ci (cfg : Cfg) : Bool := cfg.flags &&& qacCaseInsensitive ≠ 0

/-! ### the verdict on one line -/

inductive NVerdict where
  /-- the line violates a declaration -/
  | reject
  /-- the line conforms, its (registered) callback is made and refuses -/
  | refused (e : Event)
  /-- the line conforms; the callback made for it (if any), its normalised argv, and the id a
      section opened by it (or by a later unregistered section tag of the same level) gets -/
  | pass (ev : Option Event) (argv : List Bytes) (nsid : Nat)

/-- a directive (`otype = otypeOption`) or section-open tag (`otype = otypeOpen`) with the words
    `texts` in context `c`. `ns` is the id of the last REGISTERED section opened before on the same
    level (0 if none): `_parse_inline` keeps it in the local `newsectionid`, and a section whose
    name is not registered (accepted because of a default handler or QAC_IGNOREUNKNOWN) is entered
    with this stale value. -/
def judgeLine (cfg : Cfg) (c : Ctx) (otype ns : Nat) (texts : List Bytes) : NVerdict :=
  let name := texts.headD []
  match cfg.opts.find? (fun o => nameEq cfg.ci name o.name) with
  | none =>
    if cfg.defcb then .pass (some ⟨.dflt, c.data otype texts⟩) texts ns
    else if cfg.flags &&& qacIgnoreUnknown = 0 then .reject else .pass none texts ns
  | some o =>
    if o.sections ≠ qacSectionAll ∧ o.sections &&& c.sid = 0 then .reject                               -- scope
    else if o.take &&& qacTakeAll ≠ qacTakeAll ∧ o.take &&& qacTakeAll ≠ texts.length - 1 then .reject  -- count
    else match checkArgsSpec o.take 1 (texts.drop 1) with
      | none => .reject                                                                                -- types
      | some args' =>
        let argv := name :: args'
        let nsid := if otype = otypeOpen then o.sectionid else ns
        if o.hasCb then
          match cfg.cbFail (c.data otype argv) with
          | none => .pass (some ⟨.main, c.data otype argv⟩) argv nsid
          | some _ => .refused ⟨.main, c.data otype argv⟩
        else if cfg.defcb then .pass (some ⟨.dflt, c.data otype argv⟩) argv nsid
        else .pass none argv nsid

/-- a section-close tag with the words `ctexts`; `inner` is the context of the section's lines,
    `opening` the callback data of the tag that opened it. A registered name gets the OPENING
    directive's data with otype SECTIONCLOSE; an unregistered name with a default handler gets the
    close tag's own data (inner context, the close tag's words). No declaration is checked. -/
def judgeClose (cfg : Cfg) (inner : Ctx) (opening : CbData) (ctexts : List Bytes) : NVerdict :=
  let name := ctexts.headD []
  match cfg.opts.find? (fun o => nameEq cfg.ci name o.name) with
  | none =>
    if cfg.defcb then .pass (some ⟨.dflt, inner.data otypeClose ctexts⟩) ctexts 0
    else if cfg.flags &&& qacIgnoreUnknown = 0 then .reject else .pass none ctexts 0
  | some o =>
    let pd : CbData := { opening with otype := otypeClose }
    if o.hasCb then
      match cfg.cbFail pd with
      | none => .pass (some ⟨.main, pd⟩) ctexts 0
      | some _ => .refused ⟨.main, pd⟩
    else if cfg.defcb then .pass (some ⟨.dflt, pd⟩) ctexts 0
    else .pass none ctexts 0

/-! ### documents -/

/-- a section tag as written: white space before `<`, after `<` (`</`), before `>`, after `>` -/
structure Tag where
  lead : Bytes := []
  pre : Bytes := []
  args : List (Bytes × RArg)
  post : Bytes := []
  trail : Bytes := []

def Tag.texts (t : Tag) : List Bytes := t.args.map (·.2.text)

def renderOpen (t : Tag) : Bytes :=
  t.lead ++ 60 :: (t.pre ++ renderArgs t.args ++ t.post ++ [62]) ++ t.trail

def renderClose (t : Tag) : Bytes :=
  t.lead ++ 60 :: 47 :: (t.pre ++ renderArgs t.args ++ t.post ++ [62]) ++ t.trail

/-- a document: a sequence of lines (blank, comment, directive) and sections
    `<open> body </close>`, nested arbitrarily -/
inductive AcDoc where
  | nil
  | line (l : FLine) (rest : AcDoc)
  | sect (o : Tag) (body : AcDoc) (cl : Tag) (rest : AcDoc)

/-- every line is terminated by `\n` -/
def renderAc : AcDoc → Bytes
  | .nil => []
  | .line l rest => renderLine l ++ 10 :: renderAc rest
  | .sect o body cl rest =>
    renderOpen o ++ 10 :: (renderAc body ++ (renderClose cl ++ 10 :: renderAc rest))

/-- the words of a directive or tag that can be written (as in `FLineOk`) -/
def ArgsOk (args : List (Bytes × RArg)) : Prop :=
  args ≠ [] ∧ LineOk args ∧
  (∀ x ∈ args, (∀ c ∈ x.2.text, c ≠ 10) ∧ (x.2.style = .bare → ∀ c ∈ x.2.text, Str.isWs c = false))

def TagOk (t : Tag) : Prop :=
  WsRun t.lead ∧ WsRun t.pre ∧ WsRun t.post ∧ WsRun t.trail ∧ ArgsOk t.args

/-- an open tag: the first word does not start with `/` (that would be a close tag); the line is
    shorter than MAX_LINESIZE − 1 -/
def OpenOk (t : Tag) : Prop :=
  TagOk t ∧ (∀ a ∈ t.args.head?, (renderArg a.2).head? ≠ some 47) ∧ (renderOpen t).length + 1 < maxLineSize

def CloseOk (t : Tag) : Prop :=
  TagOk t ∧ (renderClose t).length + 1 < maxLineSize

/-- well-formed documents: every line can be written and is shorter than MAX_LINESIZE − 1; every
    section is closed by a tag with its name (`ci`: compared without case). Nesting depth is NOT
    restricted: opening a section at level 255 is an offence of the document (see `specDoc`). -/
def DocOk (ci : Bool) : AcDoc → Prop
  | .nil => True
  | .line l rest => FLineOk l ∧ DocOk ci rest
  | .sect o body cl rest =>
    OpenOk o ∧ CloseOk cl ∧ nameEq ci (cl.texts.headD []) (o.texts.headD []) = true ∧
    DocOk ci body ∧ DocOk ci rest

/-! ### what the documentation says happens -/

/-- walk the document in file order: `ln` lines read so far, `count` entries accepted on this level,
    `ns` see `judgeLine`, `evs` callbacks so far (most recent first). Result: the callbacks, and
    either the line number of the first offence or (lines read, entries accepted on this level). -/
def specDoc (cfg : Cfg) : AcDoc → Ctx → (ln count ns : Nat) → (evs : List Event) →
    List Event × Except Nat (Nat × Nat)
  | .nil, _, ln, count, _, evs => (evs, .ok (ln, count))
  | .line (.blank _) rest, c, ln, count, ns, evs => specDoc cfg rest c (ln + 1) count ns evs
  | .line (.comment _ _) rest, c, ln, count, ns, evs => specDoc cfg rest c (ln + 1) count ns evs
  | .line (.dir args _) rest, c, ln, count, ns, evs =>
    match judgeLine cfg c otypeOption ns (args.map (·.2.text)) with
    | .reject => (evs, .error (ln + 1))
    | .refused e => (e :: evs, .error (ln + 1))
    | .pass ev _ ns' => specDoc cfg rest c (ln + 1) (count + 1) ns' (ev.toList ++ evs)
  | .sect o body cl rest, c, ln, count, ns, evs =>
    if c.level = 255 then (evs, .error (ln + 1))       -- "Sections are nested too deeply."
    else
    match judgeLine cfg c otypeOpen ns o.texts with
    | .reject => (evs, .error (ln + 1))
    | .refused e => (e :: evs, .error (ln + 1))
    | .pass ev argv ns' =>
      match specDoc cfg body (c.enter ns' argv) (ln + 1) 0 0 (ev.toList ++ evs) with
      | (evs2, .error k) => (evs2, .error k)
      | (evs2, .ok (ln2, n2)) =>
        match judgeClose cfg (c.enter ns' argv) (c.data otypeOpen argv) cl.texts with
        | .reject => (evs2, .error (ln2 + 1))
        | .refused e => (e :: evs2, .error (ln2 + 1))
        | .pass ev' _ _ => specDoc cfg rest c (ln2 + 1) (count + (n2 + 1) + 1) ns' (ev'.toList ++ evs2)

/-- the value of the local `newsectionid` after the lines of `d` (meaningful when they all pass):
    the id of the last registered section opened on this level -/
def nsAfter (cfg : Cfg) : AcDoc → Ctx → Nat → Nat
  | .nil, _, ns => ns
  | .line (.blank _) rest, c, ns => nsAfter cfg rest c ns
  | .line (.comment _ _) rest, c, ns => nsAfter cfg rest c ns
  | .line (.dir args _) rest, c, ns =>
    match judgeLine cfg c otypeOption ns (args.map (·.2.text)) with
    | .pass _ _ ns' => nsAfter cfg rest c ns'
    | _ => ns
  | .sect o _ _ rest, c, ns =>
    match judgeLine cfg c otypeOpen ns o.texts with
    | .pass _ _ ns' => nsAfter cfg rest c ns'
    | _ => ns

/-- the expected outcome of `parse` on the rendered document -/
def specNested (cfg : Cfg) (d : AcDoc) : List Event × FRes :=
  match specDoc cfg d Ctx.root 0 0 0 [] with
  | (evs, .ok (_, n)) => (evs.reverse, .count n)
  | (evs, .error k) => (evs.reverse, .errLine k)

/-! ### reading `specDoc` -/

/-- every line of the document conforms to the declarations (and no callback refuses, no section
    is opened at level 255) -/
def Conforms (cfg : Cfg) : AcDoc → Ctx → (ns : Nat) → Prop
  | .nil, _, _ => True
  | .line (.blank _) rest, c, ns => Conforms cfg rest c ns
  | .line (.comment _ _) rest, c, ns => Conforms cfg rest c ns
  | .line (.dir args _) rest, c, ns =>
    match judgeLine cfg c otypeOption ns (args.map (·.2.text)) with
    | .pass _ _ ns' => Conforms cfg rest c ns'
    | _ => False
  | .sect o body cl rest, c, ns =>
    c.level ≠ 255 ∧
    match judgeLine cfg c otypeOpen ns o.texts with
    | .pass _ argv ns' =>
      Conforms cfg body (c.enter ns' argv) 0 ∧
      (match judgeClose cfg (c.enter ns' argv) (c.data otypeOpen argv) cl.texts with
       | .pass _ _ _ => Conforms cfg rest c ns'
       | _ => False)
    | _ => False

/-- number of directives -/
def AcDoc.directives : AcDoc → Nat
  | .nil => 0
  | .line (.dir _ _) rest => rest.directives + 1
  | .line _ rest => rest.directives
  | .sect _ body _ rest => body.directives + rest.directives

/-- number of sections -/
def AcDoc.sections : AcDoc → Nat
  | .nil => 0
  | .line _ rest => rest.sections
  | .sect _ body _ rest => body.sections + rest.sections + 1

/-- number of lines -/
def AcDoc.lines : AcDoc → Nat
  | .nil => 0
  | .line _ rest => rest.lines + 1
  | .sect _ body _ rest => body.lines + rest.lines + 2

/-- nesting depth -/
def AcDoc.depth : AcDoc → Nat
  | .nil => 0
  | .line _ rest => rest.depth
  | .sect _ body _ rest => max (body.depth + 1) rest.depth

/-- the same reading without accumulators: the callbacks made, in file order, up to the first
    offence (all of them if there is none), and the line of the first offence (1-based, counted from
    the first line of `d`) -/
def walk (cfg : Cfg) : AcDoc → Ctx → (ns : Nat) → List Event × Option Nat
  | .nil, _, _ => ([], none)
  | .line (.blank _) rest, c, ns => ((walk cfg rest c ns).1, (walk cfg rest c ns).2.map (· + 1))
  | .line (.comment _ _) rest, c, ns => ((walk cfg rest c ns).1, (walk cfg rest c ns).2.map (· + 1))
  | .line (.dir args _) rest, c, ns =>
    match judgeLine cfg c otypeOption ns (args.map (·.2.text)) with
    | .reject => ([], some 1)
    | .refused e => ([e], some 1)
    | .pass ev _ ns' => (ev.toList ++ (walk cfg rest c ns').1, (walk cfg rest c ns').2.map (· + 1))
  | .sect o body cl rest, c, ns =>
    if c.level = 255 then ([], some 1)
    else
    match judgeLine cfg c otypeOpen ns o.texts with
    | .reject => ([], some 1)
    | .refused e => ([e], some 1)
    | .pass ev argv ns' =>
      match walk cfg body (c.enter ns' argv) 0 with
      | (es, some i) => (ev.toList ++ es, some (i + 1))
      | (es, none) =>
        match judgeClose cfg (c.enter ns' argv) (c.data otypeOpen argv) cl.texts with
        | .reject => (ev.toList ++ es, some (body.lines + 2))
        | .refused e => (ev.toList ++ es ++ [e], some (body.lines + 2))
        | .pass ev' _ _ =>
          (ev.toList ++ es ++ ev'.toList ++ (walk cfg rest c ns').1,
            (walk cfg rest c ns').2.map (· + (body.lines + 2)))

/-- the callbacks `parse` must make for the document: all of them in file order, or those before
    (and, for a refusing callback, including) the first offence -/
def callbacks (cfg : Cfg) (d : AcDoc) : List Event := (walk cfg d Ctx.root 0).1

/-- the line (1-based) of the first line that violates a declaration, if any -/
def firstOffenceLine (cfg : Cfg) (d : AcDoc) : Option Nat := (walk cfg d Ctx.root 0).2

end Qlibc.Conf.Aconf

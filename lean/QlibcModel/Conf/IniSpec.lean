/-
  The grammar side of C20's `ini_roundtrip`: INI documents as values, their rendering under a
  layout, and the entries the file "says".
-/
import QlibcModel.Conf.Ini
namespace Qlibc.Conf.Ini
open Qlibc

/-- one line of an INI document (values without `${…}` references: the `_partial` grammar) -/
inductive Item where
  | blank                                   -- only white space
  | comment (text : Bytes)                  -- `# text`
  | sect (name : Bytes)                     -- `[name]`; the empty name `[]` leaves the section
  | entry (name value : Bytes)              -- `name = value`
  deriving Repr

/-- white space around the tokens of a line: four runs of blank / tab / CR -/
structure Lay where
  a : Bytes := []
  b : Bytes := []
  c : Bytes := []
  d : Bytes := []

def renderItem (sep : UInt8) : Item → Lay → Bytes
  | .blank, l => l.a
  | .comment text, l => l.a ++ [35] ++ text
  | .sect name, l => l.a ++ [91] ++ l.b ++ name ++ l.c ++ [93] ++ l.d
  | .entry name value, l => l.a ++ name ++ l.b ++ [sep] ++ l.c ++ value ++ l.d

/-- lines are terminated by `\n`; the last line may lack it (`finalNl = false`) -/
def renderDoc (sep : UInt8) : List (Item × Lay) → (finalNl : Bool) → Bytes
  | [], _ => []
  | [(i, l)], false => renderItem sep i l
  | (i, l) :: rest, nl => renderItem sep i l ++ [10] ++ renderDoc sep rest nl

/-- what the file says: the entries in file order, keys prefixed with `section.`, and the marker
    entry `section.` = `section` where a section starts -/
def expected : (sect : Option Bytes) → List Item → Table
  | _, [] => []
  | s, .blank :: rest => expected s rest
  | s, .comment _ :: rest => expected s rest
  | s, .sect name :: rest =>
    if name = [] then expected none rest else (name ++ [46], name) :: expected (some name) rest
  | s, .entry name value :: rest =>
    ((match s with | some p => p ++ [46] ++ name | none => name), value) :: expected s rest

/-- layout white space: blank, tab, CR (not the line terminator) -/
def LayWs (w : Bytes) : Prop := ∀ c ∈ w, c = 32 ∨ c = 9 ∨ c = 13

/-- no white space at either end -/
def Tight (x : Bytes) : Prop :=
  (∀ c, x.head? = some c → Str.isWs c = false) ∧ (∀ c, x.getLast? = some c → Str.isWs c = false)

def NoByte (b : UInt8) (x : Bytes) : Prop := ∀ c ∈ x, c ≠ b

/-- which items can be written with separator `sep` -/
def ItemOk (sep : UInt8) : Item → Prop
  | .blank => True
  | .comment text => NoByte 10 text
  | .sect name => NoByte 10 name ∧ NoByte 36 name ∧ Tight name
  | .entry name value =>
    name ≠ [] ∧ Tight name ∧ NoByte 10 name ∧ NoByte sep name ∧ name.head? ≠ some 35 ∧ name.head? ≠ some 91 ∧
    Tight value ∧ NoByte 10 value ∧ NoByte 36 value

def LayOk (l : Lay) : Prop := LayWs l.a ∧ LayWs l.b ∧ LayWs l.c ∧ LayWs l.d

end Qlibc.Conf.Ini

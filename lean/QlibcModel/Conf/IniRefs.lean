/-
  C20 ini_roundtrip with `${…}` references: `qstrreplace`, the scan for the first reference, the
  expansion loop on a value made of literal pieces and references, and the document-level theorem.
-/
import QlibcModel.Conf.IniRound
namespace Qlibc.Conf.Ini
open Qlibc Qlibc.Generated.Conf

/-! ### `qstrreplace` -/

theorem replaceGo_acc (tok word : Bytes) (src : Bytes) : ∀ (skip : Nat) (acc : Bytes),
    replaceGo tok word skip src acc = acc.reverse ++ replaceGo tok word skip src [] := by
  induction src with
  | nil => intro skip acc; simp [replaceGo]
  | cons c rest ih =>
    intro skip acc
    cases skip with
    | succ k => simp only [replaceGo]; exact ih k acc
    | zero =>
      simp only [replaceGo]
      split
      · rw [ih _ (word.reverse ++ acc), ih _ (word.reverse ++ [])]; simp
      · rw [ih _ (c :: acc), ih _ [c]]; simp

theorem replaceGo_skip (tok word : Bytes) (x : Bytes) : ∀ (rest acc : Bytes),
    replaceGo tok word x.length (x ++ rest) acc = replaceGo tok word 0 rest acc := by
  induction x with
  | nil => intro rest acc; rfl
  | cons c x ih => intro rest acc; simp only [List.length_cons, List.cons_append, replaceGo]; exact ih rest acc

theorem replaceAll_nil (tok word : Bytes) : replaceAll tok word [] = [] := by simp [replaceAll, replaceGo]

theorem replaceAll_copy (tok word : Bytes) (c : UInt8) (rest : Bytes) (h : tok.isPrefixOf (c :: rest) = false) :
    replaceAll tok word (c :: rest) = c :: replaceAll tok word rest := by
  unfold replaceAll
  simp only [replaceGo, h, Bool.false_eq_true, if_false]
  rw [replaceGo_acc]; simp

theorem replaceAll_hit (tok word rest : Bytes) (hne : tok ≠ []) :
    replaceAll tok word (tok ++ rest) = word ++ replaceAll tok word rest := by
  cases tok with
  | nil => exact absurd rfl hne
  | cons t0 ts =>
    unfold replaceAll
    have hp : (t0 :: ts).isPrefixOf (t0 :: ts ++ rest) = true := by
      simp [List.isPrefixOf_iff_prefix]
    simp only [List.cons_append, replaceGo]
    have hp' : (t0 :: ts).isPrefixOf (t0 :: (ts ++ rest)) = true := by simpa using hp
    simp only [hp', if_true, List.length_cons, Nat.add_sub_cancel]
    rw [replaceGo_skip, replaceGo_acc]; simp

/-- a `$`-free stretch is copied when the token starts with `$` -/
theorem replaceAll_plain (tok word : Bytes) (htok : tok.head? = some 36) (s : Bytes) (hs : NoByte 36 s) (rest : Bytes) :
    replaceAll tok word (s ++ rest) = s ++ replaceAll tok word rest := by
  induction s with
  | nil => rfl
  | cons c s ih =>
    have hc : c ≠ 36 := hs c (by simp)
    have hp : tok.isPrefixOf (c :: (s ++ rest)) = false := by
      cases tok with
      | nil => simp at htok
      | cons t0 ts =>
        simp only [List.head?_cons, Option.some.injEq] at htok
        subst htok
        simp [List.isPrefixOf, Ne.symm hc]
    simp only [List.cons_append]
    rw [replaceAll_copy _ _ _ _ hp, ih (fun x hx => hs x (by simp [hx]))]

/-- every `$` of the text is followed, inside the text, by a byte other than `{`: the text contains
    no `${` and does not end with `$`, so it cannot form a reference with what follows it -/
def DollarOk : Bytes → Prop
  | [] => True
  | [c] => c ≠ 36
  | c :: d :: r => (c = 36 → d ≠ 123) ∧ DollarOk (d :: r)

theorem dollarOk_of_noByte (s : Bytes) (h : NoByte 36 s) : DollarOk s := by
  induction s with
  | nil => trivial
  | cons c s ih =>
    cases s with
    | nil => exact h c (by simp)
    | cons d r =>
      exact ⟨fun hc => absurd hc (h c (by simp)), ih (fun x hx => h x (by simp [hx]))⟩

theorem dollarOk_tail {c : UInt8} {s : Bytes} (h : DollarOk (c :: s)) : DollarOk s := by
  cases s with
  | nil => trivial
  | cons d r => exact h.2

/-- a text with only literal `$` is copied by `qstrreplace` when the token starts with `${` -/
theorem replaceAll_dollarOk (t' word : Bytes) (s : Bytes) (hs : DollarOk s) (rest : Bytes) :
    replaceAll (36 :: 123 :: t') word (s ++ rest) = s ++ replaceAll (36 :: 123 :: t') word rest := by
  induction s with
  | nil => rfl
  | cons c s ih =>
    have hp : (36 :: 123 :: t').isPrefixOf (c :: (s ++ rest)) = false := by
      by_cases hc : c = 36
      · subst hc
        cases s with
        | nil => exact absurd rfl hs
        | cons d r =>
          have hd : d ≠ 123 := hs.1 rfl
          simp [List.isPrefixOf, Ne.symm hd]
      · simp [List.isPrefixOf, Ne.symm hc]
    simp only [List.cons_append]
    rw [replaceAll_copy _ _ _ _ hp, ih (dollarOk_tail hs)]

/-! ### values with references -/

/-- a piece of a value as written: literal text or a reference `${name}` (`name` = key, `%ENV`
    or `!command`) together with the text it stands for -/
inductive Seg where
  | lit (s : Bytes)
  | tok (name val : Bytes)
  /-- `${pre${inner}post}`: the inner reference stands for `iv`, the composed name `pre iv post`
      for `val` (one level of nesting) -/
  | nest (pre inner iv post val : Bytes)
  deriving DecidableEq

def tokStr (name : Bytes) : Bytes := [36, 123] ++ name ++ [125]

def Seg.render : Seg → Bytes
  | .lit s => s
  | .tok name _ => tokStr name
  | .nest pre inner _ post _ => [36, 123] ++ pre ++ tokStr inner ++ post ++ [125]

def Seg.final : Seg → Bytes
  | .lit s => s
  | .tok _ val => val
  | .nest _ _ _ _ val => val

def Seg.isTok : Seg → Bool
  | .tok _ _ => true
  | .nest _ _ _ _ _ => true
  | .lit _ => false

/-- the reference the scan resolves first in this piece -/
def Seg.firstRef : Seg → Option (Bytes × Bytes)
  | .lit _ => none
  | .tok name val => some (name, val)
  | .nest _ inner iv _ _ => some (inner, iv)

/-- substitution rounds this piece needs -/
def Seg.weight : Seg → Nat
  | .lit _ => 0
  | .tok _ _ => 1
  | .nest _ _ _ _ _ => 2

def renderSegs (l : List Seg) : Bytes := l.flatMap Seg.render
def finalSegs (l : List Seg) : Bytes := l.flatMap Seg.final

/-- no `$ { }` and no NUL in a reference name -/
def NameOk (n : Bytes) : Prop := ∀ c ∈ n, c ≠ 36 ∧ c ≠ 123 ∧ c ≠ 125 ∧ c ≠ 0

def SegOk (w : World) (t : Table) : Seg → Prop
  | .lit s => DollarOk s ∧ NoByte 0 s
  | .tok name val => NameOk name ∧ resolve w t name = some val ∧ DollarOk val ∧ NoByte 0 val
  | .nest pre inner iv post val =>
    NameOk pre ∧ NameOk inner ∧ NameOk iv ∧ NameOk post ∧ resolve w t inner = some iv ∧
    resolve w t (pre ++ iv ++ post) = some val ∧ DollarOk val ∧ NoByte 0 val

/-- replace every reference to `name` by its text -/
def substSeg (name val : Bytes) : Seg → Seg
  | .lit s => .lit s
  | .tok n v => if n = name then .lit val else .tok n v
  | .nest pre i iv post v => if i = name then .tok (pre ++ val ++ post) v else .nest pre i iv post v

theorem tokStr_head (name : Bytes) : (tokStr name).head? = some 36 := rfl
theorem tokStr_ne (name : Bytes) : tokStr name ≠ [] := by simp [tokStr]

theorem nameOk_no125 {n : Bytes} (h : NameOk n) : NoByte 125 n := fun c hc => (h c hc).2.2.1
theorem nameOk_no36 {n : Bytes} (h : NameOk n) : NoByte 36 n := fun c hc => (h c hc).1

/-- two reference names without `}` : one token is a prefix of the other's text only if equal -/
theorem tok_prefix_eq (n m rest : Bytes) (hn : NoByte 125 n) (hm : NoByte 125 m)
    (h : (n ++ [125]).isPrefixOf (m ++ 125 :: rest) = true) : n = m := by
  induction n generalizing m with
  | nil =>
    cases m with
    | nil => rfl
    | cons b m =>
      simp only [List.nil_append, List.cons_append, List.isPrefixOf, Bool.and_true, beq_iff_eq] at h
      exact absurd h.symm (hm b (by simp))
  | cons a n ih =>
    cases m with
    | nil =>
      simp only [List.cons_append, List.nil_append, List.isPrefixOf, Bool.and_eq_true, beq_iff_eq] at h
      exact absurd h.1 (hn a (by simp))
    | cons b m =>
      simp only [List.cons_append, List.isPrefixOf, Bool.and_eq_true, beq_iff_eq] at h
      rw [h.1, ih m (fun c hc => hn c (by simp [hc])) (fun c hc => hm c (by simp [hc])) h.2]

/-- a token whose name has no `$` is no prefix of a text that reaches a `$` before any `}` -/
theorem no_prefix_dollar (n : Bytes) : ∀ (m X : Bytes), NoByte 36 n → NoByte 125 m →
    (n ++ [125]).isPrefixOf (m ++ 36 :: X) = false := by
  induction n with
  | nil =>
    intro m X _ hm
    cases m with
    | nil => simp [List.isPrefixOf]
    | cons b m => simp [List.isPrefixOf, Ne.symm (hm b (by simp))]
  | cons a n ih =>
    intro m X hn hm
    cases m with
    | nil => simp [List.isPrefixOf, hn a (by simp)]
    | cons b m =>
      simp only [List.cons_append, List.isPrefixOf, Bool.and_eq_false_iff]
      exact Or.inr (ih m X (fun c hc => hn c (by simp [hc])) (fun c hc => hm c (by simp [hc])))

/-- one reference in the text: replaced if it is the token, copied otherwise -/
theorem replaceAll_tokpiece (name val n rest : Bytes) (hn : NameOk name) (hnn : NameOk n) :
    replaceAll (tokStr name) val (tokStr n ++ rest) =
      (if n = name then val else tokStr n) ++ replaceAll (tokStr name) val rest := by
  by_cases he : n = name
  · subst he
    simp only [if_true]
    exact replaceAll_hit _ _ _ (tokStr_ne n)
  · simp only [he, if_false]
    have hp : (tokStr name).isPrefixOf (tokStr n ++ rest) = false := by
      cases hpp : (tokStr name).isPrefixOf (tokStr n ++ rest) with
      | false => rfl
      | true =>
        exfalso
        have : (name ++ [125]).isPrefixOf (n ++ 125 :: rest) = true := by
          simpa [tokStr, List.isPrefixOf] using hpp
        exact he (tok_prefix_eq name n rest (nameOk_no125 hn) (nameOk_no125 hnn) this).symm
    have e : tokStr n ++ rest = 36 :: ((123 :: n ++ [125]) ++ rest) := by simp [tokStr]
    rw [e] at hp ⊢
    rw [replaceAll_copy _ _ _ _ hp]
    have hplain : NoByte 36 (123 :: n ++ [125]) := by
      intro c hc
      simp only [List.cons_append, List.mem_cons, List.mem_append, List.not_mem_nil, or_false] at hc
      rcases hc with rfl | hc | rfl
      · decide
      · exact nameOk_no36 hnn c hc
      · decide
    rw [replaceAll_plain _ _ (tokStr_head name) _ hplain rest]
    simp [tokStr]

theorem replaceAll_seg (name val : Bytes) (hn : NameOk name) (w : World) (t : Table) (s : Seg) (hs : SegOk w t s)
    (rest : Bytes) :
    replaceAll (tokStr name) val (s.render ++ rest) =
      (substSeg name val s).render ++ replaceAll (tokStr name) val rest := by
  cases s with
  | lit x => exact replaceAll_dollarOk (name ++ [125]) val x hs.1 rest
  | tok n v =>
    simp only [Seg.render, substSeg]
    rw [replaceAll_tokpiece name val n rest hn hs.1]
    by_cases he : n = name <;> simp [he, Seg.render]
  | nest pre i iv post v =>
    obtain ⟨hpre, hi, _, hpost, _⟩ := hs
    simp only [Seg.render, substSeg]
    have e : [36, 123] ++ pre ++ tokStr i ++ post ++ [125] ++ rest =
        36 :: ((123 :: pre) ++ (tokStr i ++ ((post ++ [125]) ++ rest))) := by simp
    have hp : (tokStr name).isPrefixOf (36 :: ((123 :: pre) ++ (tokStr i ++ ((post ++ [125]) ++ rest)))) = false := by
      have := no_prefix_dollar name pre (123 :: (i ++ [125] ++ ((post ++ [125]) ++ rest))) (nameOk_no36 hn) (nameOk_no125 hpre)
      simpa [tokStr, List.isPrefixOf] using this
    rw [e, replaceAll_copy _ _ _ _ hp]
    have hplain1 : NoByte 36 (123 :: pre) := by
      intro c hc
      rcases List.mem_cons.mp hc with rfl | hc
      · decide
      · exact nameOk_no36 hpre c hc
    have hplain2 : NoByte 36 (post ++ [125]) := by
      intro c hc
      rcases List.mem_append.mp hc with hc | hc
      · exact nameOk_no36 hpost c hc
      · simp at hc; subst hc; decide
    rw [replaceAll_plain _ _ (tokStr_head name) _ hplain1, replaceAll_tokpiece name val i _ hn hi,
      replaceAll_plain _ _ (tokStr_head name) _ hplain2]
    by_cases he : i = name <;> simp [he, Seg.render, tokStr]

theorem replaceAll_segs (name val : Bytes) (hn : NameOk name) (w : World) (t : Table) (l : List Seg)
    (hl : ∀ s ∈ l, SegOk w t s) :
    replaceAll (tokStr name) val (renderSegs l) = renderSegs (l.map (substSeg name val)) := by
  induction l with
  | nil => simp [renderSegs, replaceAll_nil]
  | cons s l ih =>
    simp only [renderSegs, List.flatMap_cons, List.map_cons] at ih ⊢
    rw [replaceAll_seg name val hn w t s (hl s (by simp))]
    rw [ih (fun x hx => hl x (by simp [hx]))]

/-! ### the scan finds the first reference -/

theorem outerScan_skip (w : World) (t : Table) (s : Bytes) (h36 : DollarOk s) (h0 : NoByte 0 s) (tail : Bytes) :
    ∀ (fuel : Nat), outerScan w t (fuel + s.length) (s ++ tail) = outerScan w t fuel tail := by
  induction s with
  | nil => intro fuel; rfl
  | cons c s ih =>
    intro fuel
    have hc0 : c ≠ 0 := h0 c (by simp)
    have e : fuel + (c :: s).length = (fuel + s.length) + 1 := by simp [Nat.add_assoc]
    rw [e]
    simp only [List.cons_append]
    conv => lhs; unfold outerScan
    have ih' := ih (dollarOk_tail h36) (fun x hx => h0 x (by simp [hx])) fuel
    by_cases hc : c = 36
    · subst hc
      cases s with
      | nil => exact absurd rfl h36
      | cons d r =>
        have hd : d ≠ 123 := h36.1 rfl
        simp only [hc0, if_false, if_true, List.cons_append, ne_eq, hd, not_false_eq_true]
        exact ih'
    · simp only [hc0, hc, if_false]
      exact ih'

theorem innerScan_name (n : Bytes) (hn : NameOk n) (R : Bytes) : ∀ (acc : Bytes),
    innerScan (n ++ 125 :: R) 1 acc = .ok (.closed (acc.reverse ++ n) R) := by
  induction n with
  | nil => intro acc; simp [innerScan]
  | cons c n ih =>
    intro acc
    obtain ⟨h36, h123, h125, h0⟩ := hn c (by simp)
    simp only [List.cons_append]
    unfold innerScan
    simp only [h0, h36, h123, h125, if_false]
    rw [ih (fun x hx => hn x (by simp [hx])) (c :: acc)]
    simp

theorem innerScan_nested (n : Bytes) (hn : NameOk n) (R : Bytes) : ∀ (br : Nat) (acc : Bytes),
    innerScan (n ++ 36 :: 123 :: R) br acc = .ok (.nested (36 :: 123 :: R)) := by
  induction n with
  | nil => intro br acc; simp [innerScan]
  | cons c n ih =>
    intro br acc
    obtain ⟨h36, h123, h125, h0⟩ := hn c (by simp)
    simp only [List.cons_append]
    unfold innerScan
    simp only [h0, h36, h123, h125, if_false]
    exact ih (fun x hx => hn x (by simp [hx])) br (c :: acc)

def firstTok : List Seg → Option (Bytes × Bytes)
  | [] => none
  | .lit _ :: l => firstTok l
  | .tok name val :: _ => some (tokStr name, val)
  | .nest _ inner iv _ _ :: _ => some (tokStr inner, iv)

theorem outerScan_segs (w : World) (t : Table) (l : List Seg) (hl : ∀ s ∈ l, SegOk w t s) :
    ∀ (fuel : Nat), (renderSegs l).length < fuel →
    outerScan w t fuel (renderSegs l ++ [0]) = .ok (firstTok l) := by
  induction l with
  | nil =>
    intro fuel hf
    cases fuel with
    | zero => simp at hf
    | succ f => simp [renderSegs, outerScan, firstTok]
  | cons s l ih =>
    intro fuel hf
    have hs := hl s (by simp)
    have hl' : ∀ x ∈ l, SegOk w t x := fun x hx => hl x (by simp [hx])
    cases s with
    | lit x =>
      simp only [renderSegs, List.flatMap_cons, Seg.render, firstTok] at hf ⊢
      simp only [List.length_append] at hf
      have e : fuel = (fuel - x.length) + x.length := by omega
      rw [e, List.append_assoc, outerScan_skip w t x hs.1 hs.2]
      exact ih hl' _ (by simp only [renderSegs]; omega)
    | tok name val =>
      obtain ⟨hn, hres, _, _⟩ := hs
      simp only [renderSegs, List.flatMap_cons, Seg.render, firstTok] at hf ⊢
      cases fuel with
      | zero => simp at hf
      | succ f =>
        have e : tokStr name ++ List.flatMap Seg.render l ++ [0] =
            36 :: 123 :: (name ++ 125 :: (List.flatMap Seg.render l ++ [0])) := by simp [tokStr]
        rw [e]
        unfold outerScan
        have a : ¬ ((36 : UInt8) = 0) := by decide
        simp only [a, if_false, if_true, ne_eq, not_true_eq_false]
        rw [innerScan_name name hn _ []]
        simp only [List.reverse_nil, List.nil_append, hres]
        simp [tokStr]
    | nest pre i iv post v =>
      obtain ⟨hpre, hi, _, _, hres, _⟩ := hs
      simp only [renderSegs, List.flatMap_cons, Seg.render, firstTok] at hf ⊢
      have e : [36, 123] ++ pre ++ tokStr i ++ post ++ [125] ++ List.flatMap Seg.render l ++ [0] =
          36 :: 123 :: (pre ++ 36 :: 123 :: (i ++ 125 :: (post ++ [125] ++ List.flatMap Seg.render l ++ [0]))) := by
        simp [tokStr]
      have hlen : 2 ≤ fuel := by
        simp only [List.length_append, List.length_cons, List.length_nil] at hf; omega
      obtain ⟨f, rfl⟩ : ∃ f, fuel = f + 1 + 1 := ⟨fuel - 2, by omega⟩
      rw [e]
      unfold outerScan
      have a : ¬ ((36 : UInt8) = 0) := by decide
      simp only [a, if_false, if_true, ne_eq, not_true_eq_false]
      rw [innerScan_nested pre hpre _ 1 []]
      simp only []
      unfold outerScan
      simp only [a, if_false, if_true, ne_eq, not_true_eq_false]
      rw [innerScan_name i hi _ []]
      simp only [List.reverse_nil, List.nil_append, hres]
      simp [tokStr]

theorem firstTok_none_plain (l : List Seg) (h : firstTok l = none) : ∀ s ∈ l, s.isTok = false := by
  induction l with
  | nil => intro s hs; simp at hs
  | cons x l ih =>
    cases x with
    | lit y =>
      intro s hs
      rcases List.mem_cons.mp hs with rfl | hs'
      · rfl
      · exact ih (by simpa [firstTok] using h) s hs'
    | tok n v => simp [firstTok] at h
    | nest pre i iv post v => simp [firstTok] at h

theorem final_eq_render_of_plain (l : List Seg) (h : ∀ s ∈ l, s.isTok = false) : finalSegs l = renderSegs l := by
  induction l with
  | nil => rfl
  | cons x l ih =>
    cases x with
    | lit y =>
      simp only [finalSegs, renderSegs, List.flatMap_cons, Seg.final, Seg.render] at ih ⊢
      rw [ih (fun s hs => h s (by simp [hs]))]
    | tok n v => have := h (.tok n v) (by simp); simp [Seg.isTok] at this
    | nest pre i iv post v => have := h (.nest pre i iv post v) (by simp); simp [Seg.isTok] at this

/-! ### the expansion loop on a value with references -/

/-- substitution rounds the value needs: one per reference, two per nested reference -/
def countTok (l : List Seg) : Nat := (l.map Seg.weight).sum

/-- the largest text a piece goes through -/
def segBound : Seg → Nat
  | .lit s => s.length
  | .tok name val => max (tokStr name).length val.length
  | .nest pre inner iv post val =>
    max (Seg.nest pre inner iv post val).render.length (max (tokStr (pre ++ iv ++ post)).length val.length)

def bound (l : List Seg) : Nat := (l.map segBound).sum

/-- the first reference found: it belongs to a piece of the value -/
theorem firstTok_some (l : List Seg) (ts v : Bytes) (h : firstTok l = some (ts, v)) :
    ∃ name s, ts = tokStr name ∧ s ∈ l ∧ s.firstRef = some (name, v) := by
  induction l with
  | nil => simp [firstTok] at h
  | cons x l ih =>
    cases x with
    | lit y =>
      obtain ⟨name, s, h1, h2, h3⟩ := ih (by simpa [firstTok] using h)
      exact ⟨name, s, h1, by simp [h2], h3⟩
    | tok n v' =>
      simp only [firstTok, Option.some.injEq, Prod.mk.injEq] at h
      exact ⟨n, .tok n v', h.1.symm, by simp, by simp [Seg.firstRef, h.2]⟩
    | nest pre i iv post v' =>
      simp only [firstTok, Option.some.injEq, Prod.mk.injEq] at h
      exact ⟨i, .nest pre i iv post v', h.1.symm, by simp, by simp [Seg.firstRef, h.2]⟩

theorem weight_subst_le (name val : Bytes) (s : Seg) : (substSeg name val s).weight ≤ s.weight := by
  cases s with
  | lit y => exact Nat.le_refl _
  | tok n v => simp only [substSeg]; split <;> simp [Seg.weight]
  | nest pre i iv post v => simp only [substSeg]; split <;> simp [Seg.weight]

theorem weight_subst_lt (name val v : Bytes) (s : Seg) (h : s.firstRef = some (name, v)) :
    (substSeg name val s).weight < s.weight := by
  cases s with
  | lit y => simp [Seg.firstRef] at h
  | tok n v' =>
    simp only [Seg.firstRef, Option.some.injEq, Prod.mk.injEq] at h
    simp [substSeg, h.1, Seg.weight]
  | nest pre i iv post v' =>
    simp only [Seg.firstRef, Option.some.injEq, Prod.mk.injEq] at h
    simp [substSeg, h.1, Seg.weight]

theorem countTok_subst_le (name val : Bytes) (l : List Seg) : countTok (l.map (substSeg name val)) ≤ countTok l := by
  induction l with
  | nil => simp [countTok]
  | cons x l ih =>
    have := weight_subst_le name val x
    simp only [countTok, List.map_cons, List.sum_cons] at ih ⊢
    omega

theorem countTok_subst_lt (name val v : Bytes) (l : List Seg) (s : Seg) (hs : s ∈ l)
    (h : s.firstRef = some (name, v)) : countTok (l.map (substSeg name val)) < countTok l := by
  induction l with
  | nil => simp at hs
  | cons x l ih =>
    simp only [countTok, List.map_cons, List.sum_cons]
    rcases List.mem_cons.mp hs with rfl | hs'
    · have h1 := weight_subst_lt name val v s h
      have h2 := countTok_subst_le name val l
      simp only [countTok] at h2
      omega
    · have h1 := weight_subst_le name val x
      have h2 := ih hs'
      simp only [countTok] at h2
      omega

theorem countTok_pos (l : List Seg) (s : Seg) (hs : s ∈ l) (name v : Bytes) (h : s.firstRef = some (name, v)) :
    0 < countTok l := by
  induction l with
  | nil => simp at hs
  | cons x l ih =>
    simp only [countTok, List.map_cons, List.sum_cons]
    rcases List.mem_cons.mp hs with rfl | hs'
    · cases s with
      | lit y => simp [Seg.firstRef] at h
      | tok n v' => simp only [Seg.weight]; omega
      | nest pre i iv post v' => simp only [Seg.weight]; omega
    · have := ih hs'; simp only [countTok] at this; omega

theorem nameOk_append {a b : Bytes} (ha : NameOk a) (hb : NameOk b) : NameOk (a ++ b) := by
  intro c hc
  rcases List.mem_append.mp hc with h | h
  · exact ha c h
  · exact hb c h

/-- the facts about the reference being resolved that a piece of the value provides -/
theorem firstRef_facts (w : World) (t : Table) (s : Seg) (hs : SegOk w t s) (name v : Bytes)
    (h : s.firstRef = some (name, v)) :
    NameOk name ∧ resolve w t name = some v ∧ DollarOk v ∧ NoByte 0 v := by
  cases s with
  | lit y => simp [Seg.firstRef] at h
  | tok n v' =>
    simp only [Seg.firstRef, Option.some.injEq, Prod.mk.injEq] at h
    obtain ⟨rfl, rfl⟩ := h
    exact hs
  | nest pre i iv post v' =>
    simp only [Seg.firstRef, Option.some.injEq, Prod.mk.injEq] at h
    obtain ⟨rfl, rfl⟩ := h
    obtain ⟨_, hi, hiv, _, hres, _⟩ := hs
    exact ⟨hi, hres, dollarOk_of_noByte _ (nameOk_no36 hiv), fun c hc => (hiv c hc).2.2.2⟩

theorem segOk_subst (w : World) (t : Table) (name val : Bytes) (hres : resolve w t name = some val)
    (h36 : DollarOk val) (h0 : NoByte 0 val) (s : Seg) (hs : SegOk w t s) : SegOk w t (substSeg name val s) := by
  cases s with
  | lit y => exact hs
  | tok n v =>
    simp only [substSeg]
    by_cases he : n = name
    · simp only [he, if_true]; exact ⟨h36, h0⟩
    · simp only [he, if_false]; exact hs
  | nest pre i iv post v =>
    simp only [substSeg]
    by_cases he : i = name
    · obtain ⟨hpre, hi, hiv, hpost, hri, hrv, hd, hz⟩ := hs
      have hv : val = iv := by rw [he, hres] at hri; exact Option.some.inj hri
      simp only [he, if_true, hv]
      exact ⟨nameOk_append (nameOk_append hpre hiv) hpost, hrv, hd, hz⟩
    · simp only [he, if_false]; exact hs

theorem final_subst (w : World) (t : Table) (name val : Bytes) (hres : resolve w t name = some val)
    (l : List Seg) (hl : ∀ s ∈ l, SegOk w t s) : finalSegs (l.map (substSeg name val)) = finalSegs l := by
  induction l with
  | nil => rfl
  | cons x l ih =>
    have ih' := ih (fun s hs => hl s (by simp [hs]))
    simp only [finalSegs, List.map_cons, List.flatMap_cons] at ih' ⊢
    rw [ih']
    congr 1
    cases x with
    | lit y => rfl
    | tok n v =>
      simp only [substSeg]
      by_cases he : n = name
      · have := (hl (.tok n v) (by simp)).2.1
        rw [he, hres] at this
        simp only [he, if_true, Seg.final]
        exact (Option.some.inj this)
      · simp only [he, if_false]
    | nest pre i iv post v =>
      simp only [substSeg]
      by_cases he : i = name <;> simp [he, Seg.final]

theorem segBound_subst (w : World) (t : Table) (name val : Bytes) (hres : resolve w t name = some val)
    (s : Seg) (hs : SegOk w t s) : segBound (substSeg name val s) ≤ segBound s := by
  cases s with
  | lit y => exact Nat.le_refl _
  | tok n v =>
    simp only [substSeg]
    by_cases he : n = name
    · have := hs.2.1
      rw [he, hres] at this
      have hv : val = v := Option.some.inj this
      simp only [he, if_true, segBound, hv]
      omega
    · simp only [he, if_false]; exact Nat.le_refl _
  | nest pre i iv post v =>
    simp only [substSeg]
    by_cases he : i = name
    · have := hs.2.2.2.2.1
      rw [he, hres] at this
      have hv : val = iv := Option.some.inj this
      simp only [he, if_true, segBound, hv]
      omega
    · simp only [he, if_false]; exact Nat.le_refl _

theorem bound_subst (w : World) (t : Table) (name val : Bytes) (hres : resolve w t name = some val)
    (l : List Seg) (hl : ∀ s ∈ l, SegOk w t s) : bound (l.map (substSeg name val)) ≤ bound l := by
  induction l with
  | nil => simp [bound]
  | cons x l ih =>
    have h1 := segBound_subst w t name val hres x (hl x (by simp))
    have h2 := ih (fun s hs => hl s (by simp [hs]))
    simp only [bound, List.map_cons, List.sum_cons] at h2 ⊢
    omega

theorem render_le_segBound (x : Seg) : x.render.length ≤ segBound x := by
  cases x with
  | lit y => exact Nat.le_refl _
  | tok n v => simp only [segBound, Seg.render]; omega
  | nest pre i iv post v => simp only [segBound]; omega

theorem render_le_bound (l : List Seg) : (renderSegs l).length ≤ bound l := by
  induction l with
  | nil => simp [renderSegs, bound]
  | cons x l ih =>
    simp only [renderSegs, bound, List.flatMap_cons, List.length_append, List.map_cons, List.sum_cons] at ih ⊢
    have := render_le_segBound x
    omega

/-- the expansion of a value whose references (plain, or nested one level) all resolve to text
    without `${`: every reference is replaced by the text it stands for -/
theorem parsestrLoop_segs (w : World) (t : Table) (left : Nat) : ∀ (l : List Seg),
    (∀ s ∈ l, SegOk w t s) → countTok l ≤ left → bound l ≤ maxValueSize →
    parsestrLoop w t left (renderSegs l) = .ok (some (finalSegs l)) := by
  induction left with
  | zero =>
    intro l hl hc hb
    unfold parsestrLoop
    rw [outerScan_segs w t l hl _ (by omega)]
    cases hft : firstTok l with
    | none =>
      simp only []
      rw [final_eq_render_of_plain l (firstTok_none_plain l hft)]
    | some x =>
      obtain ⟨ts, v⟩ := x
      obtain ⟨name, s0, _, hmem, hfr⟩ := firstTok_some l ts v hft
      have := countTok_pos l s0 hmem name v hfr
      omega
  | succ left ih =>
    intro l hl hc hb
    unfold parsestrLoop
    rw [outerScan_segs w t l hl _ (by omega)]
    cases hft : firstTok l with
    | none =>
      simp only []
      rw [final_eq_render_of_plain l (firstTok_none_plain l hft)]
    | some x =>
      obtain ⟨ts, v⟩ := x
      obtain ⟨name, s0, hts, hmem, hfr⟩ := firstTok_some l ts v hft
      obtain ⟨hn, hres, h36, h0⟩ := firstRef_facts w t s0 (hl _ hmem) name v hfr
      subst hts
      simp only []
      rw [replaceAll_segs name v hn w t l hl]
      have hl' : ∀ s ∈ l.map (substSeg name v), SegOk w t s := by
        intro s hs
        obtain ⟨s1, hs1, rfl⟩ := List.mem_map.mp hs
        exact segOk_subst w t name v hres h36 h0 s1 (hl s1 hs1)
      have hb' : bound (l.map (substSeg name v)) ≤ maxValueSize :=
        Nat.le_trans (bound_subst w t name v hres l hl) hb
      have hlen : ¬ ((renderSegs (l.map (substSeg name v))).length > maxValueSize) := by
        have := render_le_bound (l.map (substSeg name v)); omega
      simp only [hlen, if_false]
      rw [ih _ hl' (by have := countTok_subst_lt name v v l s0 hmem hfr; omega) hb']
      rw [final_subst w t name v hres l hl]

/-! ### documents whose values contain references -/

/-- a line of an INI document; the value of an entry is a list of literal pieces and references,
    each reference annotated with the text it stands for -/
inductive ItemR where
  | blank
  | comment (text : Bytes)
  | sect (name : Bytes)
  | entry (name : Bytes) (segs : List Seg)

/-- the line as written -/
def ItemR.toItem : ItemR → Item
  | .blank => .blank
  | .comment t => .comment t
  | .sect n => .sect n
  | .entry n segs => .entry n (renderSegs segs)

/-- what the line says -/
def ItemR.meaning : ItemR → Item
  | .blank => .blank
  | .comment t => .comment t
  | .sect n => .sect n
  | .entry n segs => .entry n (finalSegs segs)

def renderDocR (sep : UInt8) : List (ItemR × Lay) → Bool → Bytes :=
  fun items nl => renderDoc sep (items.map (fun x => (x.1.toItem, x.2))) nl

/-- admissibility of one line given the table `t` built by the lines before it: the shape conditions
    of `ItemOk`, and for an entry: every reference resolves — in the table so far (latest
    definition), the environment or the command stub — to the annotated, `$`-free text; at most
    `_MAX_EXPANSIONS` references and `_MAX_VALUESIZE` bytes -/
def ItemROk (w : World) (sep : UInt8) (t : Table) : ItemR → Prop
  | .blank => True
  | .comment text => NoByte 10 text
  | .sect name => NoByte 10 name ∧ NoByte 36 name ∧ Tight name
  | .entry name segs =>
    (name ≠ [] ∧ Tight name ∧ NoByte 10 name ∧ NoByte sep name ∧ name.head? ≠ some 35 ∧ name.head? ≠ some 91 ∧
      Tight (renderSegs segs) ∧ NoByte 10 (renderSegs segs)) ∧
    (∀ s ∈ segs, SegOk w t s) ∧ countTok segs ≤ maxExpansions ∧ bound segs ≤ maxValueSize

/-- the whole document: every line admissible w.r.t. the table in effect at that line -/
def DocROk (w : World) (sep : UInt8) : (sect : Option Bytes) → (t : Table) → List (ItemR × Lay) → Prop
  | _, _, [] => True
  | s, t, (i, l) :: rest =>
    LayOk l ∧ ItemROk w sep t i ∧ DocROk w sep (sectAfter s i.meaning) (t ++ entriesOf s i.meaning) rest

theorem lineStep_itemR (w : World) (sep : UInt8) (hsep : Str.isWs sep = false) (hs0 : sep ≠ 0) (i : ItemR) (l : Lay)
    (sect : Option Bytes) (t : Table) (hok : ItemROk w sep t i) (hl : LayOk l) :
    lineStep w sep (renderItem sep i.toItem l) sect t = .ok (sectAfter sect i.meaning, t ++ entriesOf sect i.meaning) := by
  cases i with
  | blank => exact lineStep_item w sep hsep hs0 .blank l trivial hl sect t
  | comment text => exact lineStep_item w sep hsep hs0 (.comment text) l hok hl sect t
  | sect name => exact lineStep_item w sep hsep hs0 (.sect name) l hok hl sect t
  | entry name segs =>
    obtain ⟨hshape, hsegs, hcnt, hbnd⟩ := hok
    have hparse : parsestr w t (renderSegs segs) = .ok (some (finalSegs segs)) :=
      parsestrLoop_segs w t maxExpansions segs hsegs hcnt hbnd
    simp only [ItemR.toItem, ItemR.meaning]
    rw [lineStep_entry_gen w sep hsep hs0 name (renderSegs segs) (finalSegs segs) l hl hshape sect t hparse]
    simp [sectAfter, entriesOf]

theorem itemR_noNl (w : World) (sep : UInt8) (hsep : Str.isWs sep = false) (hs0 : sep ≠ 0) (i : ItemR) (l : Lay) (t : Table)
    (hok : ItemROk w sep t i) (hl : LayOk l) : NoByte 10 (renderItem sep i.toItem l) := by
  cases i with
  | blank => exact renderItem_noNl sep hsep hs0 .blank l trivial hl
  | comment text => exact renderItem_noNl sep hsep hs0 (.comment text) l hok hl
  | sect name => exact renderItem_noNl sep hsep hs0 (.sect name) l hok hl
  | entry name segs =>
    obtain ⟨⟨hne, htn, hn10, hnsep, h35, h91, htv, hv10⟩, _⟩ := hok
    obtain ⟨ha, hb, hc, hd⟩ := hl
    have n1 : ∀ (b : UInt8), b ≠ 10 → NoByte 10 [b] := by intro b hb c hc; simp at hc; subst hc; exact hb
    have hs10 : sep ≠ 10 := by intro h; rw [h] at hsep; cases hsep
    exact noByte_append (noByte_append (noByte_append (noByte_append (noByte_append (noByte_append
      (layWs_noByte10 ha) hn10) (layWs_noByte10 hb)) (n1 sep hs10)) (layWs_noByte10 hc)) hv10) (layWs_noByte10 hd)

theorem parseLoop_renderR (w : World) (sep : UInt8) (hsep : Str.isWs sep = false) (hs0 : sep ≠ 0) (items : List (ItemR × Lay)) :
    ∀ (nl : Bool) (fuel : Nat) (sect : Option Bytes) (t : Table),
    DocROk w sep sect t items → (renderDocR sep items nl).length < fuel →
    parseLoop w sep fuel (renderDocR sep items nl) sect t =
      .ok (t ++ expected sect (items.map (·.1.meaning))) := by
  induction items with
  | nil =>
    intro nl fuel sect t _ hf
    cases fuel with
    | zero => simp at hf
    | succ f => simp [renderDocR, renderDoc, parseLoop, expected]
  | cons x rest ih =>
    intro nl fuel sect t hok hf
    obtain ⟨i, l⟩ := x
    obtain ⟨hl, hi, hrest⟩ := hok
    have hno := itemR_noNl w sep hsep hs0 i l t hi hl
    cases fuel with
    | zero => simp at hf
    | succ f =>
    simp only [List.map_cons, expected_cons]
    by_cases hlast : rest = [] ∧ nl = false
    · obtain ⟨hr, hn⟩ := hlast
      subst hr; subst hn
      simp only [renderDocR, List.map_cons, List.map_nil, renderDoc, expected, List.append_nil]
      unfold parseLoop
      by_cases hR : renderItem sep i.toItem l = []
      · have := lineStep_itemR w sep hsep hs0 i l sect t hi hl
        rw [hR] at this
        simp only [hR, if_true]
        have h2 : lineStep w sep [] sect t = .ok (sect, t) := by
          simp [lineStep, Str.trim, Str.trimHead, Str.trimTail]
        rw [h2] at this
        simp only [Except.ok.injEq, Prod.mk.injEq] at this
        rw [← this.2]
      · simp only [hR, if_false, splitLine_last _ hno, lineStep_itemR w sep hsep hs0 i l sect t hi hl]
        cases f with
        | zero =>
          have h1 : (renderItem sep i.toItem l).length < 1 := by simpa [renderDocR, renderDoc] using hf
          have h2 := List.length_pos_iff.mpr hR
          omega
        | succ f' => simp [parseLoop]
    · have hshape : renderDocR sep ((i, l) :: rest) nl = renderItem sep i.toItem l ++ 10 :: renderDocR sep rest nl := by
        cases rest with
        | nil =>
          cases nl with
          | false => exact absurd ⟨rfl, rfl⟩ hlast
          | true => simp [renderDocR, renderDoc]
        | cons y ys => simp [renderDocR, renderDoc]
      rw [hshape] at hf ⊢
      unfold parseLoop
      have hne : renderItem sep i.toItem l ++ 10 :: renderDocR sep rest nl ≠ [] := by simp
      simp only [hne, if_false, splitLine_nl _ _ hno, lineStep_itemR w sep hsep hs0 i l sect t hi hl]
      rw [ih nl f _ _ hrest (by simp only [List.length_append, List.length_cons] at hf; omega)]
      simp

theorem parseStr_renderR (w : World) (sep : UInt8) (hsep : Str.isWs sep = false) (hs0 : sep ≠ 0) (items : List (ItemR × Lay))
    (nl : Bool) (hok : DocROk w sep none [] items) :
    parseStr w sep (renderDocR sep items nl) = .ok (expected none (items.map (·.1.meaning))) := by
  unfold parseStr
  have := parseLoop_renderR w sep hsep hs0 items nl ((renderDocR sep items nl).length + 1) none [] hok (by omega)
  simpa using this

end Qlibc.Conf.Ini

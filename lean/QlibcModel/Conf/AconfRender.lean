/-
  Rendering of argument lists (the grammar side of C20's `ac_tokenize`) and the proof that the
  tokenizer inverts it.
-/
import QlibcModel.Conf.AconfTok
namespace Qlibc.Conf.Aconf
open Qlibc

inductive Style where
  | bare | single | double
  deriving DecidableEq, Repr

/-- one argument as written: the bytes the callback must receive, the quoting style, and for a
    quoted argument which characters are escaped although they need not be (`esc` is read
    alongside `text`; missing flags are `false`) -/
structure RArg where
  text : Bytes
  style : Style
  esc : List Bool := []

def quoteChar : Style → UInt8
  | .single => 39
  | .double => 34
  | .bare => 0

/-- inside quotes the quote character and the backslash MUST be escaped; any other character MAY be -/
def escapeGo (qc : UInt8) : Bytes → List Bool → Bytes
  | [], _ => []
  | c :: t, e =>
    (if c = qc ∨ c = 92 ∨ e.headD false then [92, c] else [c]) ++ escapeGo qc t e.tail

def renderArg (a : RArg) : Bytes :=
  match a.style with
  | .bare => a.text
  | s => [quoteChar s] ++ escapeGo (quoteChar s) a.text a.esc ++ [quoteChar s]

/-- which (text, style) pairs can be written: no NUL; a bare word is non-empty, has no blank and
    does not start with a quote character -/
def Admissible (a : RArg) : Prop :=
  (∀ c ∈ a.text, c ≠ 0) ∧
  (a.style = .bare → a.text ≠ [] ∧ (∀ c ∈ a.text, isBlank c = false) ∧
    a.text.head? ≠ some 39 ∧ a.text.head? ≠ some 34)

/-- a line: each argument preceded by a run of blanks/tabs -/
def renderArgs : List (Bytes × RArg) → Bytes
  | [] => []
  | (bl, a) :: rest => bl ++ renderArg a ++ renderArgs rest

/-- every separator consists of blanks/tabs, every argument is admissible, and every argument but
    the first is preceded by at least one blank -/
def LineOk (l : List (Bytes × RArg)) : Prop :=
  (∀ x ∈ l, (∀ c ∈ x.1, isBlank c = true) ∧ Admissible x.2) ∧ (∀ x ∈ l.tail, x.1 ≠ [])

/-- W1: a bare word is scanned up to the blank or NUL behind it -/
theorem wordAbs_bare (t : Bytes) : ∀ (tail pre word : Bytes),
    (∀ c ∈ t, c ≠ 0) → (∀ c ∈ t, isBlank c = false) →
    wordAbs (t ++ tail) pre word 0 = wordAbs tail pre (word ++ t) 0 := by
  induction t with
  | nil => intro tail pre word _ _; simp
  | cons c t ih =>
    intro tail pre word hz hb
    have hc0 : c ≠ 0 := hz c (by simp)
    have hcb : isBlank c = false := hb c (by simp)
    have hcb' : ¬ (c = 32 ∨ c = 9) := by
      intro h; rcases h with h | h <;> simp [isBlank, h] at hcb
    have ih' := ih tail pre (word ++ [c]) (fun x hx => hz x (by simp [hx])) (fun x hx => hb x (by simp [hx]))
    simp only [List.append_assoc, List.cons_append, List.nil_append] at ih'
    simp only [List.cons_append]
    conv => lhs; unfold wordAbs
    simp only [hc0, if_false, hcb']
    have q1 : ¬ ((0 : Nat) = 1) := by decide
    have q2 : ¬ ((0 : Nat) = 2) := by decide
    have q0 : ¬ ((0 : Nat) > 0) := by decide
    by_cases h39 : c = 39
    · simp only [h39, if_true, q1, if_false] at ih' ⊢; exact ih'
    by_cases h34 : c = 34
    · simp only [h34, if_true, q2, if_false] at ih' ⊢
      have : ¬ ((34 : UInt8) = 39) := by decide
      simp only [this, if_false]; exact ih'
    by_cases h92 : c = 92
    · simp only [h92, if_true, q0, if_false] at ih' ⊢
      have a : ¬ ((92 : UInt8) = 39) := by decide
      have b : ¬ ((92 : UInt8) = 34) := by decide
      simp only [a, b, if_false]; exact ih'
    simp only [h39, h34, h92, if_false]
    exact ih'

def qtOf (qc : UInt8) : Nat := if qc = 39 then 1 else 2

/-- W2: a quoted word is scanned up to its closing quote; escapes are removed -/
theorem wordAbs_quoted (qc : UInt8) (hqc : qc = 39 ∨ qc = 34) (t : Bytes) :
    ∀ (e : List Bool) (tail pre word : Bytes), (∀ c ∈ t, c ≠ 0) →
    ∃ pre', wordAbs (escapeGo qc t e ++ qc :: tail) pre word (qtOf qc) =
      .ok (pre', word ++ t, qc :: tail, 0, false) := by
  have hq0 : qtOf qc > 0 := by unfold qtOf; split <;> decide
  have hqn0 : ¬ (qtOf qc = 0) := by omega
  induction t with
  | nil =>
    intro e tail pre word _
    refine ⟨pre, ?_⟩
    simp only [escapeGo, List.nil_append, List.append_nil]
    unfold wordAbs
    rcases hqc with h | h <;> subst h <;> simp [qtOf]
  | cons c t ih =>
    intro e tail pre word hz
    have hc0 : c ≠ 0 := hz c (by simp)
    have hz' : ∀ x ∈ t, x ≠ 0 := fun x hx => hz x (by simp [hx])
    simp only [escapeGo]
    by_cases hesc : c = qc ∨ c = 92 ∨ e.headD false
    · -- written as backslash + c
      simp only [hesc, if_true, List.cons_append, List.nil_append]
      obtain ⟨pre', h'⟩ := ih e.tail tail (pre ++ [shiftByte word 92]) (word ++ [c]) hz'
      refine ⟨pre', ?_⟩
      unfold wordAbs
      have a : ¬ ((92 : UInt8) = 0) := by decide
      have b : ¬ ((92 : UInt8) = 39) := by decide
      have d : ¬ ((92 : UInt8) = 34) := by decide
      simp only [a, b, d, if_false, if_true, hq0, ne_eq, hc0, not_false_eq_true]
      rw [h']; simp
    · -- written as itself
      simp only [hesc, if_false, List.cons_append, List.nil_append]
      have hne : c ≠ qc := fun h => hesc (Or.inl h)
      have h92 : c ≠ 92 := fun h => hesc (Or.inr (Or.inl h))
      obtain ⟨pre', h'⟩ := ih e.tail tail pre (word ++ [c]) hz'
      refine ⟨pre', ?_⟩
      unfold wordAbs
      simp only [hc0, if_false, h92]
      have fin : wordAbs (escapeGo qc t e.tail ++ qc :: tail) pre (word ++ [c]) (qtOf qc) =
          Except.ok (pre', word ++ c :: t, qc :: tail, 0, false) := by rw [h']; simp
      rcases hqc with h | h <;> subst h
      · -- single quotes: qt = 1
        have e1 : qtOf 39 = 1 := by decide
        have e2 : ¬ ((1 : Nat) = 2) := by decide
        have e0 : ¬ ((1 : Nat) = 0) := by decide
        rw [e1] at fin ⊢
        simp only [hne, if_false, e2, e0]
        by_cases h34 : c = 34
        · simp only [h34, if_true]; rw [← h34]; exact fin
        · simp only [h34, if_false]
          split <;> exact fin
      · have e1 : qtOf 34 = 2 := by decide
        have e2 : ¬ ((2 : Nat) = 1) := by decide
        have e0 : ¬ ((2 : Nat) = 0) := by decide
        rw [e1] at fin ⊢
        simp only [hne, if_false, e2, e0]
        by_cases h39 : c = 39
        · simp only [h39, if_true]; rw [← h39]; exact fin
        · simp only [h39, if_false]
          split <;> exact fin

theorem blank_ne_zero {c : UInt8} (h : isBlank c = true) : c ≠ 0 := by
  intro h0; subst h0; simp [isBlank] at h

/-- H1/H2: a bare word followed by the terminator or by a blank -/
theorem tokStepA_bare_end (t pre1 : Bytes) (acc : List Bytes)
    (hz : ∀ c ∈ t, c ≠ 0) (hb : ∀ c ∈ t, isBlank c = false) :
    tokStepA (t ++ [0]) pre1 0 acc = .ok (.fin (.args (t :: acc).reverse)) := by
  unfold tokStepA
  rw [wordAbs_bare t [0] pre1 [] hz hb]
  simp [wordAbs]

theorem tokStepA_bare_more (t pre1 : Bytes) (acc : List Bytes) (b c2 : UInt8) (r2 : Bytes)
    (hz : ∀ c ∈ t, c ≠ 0) (hb : ∀ c ∈ t, isBlank c = false) (hbl : isBlank b = true) (hc2 : c2 ≠ 0) :
    tokStepA (t ++ b :: c2 :: r2) pre1 0 acc = .ok (.more (pre1 ++ t ++ [0]) (c2 :: r2) t) := by
  unfold tokStepA
  rw [wordAbs_bare t (b :: c2 :: r2) pre1 [] hz hb]
  have hb0 : b ≠ 0 := blank_ne_zero hbl
  have hb' : b = 32 ∨ b = 9 := by
    simp only [isBlank, Bool.or_eq_true, beq_iff_eq] at hbl; exact hbl
  have h39 : b ≠ 39 := by rcases hb' with h | h <;> subst h <;> decide
  have h34 : b ≠ 34 := by rcases hb' with h | h <;> subst h <;> decide
  have h92 : b ≠ 92 := by rcases hb' with h | h <;> subst h <;> decide
  simp [wordAbs, hb0, h39, h34, h92, hb', hc2]

theorem tokStepA_quoted_end (qc : UInt8) (hqc : qc = 39 ∨ qc = 34) (t : Bytes) (e : List Bool) (pre1 : Bytes)
    (acc : List Bytes) (hz : ∀ c ∈ t, c ≠ 0) :
    tokStepA (escapeGo qc t e ++ qc :: [0]) pre1 (qtOf qc) acc = .ok (.fin (.args (t :: acc).reverse)) := by
  unfold tokStepA
  obtain ⟨pre', h⟩ := wordAbs_quoted qc hqc t e [0] pre1 [] hz
  rw [h]
  simp

theorem tokStepA_quoted_more (qc : UInt8) (hqc : qc = 39 ∨ qc = 34) (t : Bytes) (e : List Bool) (pre1 : Bytes)
    (acc : List Bytes) (c2 : UInt8) (r2 : Bytes) (hz : ∀ c ∈ t, c ≠ 0) (hc2 : c2 ≠ 0) :
    ∃ p, tokStepA (escapeGo qc t e ++ qc :: c2 :: r2) pre1 (qtOf qc) acc = .ok (.more p (c2 :: r2) t) := by
  unfold tokStepA
  obtain ⟨pre', h⟩ := wordAbs_quoted qc hqc t e (c2 :: r2) pre1 [] hz
  rw [h]
  exact ⟨pre' ++ t ++ [0], by simp [hc2]⟩

/-- R3: how a rendered argument starts -/
theorem renderArg_head (a : RArg) (ha : Admissible a) :
    ∃ c r, renderArg a = c :: r ∧ isBlank c = false ∧ c ≠ 0 := by
  unfold renderArg
  cases hs : a.style with
  | bare =>
    obtain ⟨hz, hbare⟩ := ha
    obtain ⟨hne, hb, _, _⟩ := hbare hs
    cases ht : a.text with
    | nil => exact absurd ht hne
    | cons c r =>
      simp only []
      exact ⟨c, r, rfl, hb c (by simp [ht]), hz c (by simp [ht])⟩
  | single => exact ⟨39, _, rfl, by decide, by decide⟩
  | double => exact ⟨34, _, rfl, by decide, by decide⟩

/-- R1: a rendered non-empty line (plus terminator) starts with a non-NUL byte -/
theorem renderArgs_head (l : List (Bytes × RArg)) (hl : l ≠ []) (hok : LineOk l) :
    ∃ c r, renderArgs l ++ [0] = c :: r ∧ c ≠ 0 := by
  cases l with
  | nil => exact absurd rfl hl
  | cons x rest =>
    obtain ⟨bl, a⟩ := x
    obtain ⟨hbl, ha⟩ := hok.1 (bl, a) (by simp)
    simp only [renderArgs]
    cases bl with
    | nil =>
      obtain ⟨c, r, hr, _, hc⟩ := renderArg_head a ha
      exact ⟨c, r ++ renderArgs rest ++ [0], by simp [hr], hc⟩
    | cons b bl' =>
      exact ⟨b, bl' ++ renderArg a ++ renderArgs rest ++ [0], by simp, blank_ne_zero (hbl b (by simp))⟩

/-- R2: skipping the blanks in front of an argument -/
theorem dropBlanks_render (bl x : Bytes) (hbl : ∀ c ∈ bl, isBlank c = true)
    (hx : ∃ c r, x = c :: r ∧ isBlank c = false) :
    (bl ++ x).dropWhile isBlank = x ∧ (bl ++ x).takeWhile isBlank = bl := by
  obtain ⟨c, r, rfl, hc⟩ := hx
  induction bl with
  | nil => simp [hc]
  | cons b bl ih =>
    have hb : isBlank b = true := hbl b (by simp)
    have := ih (fun c hc => hbl c (by simp [hc]))
    simp [hb, this.1, this.2]

theorem LineOk.tail {x : Bytes × RArg} {rest : List (Bytes × RArg)} (h : LineOk (x :: rest)) : LineOk rest :=
  ⟨fun y hy => h.1 y (by simp [hy]), fun y hy => h.1 y (by simp [List.mem_of_mem_tail hy]) |> fun _ =>
    h.2 y (by simp only [List.tail_cons]; exact List.mem_of_mem_tail hy)⟩

theorem tokAbs_render (n : Nat) : ∀ (l : List (Bytes × RArg)), l.length = n → l ≠ [] → LineOk l →
    ∀ (fuel : Nat) (pre : Bytes) (acc : List Bytes), l.length < fuel →
    tokAbs fuel (renderArgs l ++ [0]) pre acc = .ok (.args (acc.reverse ++ l.map (·.2.text))) := by
  induction n with
  | zero => intro l hl hne; cases l <;> simp_all
  | succ n ih =>
    intro l hlen hne hok fuel pre acc hf
    cases l with
    | nil => exact absurd rfl hne
    | cons x rest =>
    obtain ⟨bl, a⟩ := x
    cases fuel with
    | zero => simp at hf
    | succ fuel =>
    have hrl : rest.length = n := by simpa using hlen
    have hfr : rest.length < fuel := by simp at hf; omega
    obtain ⟨hbl, ha⟩ := hok.1 (bl, a) (by simp)
    have hokr : LineOk rest := hok.tail
    obtain ⟨c, r, hr, hcb, hc0⟩ := renderArg_head a ha
    -- skip the blanks
    have hstr : renderArgs ((bl, a) :: rest) ++ [0] = bl ++ (renderArg a ++ (renderArgs rest ++ [0])) := by
      simp [renderArgs]
    have hdrop := dropBlanks_render bl (renderArg a ++ (renderArgs rest ++ [0])) hbl
      ⟨c, r ++ (renderArgs rest ++ [0]), by simp [hr], hcb⟩
    unfold tokAbs
    rw [hstr, hdrop.1, hdrop.2, hr]
    simp only [List.cons_append, List.map_cons]
    have g1 : (1 : Nat) > 0 := by decide
    have g2 : (2 : Nat) > 0 := by decide
    have g0 : ¬ ((0 : Nat) > 0) := by decide
    cases hs : a.style with
    | bare =>
      obtain ⟨hz, hbare⟩ := ha
      obtain ⟨_, hb, h39, h34⟩ := hbare hs
      have htext : a.text = c :: r := by simpa [renderArg, hs] using hr
      have c39 : c ≠ 39 := by intro h; rw [htext, h] at h39; simp at h39
      have c34 : c ≠ 34 := by intro h; rw [htext, h] at h34; simp at h34
      simp only [c39, c34, if_false, g0]
      have hre : c :: (r ++ (renderArgs rest ++ [0])) = a.text ++ (renderArgs rest ++ [0]) := by simp [htext]
      rw [hre]
      cases rest with
      | nil =>
        simp only [renderArgs, List.nil_append, List.map_nil]
        rw [tokStepA_bare_end a.text _ acc hz hb]
        simp
      | cons y rest2 =>
        obtain ⟨bl', a'⟩ := y
        have hne' : bl' ≠ [] := hok.2 (bl', a') (by simp)
        cases bl' with
        | nil => exact absurd rfl hne'
        | cons b bl2 =>
          have hb1 : isBlank b = true := (hokr.1 (b :: bl2, a') (by simp)).1 b (by simp)
          -- the remaining line, one blank shorter
          have hok2 : LineOk ((bl2, a') :: rest2) := by
            refine ⟨?_, ?_⟩
            · intro z hz'
              rcases List.mem_cons.mp hz' with rfl | hz''
              · have := hokr.1 (b :: bl2, a') (by simp)
                exact ⟨fun c hc => this.1 c (by simp [hc]), this.2⟩
              · exact hokr.1 z (by simp [hz''])
            · intro z hz'; exact hokr.2 z (by simpa using hz')
          obtain ⟨c2, r2, h2, hc2⟩ := renderArgs_head ((bl2, a') :: rest2) (by simp) hok2
          have htail : renderArgs ((b :: bl2, a') :: rest2) ++ [0] = b :: c2 :: r2 := by
            have : renderArgs ((b :: bl2, a') :: rest2) ++ [0] = b :: (renderArgs ((bl2, a') :: rest2) ++ [0]) := by
              simp [renderArgs]
            rw [this, h2]
          rw [htail, tokStepA_bare_more a.text _ acc b c2 r2 hz hb hb1 hc2]
          simp only []
          rw [← h2]
          have := ih ((bl2, a') :: rest2) (by simpa using hrl) (by simp) hok2 fuel
            (pre ++ bl ++ a.text ++ [0]) (a.text :: acc) (by simpa using hfr)
          rw [this]
          simp
    | single =>
      have hz := ha.1
      have hra : renderArg a = 39 :: (escapeGo 39 a.text a.esc ++ [39]) := by simp [renderArg, hs, quoteChar]
      rw [hra] at hr
      obtain ⟨rfl, rfl⟩ := List.cons.inj hr
      simp only [if_true, if_false, g1]
      have hre : escapeGo 39 a.text a.esc ++ [39] ++ (renderArgs rest ++ [0]) =
          escapeGo 39 a.text a.esc ++ 39 :: (renderArgs rest ++ [0]) := by simp
      rw [hre]
      have hq : qtOf 39 = 1 := by decide
      cases rest with
      | nil =>
        simp only [renderArgs, List.nil_append, List.map_nil]
        have := tokStepA_quoted_end 39 (by decide) a.text a.esc (pre ++ bl ++ [39]) acc hz
        rw [hq] at this
        rw [this]
        simp
      | cons y rest2 =>
        obtain ⟨c2, r2, h2, hc2⟩ := renderArgs_head (y :: rest2) (by simp) hokr
        rw [h2]
        obtain ⟨p, hp⟩ := tokStepA_quoted_more 39 (by decide) a.text a.esc (pre ++ bl ++ [39]) acc c2 r2 hz hc2
        rw [hq] at hp
        rw [hp]
        simp only []
        rw [← h2]
        have := ih (y :: rest2) hrl (by simp) hokr fuel p (a.text :: acc) hfr
        rw [this]
        simp
    | double =>
      have hz := ha.1
      have hra : renderArg a = 34 :: (escapeGo 34 a.text a.esc ++ [34]) := by simp [renderArg, hs, quoteChar]
      rw [hra] at hr
      obtain ⟨rfl, rfl⟩ := List.cons.inj hr
      have n39 : ¬ ((34 : UInt8) = 39) := by decide
      simp only [n39, if_false]
      simp only [if_true, if_false, g2]
      have hre : escapeGo 34 a.text a.esc ++ [34] ++ (renderArgs rest ++ [0]) =
          escapeGo 34 a.text a.esc ++ 34 :: (renderArgs rest ++ [0]) := by simp
      rw [hre]
      have hq : qtOf 34 = 2 := by decide
      cases rest with
      | nil =>
        simp only [renderArgs, List.nil_append, List.map_nil]
        have := tokStepA_quoted_end 34 (by decide) a.text a.esc (pre ++ bl ++ [34]) acc hz
        rw [hq] at this
        rw [this]
        simp
      | cons y rest2 =>
        obtain ⟨c2, r2, h2, hc2⟩ := renderArgs_head (y :: rest2) (by simp) hokr
        rw [h2]
        obtain ⟨p, hp⟩ := tokStepA_quoted_more 34 (by decide) a.text a.esc (pre ++ bl ++ [34]) acc c2 r2 hz hc2
        rw [hq] at hp
        rw [hp]
        simp only []
        rw [← h2]
        have := ih (y :: rest2) hrl (by simp) hokr fuel p (a.text :: acc) hfr
        rw [this]
        simp

theorem renderArgs_length (l : List (Bytes × RArg)) (hok : ∀ x ∈ l, Admissible x.2) :
    l.length ≤ (renderArgs l).length := by
  induction l with
  | nil => simp
  | cons x rest ih =>
    obtain ⟨bl, a⟩ := x
    obtain ⟨c, r, hr, _, _⟩ := renderArg_head a (hok (bl, a) (by simp))
    have := ih (fun y hy => hok y (by simp [hy]))
    simp only [renderArgs, List.length_append, List.length_cons, hr]
    omega

/-- C20 ac_tokenize at the level of the raw tokenizer: tokenizing a rendered line gives back
    exactly the arguments, for every quoting style, every optional escape and every blank layout -/
theorem tokenize_render (l : List (Bytes × RArg)) (hne : l ≠ []) (hok : LineOk l) :
    tokenize (renderArgs l) = .ok (.args (l.map (·.2.text))) := by
  unfold tokenize tokenizeRaw
  have hs := tokLoop_sim ((renderArgs l ++ [0]).length + 1) (renderArgs l ++ [0]) [] []
  simp only [List.nil_append, List.length_nil] at hs
  rw [hs]
  have hlen := renderArgs_length l (fun x hx => (hok.1 x hx).2)
  have := tokAbs_render l.length l rfl hne hok ((renderArgs l ++ [0]).length + 1) [] []
    (by simp only [List.length_append, List.length_cons, List.length_nil]; omega)
  rw [this]
  simp

end Qlibc.Conf.Aconf

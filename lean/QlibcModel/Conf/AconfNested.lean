/-
  C20 ac_accept_iff / ac_callbacks for documents with arbitrarily nested sections: the parser model
  computes the declarative reading `specDoc` (AconfNestedSpec.lean).
-/
import QlibcModel.Conf.AconfNestedSpec
namespace Qlibc.Conf.Aconf
open Qlibc Qlibc.Generated.Conf

/-! ### the words of a line -/

/-- what the parser needs to know about a rendered word list -/
theorem args_facts (args : List (Bytes × RArg)) (hok : ArgsOk args) :
    ∃ (bl0 X : Bytes) (c0 : UInt8) (r0 : Bytes),
      renderArgs args = bl0 ++ X ∧ (∀ c ∈ bl0, Str.isWs c = true) ∧ X = c0 :: r0 ∧
      (∀ a ∈ args.head?, (renderArg a.2).head? = some c0) ∧ Str.isWs c0 = false ∧ Ini.Tight X ∧
      tokenize X = .ok (.args (args.map (·.2.text))) ∧
      (∀ c ∈ renderArgs args, c ≠ 10) ∧ (∀ c ∈ renderArgs args, c ≠ 0) := by
  obtain ⟨hne, hlo, htexts⟩ := hok
  obtain ⟨x0, restA, hargs⟩ : ∃ x r, args = x :: r := by
    cases args with
    | nil => exact absurd rfl hne
    | cons x r => exact ⟨x, r, rfl⟩
  obtain ⟨bl0, a0⟩ := x0
  have hX : renderArgs args = bl0 ++ renderArgs (dropLead args) := by simp [hargs, dropLead, renderArgs]
  have hbl0 : ∀ c ∈ bl0, isBlank c = true := (hlo.1 (bl0, a0) (by simp [hargs])).1
  have hbl0ws : ∀ c ∈ bl0, Str.isWs c = true := by
    intro c hc
    have := hbl0 c hc
    simp only [isBlank, Bool.or_eq_true, beq_iff_eq] at this
    rcases this with h | h <;> subst h <;> decide
  have hblk : ∀ x ∈ args, ∀ c ∈ x.1, isBlank c = true := fun x hx => (hlo.1 x hx).1
  have hdl : LineOk (dropLead args) := dropLead_ok args hlo
  have hdne : dropLead args ≠ [] := by simp [hargs, dropLead]
  obtain ⟨c0, r0, hr0, hc0b, hc00⟩ := renderArg_head a0 (hlo.1 (bl0, a0) (by simp [hargs])).2
  have hXhead : renderArgs (dropLead args) = c0 :: (r0 ++ renderArgs restA) := by
    simp [hargs, dropLead, renderArgs, hr0]
  have hc0ws : Str.isWs c0 = false := by
    have hmem : c0 ∈ renderArg a0 := by rw [hr0]; simp
    cases hs : a0.style with
    | bare =>
      have : renderArg a0 = a0.text := by simp [renderArg, hs]
      rw [this] at hmem
      exact (htexts (bl0, a0) (by simp [hargs])).2 hs c0 hmem
    | single =>
      have : renderArg a0 = 39 :: (escapeGo 39 a0.text a0.esc ++ [39]) := by simp [renderArg, hs, quoteChar]
      rw [this] at hr0; cases hr0; decide
    | double =>
      have : renderArg a0 = 34 :: (escapeGo 34 a0.text a0.esc ++ [34]) := by simp [renderArg, hs, quoteChar]
      rw [this] at hr0; cases hr0; decide
  have hbare' : ∀ x ∈ dropLead args, x.2.style = .bare → ∀ c ∈ x.2.text, Str.isWs c = false := by
    intro x hx
    rw [hargs] at hx
    simp only [dropLead, List.mem_cons] at hx
    rcases hx with rfl | hx
    · exact (htexts (bl0, a0) (by simp [hargs])).2
    · exact (htexts x (by simp [hargs, hx])).2
  obtain ⟨cl, hcl, hclw⟩ := renderArgs_last (dropLead args) hdne hdl hbare'
  refine ⟨bl0, renderArgs (dropLead args), c0, r0 ++ renderArgs restA, hX, hbl0ws, hXhead, ?_, hc0ws, ?_, ?_, ?_, ?_⟩
  · intro a ha
    rw [hargs] at ha
    simp only [List.head?_cons, Option.mem_def, Option.some.injEq] at ha
    subst ha
    simp [hr0]
  · refine ⟨?_, ?_⟩
    · intro c hc; rw [hXhead] at hc; simp at hc; subst hc; exact hc0ws
    · intro c hc; rw [hcl] at hc; cases hc; exact hclw
  · have := tokenize_render (dropLead args) hdne hdl
    rw [dropLead_texts] at this
    exact this
  · exact renderArgs_noByte 10 (by decide) args hblk (fun x hx => (htexts x hx).1)
  · exact renderArgs_noByte 0 (by decide) args hblk (fun x hx => (hlo.1 x hx).2.1)

/-! ### one line of the loop -/

/-- the loop body of `_parse_inline` after `fgets`, trimming, the bracket handling and the
    tokenizer: `st` is the state after reading the line, `otype`/`argv` what was read -/
def lineBody (cfg : Cfg) (fuel sectionid : Nat) (parent : Option CbData) (optcount newsectionid : Nat)
    (st : PState) (otype : Nat) (argv : List Bytes) : Except Fault (PState × Res) :=
  if otype = otypeOpen && (header sectionid parent).level = 2 ^ (8 * sizeofLevel) - 1 then
    .ok (st, .err st.lineno (str "Sections are nested too deeply."))
  else
    let ci := cfg.flags &&& qacCaseInsensitive ≠ 0
    let name := argv.headD []
    let mismatch : Bool := match parent with
      | none => true
      | some p => !nameEq ci name (p.argv.headD [])
    if otype = otypeClose && mismatch then
      .ok (st, .err st.lineno (str "Trying to close <" ++ name ++ str "> section that wasn't opened."))
    else
      let cb0 : CbData := { header sectionid parent with otype := otype, argv := argv }
      match dispatch cfg sectionid parent newsectionid cb0 with
      | .error f => .error f
      | .ok stp =>
        let st := { st with events := stp.events.reverse ++ st.events }
        match stp.err with
        | some m => .ok (st, .err st.lineno m)
        | none =>
          if otype = otypeOpen then
            match parseInline cfg fuel stp.nsid (some stp.cb) 0 0 st with
            | .error f => .error f
            | .ok (st2, .err l m) => .ok (st2, .err l m)
            | .ok (st2, .count n2) =>
              parseInline cfg fuel sectionid parent (optcount + n2 + 1) stp.nsid st2
          else if otype = otypeClose then .ok (st, .count (optcount + 1))
          else parseInline cfg fuel sectionid parent (optcount + 1) stp.nsid st

theorem parseInline_line (cfg : Cfg) (fuel sid : Nat) (parent : Option CbData) (oc ns ln : Nat)
    (evs : List Event) (line rest buf sp : Bytes) (otype : Nat) (argv : List Bytes)
    (hno : ∀ c ∈ line, c ≠ 10) (hnz : ∀ c ∈ line, c ≠ 0) (hlen : line.length + 1 < maxLineSize)
    (htrim : Str.trim (line ++ [10]) = buf) (hne : buf ≠ []) (hh : buf.head? ≠ some 35)
    (hbr : brackets buf = .ok (some (otype, sp))) (htok : tokenize sp = .ok (.args argv)) :
    parseInline cfg (fuel + 1) sid parent oc ns ⟨line ++ 10 :: rest, ln, evs⟩ =
      lineBody cfg fuel sid parent oc ns ⟨rest, ln + 1, evs⟩ otype argv := by
  conv => lhs; unfold parseInline
  simp only [fgets_line line rest hno hlen]
  rw [takeWhile_nonzero _ (by
    intro c hc; rcases List.mem_append.mp hc with h | h
    · exact hnz c h
    · simp at h; subst h; decide)]
  rw [htrim]
  have hcond : ((buf = []) || (buf.head? == some 35)) = false := by simp [hne, hh]
  simp only [drain_nl, Bool.false_and, hcond, Bool.false_eq_true, if_false, hbr]
  unfold lineBody
  simp only [htok]
  rfl

/-! ### dispatch = verdict -/

theorem dispatch_line (cfg : Cfg) (c : Ctx) (otype : Nat) (hot : otype ≠ otypeClose) (parent : Option CbData)
    (ns : Nat) (texts : List Bytes) :
    ∃ stp, dispatch cfg c.sid parent ns (c.data otype texts) = .ok stp ∧
      match judgeLine cfg c otype ns texts with
      | .reject => stp.err ≠ none ∧ stp.events = []
      | .refused e => stp.err ≠ none ∧ stp.events = [e]
      | .pass ev argv nsid =>
        stp.err = none ∧ stp.events = ev.toList ∧ stp.cb = c.data otype argv ∧ stp.nsid = nsid := by
  unfold dispatch judgeLine
  simp only [Ctx.data, Cfg.ci]
  cases hfind : cfg.opts.find? (fun o => nameEq (decide (cfg.flags &&& qacCaseInsensitive ≠ 0)) (texts.headD []) o.name) with
  | none =>
    simp only []
    by_cases hd : cfg.defcb = true
    · simp [hd]
    · simp only [hd, Bool.false_eq_true, if_false]
      by_cases hi : cfg.flags &&& qacIgnoreUnknown = 0
      · simp [hi]
      · simp [hi]
  | some o =>
    simp only [ne_eq, hot, not_false_eq_true, Bool.true_and, decide_true, Bool.and_eq_true, decide_eq_true_eq]
    by_cases hs : ¬ o.sections = qacSectionAll ∧ o.sections &&& c.sid = 0
    · simp [hs]
    · simp only [hs, if_false]
      by_cases hc : ¬ o.take &&& qacTakeAll = qacTakeAll ∧ ¬ o.take &&& qacTakeAll = texts.length - 1
      · simp [hc]
      · have hc' : ¬ (¬ o.take &&& qacTakeAll = qacTakeAll ∧ (decide ¬ o.take &&& qacTakeAll = texts.length - 1) = true) := by
          simpa using hc
        simp only [hc, hc', if_false, if_true]
        have hsp := checkArgs_spec o.take (texts.drop 1) 1
        cases hcs : checkArgsSpec o.take 1 (texts.drop 1) with
        | none =>
          rw [hcs] at hsp
          obtain ⟨e, he⟩ := hsp
          rw [he]
          cases e <;> (split; (rename_i h; exact absurd h hc'); simp)
        | some args' =>
          rw [hcs] at hsp
          rw [hsp]
          split
          · rename_i h; exact absurd h hc'
          by_cases hh : o.hasCb = true
          · cases hf : cfg.cbFail (c.data otype (texts.headD [] :: args')) with
            | none => simp only [Ctx.data, List.headD_eq_head?_getD] at hf; simp [hh, hf]; rfl
            | some m => simp only [Ctx.data, List.headD_eq_head?_getD] at hf; simp [hh, hf, hot]
          · by_cases hd : cfg.defcb = true
            · simp [hh, hd, hot]; rfl
            · simp [hh, hd]; rfl

theorem dispatch_close (cfg : Cfg) (inner : Ctx) (p : CbData) (ns : Nat) (ctexts : List Bytes) :
    ∃ stp, dispatch cfg inner.sid (some p) ns (inner.data otypeClose ctexts) = .ok stp ∧
      match judgeClose cfg inner p ctexts with
      | .reject => stp.err ≠ none ∧ stp.events = []
      | .refused e => stp.err ≠ none ∧ stp.events = [e]
      | .pass ev _ _ => stp.err = none ∧ stp.events = ev.toList := by
  unfold dispatch judgeClose
  simp only [Ctx.data, Cfg.ci]
  cases hfind : cfg.opts.find? (fun o => nameEq (decide (cfg.flags &&& qacCaseInsensitive ≠ 0)) (ctexts.headD []) o.name) with
  | none =>
    simp only []
    by_cases hd : cfg.defcb = true
    · simp [hd]
    · simp only [hd, Bool.false_eq_true, if_false]
      by_cases hi : cfg.flags &&& qacIgnoreUnknown = 0
      · simp [hi]
      · simp [hi]
  | some o =>
    simp only [ne_eq, not_true_eq_false, decide_false, Bool.false_and, Bool.false_eq_true, if_false]
    by_cases hh : o.hasCb = true
    · cases hf : cfg.cbFail { p with otype := otypeClose } with
      | none => simp [hh, hf]
      | some m => simp [hh, hf]
    · by_cases hd : cfg.defcb = true
      · simp [hh, hd]
      · simp [hh, hd]

/-! ### brackets -/

theorem head_ws_prefix (w : Bytes) (c0 : UInt8) (r : Bytes) (hw : ∀ c ∈ w, Str.isWs c = true)
    (h0 : Str.isWs c0 = false) (b : UInt8) (hb : Str.isWs b = false) (hne : c0 ≠ b) :
    ((w ++ c0 :: r).head? == some b) = false := by
  cases w with
  | nil => simp [hne]
  | cons x w' =>
    have hx : Str.isWs x = true := hw x (by simp)
    have : x ≠ b := by intro h; rw [h, hb] at hx; cases hx
    simp [this]

theorem brackets_open (w1 X w2 : Bytes) (c0 : UInt8) (r0 : Bytes) (hw1 : ∀ c ∈ w1, Str.isWs c = true)
    (hw2 : ∀ c ∈ w2, Str.isWs c = true) (hX : Ini.Tight X) (hX0 : X = c0 :: r0) (h0 : Str.isWs c0 = false)
    (h47 : c0 ≠ 47) :
    brackets (60 :: (w1 ++ X ++ w2 ++ [62])) = .ok (some (otypeOpen, X)) := by
  unfold brackets
  have hl : (60 :: (w1 ++ X ++ w2 ++ [62])).getLast? = some 62 := Ini.getLast?_cons_snoc _ _ _
  have hhead : ((w1 ++ X ++ w2 ++ [62]).head? == some 47) = false := by
    have e : w1 ++ X ++ w2 ++ [62] = w1 ++ c0 :: (r0 ++ w2 ++ [62]) := by rw [hX0]; simp
    rw [e]; exact head_ws_prefix w1 c0 _ hw1 h0 47 (by decide) h47
  have hne : w1 ++ X ++ w2 ++ [62] ≠ [] := by simp
  simp only [List.head?_cons, beq_self_eq_true, if_true, hl, bne_self_eq_false, Bool.false_eq_true, if_false,
    List.drop_succ_cons, List.drop_zero, hhead, hne, List.dropLast_concat]
  rw [Ini.trim_pad w1 X w2 hw1 hw2 hX]

theorem brackets_close (w1 X w2 : Bytes) (hw1 : ∀ c ∈ w1, Str.isWs c = true)
    (hw2 : ∀ c ∈ w2, Str.isWs c = true) (hX : Ini.Tight X) :
    brackets (60 :: 47 :: (w1 ++ X ++ w2 ++ [62])) = .ok (some (otypeClose, X)) := by
  unfold brackets
  have hl : (60 :: 47 :: (w1 ++ X ++ w2 ++ [62])).getLast? = some 62 := by
    have := Ini.getLast?_cons_snoc 60 (47 :: (w1 ++ X ++ w2)) 62
    simpa using this
  have hne : w1 ++ X ++ w2 ++ [62] ≠ [] := by simp
  simp only [List.head?_cons, beq_self_eq_true, if_true, hl, bne_self_eq_false, Bool.false_eq_true, if_false,
    List.drop_succ_cons, List.drop_zero, hne, List.dropLast_concat]
  rw [Ini.trim_pad w1 X w2 hw1 hw2 hX]

/-! ### the loop body once the line is understood -/

/-- what the loop does with the outcome of `dispatch` -/
def afterDispatch (cfg : Cfg) (fuel sectionid : Nat) (parent : Option CbData) (optcount : Nat)
    (st : PState) (otype : Nat) (stp : Step) : Except Fault (PState × Res) :=
  match stp.err with
  | some m => .ok ({ st with events := stp.events.reverse ++ st.events }, .err st.lineno m)
  | none =>
    if otype = otypeOpen then
      match parseInline cfg fuel stp.nsid (some stp.cb) 0 0 { st with events := stp.events.reverse ++ st.events } with
      | .error f => .error f
      | .ok (st2, .err l m) => .ok (st2, .err l m)
      | .ok (st2, .count n2) =>
        parseInline cfg fuel sectionid parent (optcount + n2 + 1) stp.nsid st2
    else if otype = otypeClose then .ok ({ st with events := stp.events.reverse ++ st.events }, .count (optcount + 1))
    else parseInline cfg fuel sectionid parent (optcount + 1) stp.nsid { st with events := stp.events.reverse ++ st.events }

theorem lineBody_ok (cfg : Cfg) (fuel : Nat) (c : Ctx) (parent : Option CbData)
    (hlink : header c.sid parent = c.data 0 []) (oc ns : Nat) (st : PState) (otype : Nat) (argv : List Bytes)
    (stp : Step) (hlev : ¬ (otype = otypeOpen ∧ c.level = 255))
    (hmis : otype = otypeClose → ∃ p, parent = some p ∧ nameEq cfg.ci (argv.headD []) (p.argv.headD []) = true)
    (hdisp : dispatch cfg c.sid parent ns (c.data otype argv) = .ok stp) :
    lineBody cfg fuel c.sid parent oc ns st otype argv = afterDispatch cfg fuel c.sid parent oc st otype stp := by
  unfold lineBody
  have hcb0 : ({ header c.sid parent with otype := otype, argv := argv } : CbData) = c.data otype argv := by
    rw [hlink]; rfl
  have hl : (header c.sid parent).level = c.level := by rw [hlink]; rfl
  have h255 : 2 ^ (8 * sizeofLevel) - 1 = 255 := by decide
  have hc1 : (decide (otype = otypeOpen) && decide ((header c.sid parent).level = 2 ^ (8 * sizeofLevel) - 1)) = false := by
    rw [hl, h255]
    by_cases h1 : otype = otypeOpen
    · have : c.level ≠ 255 := fun h => hlev ⟨h1, h⟩
      simp [this]
    · simp [h1]
  simp only [hc1, Bool.false_eq_true, if_false]
  by_cases h2 : otype = otypeClose
  · obtain ⟨p, hp, hn⟩ := hmis h2
    subst hp
    simp only [Cfg.ci] at hn
    simp only [hn, Bool.not_true, Bool.and_false, Bool.false_eq_true, if_false, hcb0, hdisp]
    rfl
  · unfold afterDispatch
    simp only [h2, decide_false, Bool.false_and, Bool.false_eq_true, if_false, hcb0, hdisp]

/-! ### the three kinds of lines -/

/-- a blank or comment line only advances the line counter (any section) -/
theorem parseInline_skip' (cfg : Cfg) (fuel sid : Nat) (parent : Option CbData) (oc ns ln : Nat) (evs : List Event)
    (line rest : Bytes) (hno : ∀ c ∈ line, c ≠ 10) (hnz : ∀ c ∈ line, c ≠ 0) (hlen : line.length + 1 < maxLineSize)
    (hskip : Str.trim (line ++ [10]) = [] ∨ (Str.trim (line ++ [10])).head? = some 35) :
    parseInline cfg (fuel + 1) sid parent oc ns ⟨line ++ 10 :: rest, ln, evs⟩ =
      parseInline cfg fuel sid parent oc ns ⟨rest, ln + 1, evs⟩ := by
  conv => lhs; unfold parseInline
  simp only [fgets_line line rest hno hlen]
  have htz : (line ++ [10]).takeWhile (· != 0) = line ++ [10] :=
    takeWhile_nonzero _ (by intro c hc; rcases List.mem_append.mp hc with h | h
                            · exact hnz c h
                            · simp at h; subst h; decide)
  rw [htz]
  have hcond : ((Str.trim (line ++ [10]) = []) || ((Str.trim (line ++ [10])).head? == some 35)) = true := by
    rcases hskip with h | h <;> simp [h]
  simp only [drain_nl, Bool.false_and, Bool.false_eq_true, if_false, hcond, if_true]

theorem toList_reverse (ev : Option Event) : ev.toList.reverse = ev.toList := by
  cases ev <;> rfl

theorem step_dir (cfg : Cfg) (c : Ctx) (parent : Option CbData) (hlink : header c.sid parent = c.data 0 [])
    (fuel oc ns ln : Nat) (evs : List Event) (args : List (Bytes × RArg)) (trail rest : Bytes)
    (hok : FLineOk (.dir args trail)) :
    match judgeLine cfg c otypeOption ns (args.map (·.2.text)) with
    | .reject => ∃ msg, parseInline cfg (fuel + 1) c.sid parent oc ns
        ⟨renderLine (.dir args trail) ++ 10 :: rest, ln, evs⟩ = .ok (⟨rest, ln + 1, evs⟩, .err (ln + 1) msg)
    | .refused e => ∃ msg, parseInline cfg (fuel + 1) c.sid parent oc ns
        ⟨renderLine (.dir args trail) ++ 10 :: rest, ln, evs⟩ = .ok (⟨rest, ln + 1, e :: evs⟩, .err (ln + 1) msg)
    | .pass ev _ ns' => parseInline cfg (fuel + 1) c.sid parent oc ns
        ⟨renderLine (.dir args trail) ++ 10 :: rest, ln, evs⟩ =
          parseInline cfg fuel c.sid parent (oc + 1) ns' ⟨rest, ln + 1, ev.toList ++ evs⟩ := by
  obtain ⟨hne, hlo, htr, htexts, hhead, hlen⟩ := hok
  obtain ⟨bl0, X, c0, r0, hX, hbl0, hX0, hfirst, hc0ws, hXtight, htok, h10, h0⟩ := args_facts args ⟨hne, hlo, htexts⟩
  have hc0 : c0 ≠ 60 ∧ c0 ≠ 35 := by
    cases args with
    | nil => exact absurd rfl hne
    | cons a rest' =>
      have h1 := hhead a (by simp)
      have h2 := hfirst a (by simp)
      rw [h2] at h1
      simpa using h1
  have hline10 : ∀ c ∈ renderArgs args ++ trail, c ≠ 10 := by
    intro c hc
    rcases List.mem_append.mp hc with h | h
    · exact h10 c h
    · exact (wsRun_props htr).1 c h
  have hline0 : ∀ c ∈ renderArgs args ++ trail, c ≠ 0 := by
    intro c hc
    rcases List.mem_append.mp hc with h | h
    · exact h0 c h
    · exact (wsRun_props htr).2 c h
  have hlen' : (renderArgs args ++ trail).length + 1 < maxLineSize := by
    simp only [List.length_append]; omega
  have htrim : Str.trim (renderArgs args ++ trail ++ [10]) = X := by
    have e : renderArgs args ++ trail ++ [10] = bl0 ++ X ++ (trail ++ [10]) := by rw [hX]; simp
    rw [e]
    refine Ini.trim_pad bl0 X (trail ++ [10]) hbl0 ?_ hXtight
    intro c hc
    rcases List.mem_append.mp hc with h | h
    · exact wsRun_isWs htr c h
    · simp at h; subst h; decide
  have hbr : brackets X = .ok (some (otypeOption, X)) := by
    unfold brackets
    have : (X.head? == some 60) = false := by rw [hX0]; simp [hc0.1]
    simp [this]
  have hbody := parseInline_line cfg fuel c.sid parent oc ns ln evs (renderArgs args ++ trail) rest X X otypeOption
    (args.map (·.2.text)) hline10 hline0 hlen' htrim (by rw [hX0]; simp) (by rw [hX0]; simp [hc0.2]) hbr htok
  obtain ⟨stp, hdisp, hverdict⟩ := dispatch_line cfg c otypeOption (by decide) parent ns (args.map (·.2.text))
  have hlb := lineBody_ok cfg fuel c parent hlink oc ns ⟨rest, ln + 1, evs⟩ otypeOption (args.map (·.2.text)) stp
    (by intro h; exact absurd h.1 (by decide)) (by intro h; exact absurd h (by decide)) hdisp
  simp only [renderLine]
  rw [hbody, hlb]
  unfold afterDispatch
  have h1 : ¬ (otypeOption = otypeOpen) := by decide
  have h2 : ¬ (otypeOption = otypeClose) := by decide
  simp only [h1, h2, if_false]
  cases hj : judgeLine cfg c otypeOption ns (args.map (·.2.text)) with
  | reject =>
    rw [hj] at hverdict
    obtain ⟨he, hev⟩ := hverdict
    cases hse : stp.err with
    | none => exact absurd hse he
    | some m => exact ⟨m, by simp [hev]⟩
  | refused e =>
    rw [hj] at hverdict
    obtain ⟨he, hev⟩ := hverdict
    cases hse : stp.err with
    | none => exact absurd hse he
    | some m => exact ⟨m, by simp [hev]⟩
  | pass ev argv' ns' =>
    rw [hj] at hverdict
    obtain ⟨he, hev, _, hns⟩ := hverdict
    simp only [he, hev, hns, toList_reverse]

theorem lineBody_deep (cfg : Cfg) (fuel : Nat) (c : Ctx) (parent : Option CbData)
    (hlink : header c.sid parent = c.data 0 []) (oc ns : Nat) (st : PState) (argv : List Bytes)
    (hlev : c.level = 255) :
    lineBody cfg fuel c.sid parent oc ns st otypeOpen argv =
      .ok (st, .err st.lineno (str "Sections are nested too deeply.")) := by
  unfold lineBody
  have hl : (header c.sid parent).level = c.level := by rw [hlink]; rfl
  have h255 : 2 ^ (8 * sizeofLevel) - 1 = 255 := by decide
  simp [hl, h255, hlev]

/-- the facts about a tag line that do not depend on `<` vs `</` -/
theorem tag_facts (t : Tag) (hok : TagOk t) :
    ∃ (w1 X : Bytes) (c0 : UInt8) (r0 : Bytes),
      t.pre ++ renderArgs t.args ++ t.post = w1 ++ X ++ t.post ∧ (∀ c ∈ w1, Str.isWs c = true) ∧
      (∀ c ∈ t.post, Str.isWs c = true) ∧ (∀ c ∈ t.lead, Str.isWs c = true) ∧
      (∀ c ∈ t.trail ++ [10], Str.isWs c = true) ∧
      X = c0 :: r0 ∧ (∀ a ∈ t.args.head?, (renderArg a.2).head? = some c0) ∧ Str.isWs c0 = false ∧ Ini.Tight X ∧
      tokenize X = .ok (.args t.texts) ∧
      (∀ c ∈ t.lead ++ t.pre ++ renderArgs t.args ++ t.post ++ t.trail, c ≠ 10 ∧ c ≠ 0) := by
  obtain ⟨hlead, hpre, hpost, htrail, hargs⟩ := hok
  obtain ⟨bl0, X, c0, r0, hX, hbl0, hX0, hfirst, hc0ws, hXtight, htok, h10, h0⟩ := args_facts t.args hargs
  refine ⟨t.pre ++ bl0, X, c0, r0, by rw [hX]; simp, ?_, wsRun_isWs hpost, wsRun_isWs hlead, ?_, hX0, hfirst, hc0ws,
    hXtight, htok, ?_⟩
  · intro c hc
    rcases List.mem_append.mp hc with h | h
    · exact wsRun_isWs hpre c h
    · exact hbl0 c h
  · intro c hc
    rcases List.mem_append.mp hc with h | h
    · exact wsRun_isWs htrail c h
    · simp at h; subst h; decide
  · intro c hc
    simp only [List.mem_append] at hc
    rcases hc with (((h | h) | h) | h) | h
    · exact ⟨(wsRun_props hlead).1 c h, (wsRun_props hlead).2 c h⟩
    · exact ⟨(wsRun_props hpre).1 c h, (wsRun_props hpre).2 c h⟩
    · exact ⟨h10 c h, h0 c h⟩
    · exact ⟨(wsRun_props hpost).1 c h, (wsRun_props hpost).2 c h⟩
    · exact ⟨(wsRun_props htrail).1 c h, (wsRun_props htrail).2 c h⟩

theorem tight_angle (mid : Bytes) : Ini.Tight (60 :: (mid ++ [62])) := by
  refine ⟨?_, ?_⟩
  · intro c hc; simp at hc; subst hc; decide
  · intro c hc
    rw [Ini.getLast?_cons_snoc] at hc; cases hc; decide

theorem tight_angle' (mid : Bytes) : Ini.Tight (60 :: 47 :: (mid ++ [62])) := by
  have := tight_angle (47 :: mid)
  simpa using this

theorem step_open (cfg : Cfg) (c : Ctx) (parent : Option CbData) (hlink : header c.sid parent = c.data 0 [])
    (fuel oc ns ln : Nat) (evs : List Event) (t : Tag) (rest : Bytes) (hok : OpenOk t) :
    (c.level = 255 → ∃ msg, parseInline cfg (fuel + 1) c.sid parent oc ns ⟨renderOpen t ++ 10 :: rest, ln, evs⟩ =
        .ok (⟨rest, ln + 1, evs⟩, .err (ln + 1) msg)) ∧
    (c.level ≠ 255 →
      match judgeLine cfg c otypeOpen ns t.texts with
      | .reject => ∃ msg, parseInline cfg (fuel + 1) c.sid parent oc ns ⟨renderOpen t ++ 10 :: rest, ln, evs⟩ =
          .ok (⟨rest, ln + 1, evs⟩, .err (ln + 1) msg)
      | .refused e => ∃ msg, parseInline cfg (fuel + 1) c.sid parent oc ns ⟨renderOpen t ++ 10 :: rest, ln, evs⟩ =
          .ok (⟨rest, ln + 1, e :: evs⟩, .err (ln + 1) msg)
      | .pass ev argv ns' => parseInline cfg (fuel + 1) c.sid parent oc ns ⟨renderOpen t ++ 10 :: rest, ln, evs⟩ =
          match parseInline cfg fuel ns' (some (c.data otypeOpen argv)) 0 0 ⟨rest, ln + 1, ev.toList ++ evs⟩ with
          | .error f => .error f
          | .ok (st2, .err l m) => .ok (st2, .err l m)
          | .ok (st2, .count n2) => parseInline cfg fuel c.sid parent (oc + n2 + 1) ns' st2) := by
  obtain ⟨htag, h47, hlen⟩ := hok
  obtain ⟨w1, X, c0, r0, hmid, hw1, hpost, hlead, htrail10, hX0, hfirst, hc0ws, hXtight, htok, hbytes⟩ := tag_facts t htag
  have hc47 : c0 ≠ 47 := by
    have hne := htag.2.2.2.2.1
    cases hA : t.args with
    | nil => exact absurd hA hne
    | cons a rest' =>
      have h1 := h47 a (by simp [hA])
      have h2 := hfirst a (by simp [hA])
      rw [h2] at h1
      simpa using h1
  have hline : renderOpen t = t.lead ++ 60 :: (w1 ++ X ++ t.post ++ [62]) ++ t.trail := by
    unfold renderOpen; rw [hmid]
  have hb : ∀ c ∈ renderOpen t, c ≠ 10 ∧ c ≠ 0 := by
    intro c hc
    have : c ∈ t.lead ++ t.pre ++ renderArgs t.args ++ t.post ++ t.trail ∨ c = 60 ∨ c = 62 := by
      simp only [renderOpen, List.mem_append, List.mem_cons, List.not_mem_nil, or_false] at hc ⊢
      grind
    rcases this with h | h | h
    · exact hbytes c h
    · subst h; decide
    · subst h; decide
  have htrim : Str.trim (renderOpen t ++ [10]) = 60 :: (w1 ++ X ++ t.post ++ [62]) := by
    have e : renderOpen t ++ [10] = t.lead ++ 60 :: (w1 ++ X ++ t.post ++ [62]) ++ (t.trail ++ [10]) := by
      rw [hline]; simp
    rw [e]
    exact Ini.trim_pad _ _ _ hlead htrail10 (tight_angle _)
  have hbr := brackets_open w1 X t.post c0 r0 hw1 hpost hXtight hX0 hc0ws hc47
  have hbody := parseInline_line cfg fuel c.sid parent oc ns ln evs (renderOpen t) rest _ X otypeOpen
    t.texts (fun c hc => (hb c hc).1) (fun c hc => (hb c hc).2) hlen htrim (by simp) (by simp) hbr htok
  rw [hbody]
  refine ⟨?_, ?_⟩
  · intro hlev
    rw [lineBody_deep cfg fuel c parent hlink oc ns _ _ hlev]
    exact ⟨_, rfl⟩
  · intro hlev
    obtain ⟨stp, hdisp, hverdict⟩ := dispatch_line cfg c otypeOpen (by decide) parent ns t.texts
    have hlb := lineBody_ok cfg fuel c parent hlink oc ns ⟨rest, ln + 1, evs⟩ otypeOpen t.texts stp
      (by intro h; exact hlev h.2) (by intro h; exact absurd h (by decide)) hdisp
    rw [hlb]
    unfold afterDispatch
    simp only [if_true]
    cases hj : judgeLine cfg c otypeOpen ns t.texts with
    | reject =>
      rw [hj] at hverdict
      obtain ⟨he, hev⟩ := hverdict
      cases hse : stp.err with
      | none => exact absurd hse he
      | some m => exact ⟨m, by simp [hev]⟩
    | refused e =>
      rw [hj] at hverdict
      obtain ⟨he, hev⟩ := hverdict
      cases hse : stp.err with
      | none => exact absurd hse he
      | some m => exact ⟨m, by simp [hev]⟩
    | pass ev argv' ns' =>
      rw [hj] at hverdict
      obtain ⟨he, hev, hcb, hns⟩ := hverdict
      simp only [he, hev, hns, hcb, toList_reverse]

theorem step_close (cfg : Cfg) (inner : Ctx) (p : CbData) (hlink : header inner.sid (some p) = inner.data 0 [])
    (fuel oc ns ln : Nat) (evs : List Event) (t : Tag) (rest : Bytes) (hok : CloseOk t)
    (hname : nameEq cfg.ci (t.texts.headD []) (p.argv.headD []) = true) :
    match judgeClose cfg inner p t.texts with
    | .reject => ∃ msg, parseInline cfg (fuel + 1) inner.sid (some p) oc ns ⟨renderClose t ++ 10 :: rest, ln, evs⟩ =
        .ok (⟨rest, ln + 1, evs⟩, .err (ln + 1) msg)
    | .refused e => ∃ msg, parseInline cfg (fuel + 1) inner.sid (some p) oc ns ⟨renderClose t ++ 10 :: rest, ln, evs⟩ =
        .ok (⟨rest, ln + 1, e :: evs⟩, .err (ln + 1) msg)
    | .pass ev _ _ => parseInline cfg (fuel + 1) inner.sid (some p) oc ns ⟨renderClose t ++ 10 :: rest, ln, evs⟩ =
        .ok (⟨rest, ln + 1, ev.toList ++ evs⟩, .count (oc + 1)) := by
  obtain ⟨htag, hlen⟩ := hok
  obtain ⟨w1, X, c0, r0, hmid, hw1, hpost, hlead, htrail10, hX0, hfirst, hc0ws, hXtight, htok, hbytes⟩ := tag_facts t htag
  have hline : renderClose t = t.lead ++ 60 :: 47 :: (w1 ++ X ++ t.post ++ [62]) ++ t.trail := by
    unfold renderClose; rw [hmid]
  have hb : ∀ c ∈ renderClose t, c ≠ 10 ∧ c ≠ 0 := by
    intro c hc
    have : c ∈ t.lead ++ t.pre ++ renderArgs t.args ++ t.post ++ t.trail ∨ c = 60 ∨ c = 47 ∨ c = 62 := by
      simp only [renderClose, List.mem_append, List.mem_cons, List.not_mem_nil, or_false] at hc ⊢
      grind
    rcases this with h | h | h | h
    · exact hbytes c h
    · subst h; decide
    · subst h; decide
    · subst h; decide
  have htrim : Str.trim (renderClose t ++ [10]) = 60 :: 47 :: (w1 ++ X ++ t.post ++ [62]) := by
    have e : renderClose t ++ [10] = t.lead ++ 60 :: 47 :: (w1 ++ X ++ t.post ++ [62]) ++ (t.trail ++ [10]) := by
      rw [hline]; simp
    rw [e]
    exact Ini.trim_pad _ _ _ hlead htrail10 (tight_angle' _)
  have hbr := brackets_close w1 X t.post hw1 hpost hXtight
  have hbody := parseInline_line cfg fuel inner.sid (some p) oc ns ln evs (renderClose t) rest _ X otypeClose
    t.texts (fun c hc => (hb c hc).1) (fun c hc => (hb c hc).2) hlen htrim (by simp) (by simp) hbr htok
  rw [hbody]
  obtain ⟨stp, hdisp, hverdict⟩ := dispatch_close cfg inner p ns t.texts
  have hlb := lineBody_ok cfg fuel inner (some p) hlink oc ns ⟨rest, ln + 1, evs⟩ otypeClose t.texts stp
    (by intro h; exact absurd h.1 (by decide)) (by intro _; exact ⟨p, rfl, hname⟩) hdisp
  rw [hlb]
  unfold afterDispatch
  have h1 : ¬ (otypeClose = otypeOpen) := by decide
  simp only [h1, if_false, if_true]
  cases hj : judgeClose cfg inner p t.texts with
  | reject =>
    rw [hj] at hverdict
    obtain ⟨he, hev⟩ := hverdict
    cases hse : stp.err with
    | none => exact absurd hse he
    | some m => exact ⟨m, by simp [hev]⟩
  | refused e =>
    rw [hj] at hverdict
    obtain ⟨he, hev⟩ := hverdict
    cases hse : stp.err with
    | none => exact absurd hse he
    | some m => exact ⟨m, by simp [hev]⟩
  | pass ev argv' ns' =>
    rw [hj] at hverdict
    obtain ⟨he, hev⟩ := hverdict
    simp only [he, hev, toList_reverse]

/-! ### the induction over the document -/

/-- number of loop iterations the document costs on its own level -/
def AcDoc.top : AcDoc → Nat
  | .nil => 0
  | .line _ rest => rest.top + 1
  | .sect _ _ _ rest => rest.top + 1

theorem top_le (d : AcDoc) : d.top ≤ (renderAc d).length := by
  induction d with
  | nil => simp [AcDoc.top]
  | line l rest ih => simp only [AcDoc.top, renderAc, List.length_append, List.length_cons]; omega
  | sect o body cl rest _ ih => simp only [AcDoc.top, renderAc, List.length_append, List.length_cons]; omega

theorem judgeLine_head (cfg : Cfg) (c : Ctx) (otype ns : Nat) (texts : List Bytes) (ev : Option Event)
    (argv : List Bytes) (ns' : Nat) (h : judgeLine cfg c otype ns texts = .pass ev argv ns') :
    argv.headD [] = texts.headD [] := by
  unfold judgeLine at h
  simp only [] at h
  split at h
  · split at h
    · cases h; rfl
    · split at h
      · cases h
      · cases h; rfl
  · split at h
    · cases h
    · split at h
      · cases h
      · split at h
        · cases h
        · split at h
          · split at h
            · cases h; rfl
            · cases h
          · split at h
            · cases h; rfl
            · cases h; rfl

theorem header_enter (c : Ctx) (ot nsid : Nat) (argv : List Bytes) (hl : c.level < 255) :
    header nsid (some (c.data ot argv)) = (c.enter nsid argv).data 0 [] := by
  simp only [header, Ctx.data, Ctx.enter]
  have : (c.level + 1) % 2 ^ (8 * sizeofLevel) = c.level + 1 := by
    apply Nat.mod_eq_of_lt
    have : 2 ^ (8 * sizeofLevel) = 256 := by decide
    omega
  rw [this]

/-- the generalisation: run on `render d ++ tail` in any section, the loop either stops at the first
    offence of `d`, or hands over to the rest of the file with the state `specDoc` predicts -/
theorem parseInline_doc (cfg : Cfg) (d : AcDoc) :
    ∀ (c : Ctx) (parent : Option CbData) (fuel oc ns ln : Nat) (evs : List Event) (tail : Bytes),
    DocOk cfg.ci d → header c.sid parent = c.data 0 [] → c.level ≤ 255 →
    (renderAc d ++ tail).length < fuel →
    (∀ evs' k, specDoc cfg d c ln oc ns evs = (evs', .error k) →
      ∃ inp msg, parseInline cfg fuel c.sid parent oc ns ⟨renderAc d ++ tail, ln, evs⟩ =
        .ok (⟨inp, k, evs'⟩, .err k msg)) ∧
    (∀ evs' ln' oc', specDoc cfg d c ln oc ns evs = (evs', .ok (ln', oc')) →
      parseInline cfg fuel c.sid parent oc ns ⟨renderAc d ++ tail, ln, evs⟩ =
        parseInline cfg (fuel - d.top) c.sid parent oc' (nsAfter cfg d c ns) ⟨tail, ln', evs'⟩) := by
  induction d with
  | nil =>
    intro c parent fuel oc ns ln evs tail _ _ _ _
    simp only [specDoc, nsAfter, renderAc, List.nil_append, AcDoc.top, Nat.sub_zero]
    refine ⟨?_, ?_⟩
    · intro evs' k h; cases h
    · intro evs' ln' oc' h; cases h; rfl
  | line l rest ih =>
    intro c parent fuel oc ns ln evs tail hok hlink hlev hf
    obtain ⟨hl, hokr⟩ := hok
    cases fuel with
    | zero => simp at hf
    | succ f =>
    have hshape : renderAc (.line l rest) ++ tail = renderLine l ++ 10 :: (renderAc rest ++ tail) := by
      simp [renderAc]
    have hfr : (renderAc rest ++ tail).length < f := by
      rw [hshape] at hf
      simp only [List.length_append, List.length_cons] at hf ⊢; omega
    have htop : f + 1 - (AcDoc.line l rest).top = f - rest.top := by simp only [AcDoc.top]; omega
    rw [hshape, htop]
    cases l with
    | blank ws =>
      obtain ⟨hws, hlen⟩ := hl
      have hp := wsRun_props hws
      simp only [renderLine]
      rw [parseInline_skip' cfg f c.sid parent oc ns ln evs ws _ hp.1 hp.2 hlen (Or.inl (by
        have := Ini.trim_pad (ws ++ [10]) [] [] (by
          intro c hc; rcases List.mem_append.mp hc with h | h
          · exact wsRun_isWs hws c h
          · simp at h; subst h; decide) (by simp) ⟨by simp, by simp⟩
        simpa using this))]
      simp only [specDoc, nsAfter]
      exact ih c parent f oc ns (ln + 1) evs tail hokr hlink hlev hfr
    | comment ws text =>
      obtain ⟨hws, htext, hlen⟩ := hl
      simp only [renderLine]
      have := parseInline_comment cfg f c.sid parent oc ns ln evs ws text (10 :: (renderAc rest ++ tail)) hws htext hlen
        (Or.inr ⟨_, rfl⟩) (by intro h; cases h)
      simp only [List.drop_succ_cons, List.drop_zero] at this
      rw [this]
      simp only [specDoc, nsAfter]
      exact ih c parent f oc ns (ln + 1) evs tail hokr hlink hlev hfr
    | dir args trail =>
      have hd := step_dir cfg c parent hlink f oc ns ln evs args trail (renderAc rest ++ tail) hl
      simp only [specDoc, nsAfter]
      cases hj : judgeLine cfg c otypeOption ns (args.map (·.2.text)) with
      | reject =>
        rw [hj] at hd
        obtain ⟨msg, h⟩ := hd
        refine ⟨?_, ?_⟩
        · intro evs' k he; cases he; exact ⟨_, msg, h⟩
        · intro evs' ln' oc' he; cases he
      | refused e =>
        rw [hj] at hd
        obtain ⟨msg, h⟩ := hd
        refine ⟨?_, ?_⟩
        · intro evs' k he; cases he; exact ⟨_, msg, h⟩
        · intro evs' ln' oc' he; cases he
      | pass ev argv' ns' =>
        rw [hj] at hd
        simp only [] at hd ⊢
        rw [hd]
        exact ih c parent f (oc + 1) ns' (ln + 1) (ev.toList ++ evs) tail hokr hlink hlev hfr
  | sect o body cl rest ihb ihr =>
    intro c parent fuel oc ns ln evs tail hok hlink hlev hf
    obtain ⟨hoo, hco, hnm, hokb, hokr⟩ := hok
    cases fuel with
    | zero => simp at hf
    | succ f =>
    have hshape : renderAc (.sect o body cl rest) ++ tail =
        renderOpen o ++ 10 :: (renderAc body ++ (renderClose cl ++ 10 :: (renderAc rest ++ tail))) := by
      simp [renderAc]
    rw [hshape] at hf
    simp only [List.length_append, List.length_cons] at hf
    have htop : f + 1 - (AcDoc.sect o body cl rest).top = f - rest.top := by simp only [AcDoc.top]; omega
    rw [hshape, htop]
    obtain ⟨hdeep, hopen⟩ := step_open cfg c parent hlink f oc ns ln evs o
      (renderAc body ++ (renderClose cl ++ 10 :: (renderAc rest ++ tail))) hoo
    by_cases hl : c.level = 255
    · obtain ⟨msg, h⟩ := hdeep hl
      simp only [specDoc, nsAfter, hl, if_true]
      refine ⟨?_, ?_⟩
      · intro evs' k he; cases he; exact ⟨_, msg, h⟩
      · intro evs' ln' oc' he; cases he
    · have hopen := hopen hl
      simp only [specDoc, nsAfter, hl, if_false]
      cases hj : judgeLine cfg c otypeOpen ns o.texts with
      | reject =>
        rw [hj] at hopen
        obtain ⟨msg, h⟩ := hopen
        refine ⟨?_, ?_⟩
        · intro evs' k he; cases he; exact ⟨_, msg, h⟩
        · intro evs' ln' oc' he; cases he
      | refused e =>
        rw [hj] at hopen
        obtain ⟨msg, h⟩ := hopen
        refine ⟨?_, ?_⟩
        · intro evs' k he; cases he; exact ⟨_, msg, h⟩
        · intro evs' ln' oc' he; cases he
      | pass ev argv ns1 =>
        rw [hj] at hopen
        simp only [] at hopen ⊢
        rw [hopen]
        have hlt : c.level < 255 := by omega
        have hlink' : header (c.enter ns1 argv).sid (some (c.data otypeOpen argv)) = (c.enter ns1 argv).data 0 [] :=
          header_enter c otypeOpen ns1 argv hlt
        have hib := ihb (c.enter ns1 argv) (some (c.data otypeOpen argv)) f 0 0 (ln + 1) (ev.toList ++ evs)
          (renderClose cl ++ 10 :: (renderAc rest ++ tail)) hokb hlink' (by simp only [Ctx.enter]; omega)
          (by simp only [List.length_append, List.length_cons]; omega)
        have hsid : (c.enter ns1 argv).sid = ns1 := rfl
        rw [hsid] at hib
        cases hsb : specDoc cfg body (c.enter ns1 argv) (ln + 1) 0 0 (ev.toList ++ evs) with
        | mk evs2 r2 =>
        cases r2 with
        | error k =>
          obtain ⟨inp, msg, h⟩ := hib.1 evs2 k hsb
          rw [h]
          simp only []
          refine ⟨?_, ?_⟩
          · intro evs' k' he; cases he; exact ⟨_, msg, rfl⟩
          · intro evs' ln' oc' he; cases he
        | ok pr =>
          obtain ⟨ln2, n2⟩ := pr
          have h := hib.2 evs2 ln2 n2 hsb
          generalize nsAfter cfg body (c.enter ns1 argv) 0 = ns2 at h
          rw [h]
          have hbt := top_le body
          have hfc : f - body.top = (f - body.top - 1) + 1 := by omega
          rw [hfc]
          have hname : nameEq cfg.ci (cl.texts.headD []) ((c.data otypeOpen argv).argv.headD []) = true := by
            have := judgeLine_head cfg c otypeOpen ns o.texts ev argv ns1 hj
            simp only [Ctx.data, this]
            exact hnm
          have hcl := step_close cfg (c.enter ns1 argv) (c.data otypeOpen argv) hlink' (f - body.top - 1) n2 ns2 ln2
            evs2 cl (renderAc rest ++ tail) hco hname
          rw [hsid] at hcl
          simp only []
          cases hjc : judgeClose cfg (c.enter ns1 argv) (c.data otypeOpen argv) cl.texts with
          | reject =>
            rw [hjc] at hcl
            obtain ⟨msg, h2⟩ := hcl
            rw [h2]
            simp only []
            refine ⟨?_, ?_⟩
            · intro evs' k' he; cases he; exact ⟨_, msg, rfl⟩
            · intro evs' ln' oc' he; cases he
          | refused e =>
            rw [hjc] at hcl
            obtain ⟨msg, h2⟩ := hcl
            rw [h2]
            simp only []
            refine ⟨?_, ?_⟩
            · intro evs' k' he; cases he; exact ⟨_, msg, rfl⟩
            · intro evs' ln' oc' he; cases he
          | pass ev' a' n' =>
            rw [hjc] at hcl
            simp only [] at hcl
            rw [hcl]
            simp only []
            exact ihr c parent f (oc + (n2 + 1) + 1) ns1 (ln2 + 1) (ev'.toList ++ evs2) tail hokr hlink hlev
              (by simp only [List.length_append]; omega)

/-! ### the whole file -/

theorem parse_nested (cfg : Cfg) (d : AcDoc) (hok : DocOk cfg.ci d) :
    (parse cfg (renderAc d)).map (fun x => (x.1, x.2.toF)) = .ok (specNested cfg d) := by
  have h := parseInline_doc cfg d Ctx.root none ((renderAc d).length + 1) 0 0 0 [] [] hok rfl (by decide)
    (by simp)
  simp only [List.append_nil] at h
  have hsid : Ctx.root.sid = qacSectionRoot := rfl
  rw [hsid] at h
  unfold parse specNested
  cases hs : specDoc cfg d Ctx.root 0 0 0 [] with
  | mk evs' r =>
  cases r with
  | error k =>
    obtain ⟨inp, msg, hp⟩ := h.1 evs' k hs
    rw [hp]
    simp [Except.map, Res.toF]
  | ok pr =>
    obtain ⟨ln', oc'⟩ := pr
    have hp := h.2 evs' ln' oc' hs
    rw [hp]
    have hpos : (renderAc d).length + 1 - d.top = ((renderAc d).length - d.top) + 1 := by
      have := top_le d; omega
    rw [hpos]
    simp [parseInline, fgets, Except.map, Res.toF]

/-! ### reading `specDoc` -/

theorem specDoc_eq_walk (cfg : Cfg) (d : AcDoc) : ∀ (c : Ctx) (ln oc ns : Nat) (evs : List Event),
    specDoc cfg d c ln oc ns evs =
      ((walk cfg d c ns).1.reverse ++ evs,
        match (walk cfg d c ns).2 with
        | some i => .error (ln + i)
        | none => .ok (ln + d.lines, oc + (d.directives + 2 * d.sections))) := by
  induction d with
  | nil => intro c ln oc ns evs; simp [specDoc, walk, AcDoc.lines, AcDoc.directives, AcDoc.sections]
  | line l rest ih =>
    intro c ln oc ns evs
    cases l with
    | blank ws =>
      simp only [specDoc, walk, ih, AcDoc.lines, AcDoc.directives, AcDoc.sections]
      cases (walk cfg rest c ns).2 <;> simp [toList_reverse] <;> omega
    | comment ws text =>
      simp only [specDoc, walk, ih, AcDoc.lines, AcDoc.directives, AcDoc.sections]
      cases (walk cfg rest c ns).2 <;> simp [toList_reverse] <;> omega
    | dir args trail =>
      simp only [specDoc, walk, AcDoc.lines, AcDoc.directives, AcDoc.sections]
      cases judgeLine cfg c otypeOption ns (args.map (·.2.text)) with
      | reject => simp
      | refused e => simp
      | pass ev argv' ns' =>
        simp only [ih]
        cases (walk cfg rest c ns').2 <;> simp [toList_reverse] <;> omega
  | sect o body cl rest ihb ihr =>
    intro c ln oc ns evs
    simp only [specDoc, walk, AcDoc.lines, AcDoc.directives, AcDoc.sections]
    by_cases hl : c.level = 255
    · simp [hl]
    · simp only [hl, if_false]
      cases judgeLine cfg c otypeOpen ns o.texts with
      | reject => simp
      | refused e => simp
      | pass ev argv ns' =>
        simp only [ihb]
        cases hw : walk cfg body (c.enter ns' argv) 0 with
        | mk es off =>
        cases off with
        | some i => simp [toList_reverse] <;> omega
        | none =>
          simp only []
          cases judgeClose cfg (c.enter ns' argv) (c.data otypeOpen argv) cl.texts with
          | reject => simp [toList_reverse] <;> omega
          | refused e => simp [toList_reverse] <;> omega
          | pass ev' a' n' =>
            simp only [ihr]
            cases (walk cfg rest c ns').2 <;> simp [toList_reverse] <;> omega

/-- there is no offence exactly when the document conforms -/
theorem walk_conforms (cfg : Cfg) (d : AcDoc) : ∀ (c : Ctx) (ns : Nat),
    (walk cfg d c ns).2 = none ↔ Conforms cfg d c ns := by
  induction d with
  | nil => intro c ns; simp [walk, Conforms]
  | line l rest ih =>
    intro c ns
    cases l with
    | blank ws => simp only [walk, Conforms, Option.map_eq_none_iff]; exact ih c ns
    | comment ws text => simp only [walk, Conforms, Option.map_eq_none_iff]; exact ih c ns
    | dir args trail =>
      simp only [walk, Conforms]
      cases judgeLine cfg c otypeOption ns (args.map (·.2.text)) with
      | reject => simp
      | refused e => simp
      | pass ev argv' ns' => simp only [Option.map_eq_none_iff]; exact ih c ns'
  | sect o body cl rest ihb ihr =>
    intro c ns
    simp only [walk, Conforms]
    by_cases hl : c.level = 255
    · simp [hl]
    · simp only [hl, if_false, ne_eq, not_false_eq_true, true_and]
      cases judgeLine cfg c otypeOpen ns o.texts with
      | reject => simp
      | refused e => simp
      | pass ev argv ns' =>
        simp only []
        have hb := ihb (c.enter ns' argv) 0
        cases hw : walk cfg body (c.enter ns' argv) 0 with
        | mk es off =>
        rw [hw] at hb
        cases off with
        | some i =>
          simp only [] at hb ⊢
          constructor
          · intro h; cases h
          · intro h; exact absurd (hb.mpr h.1) (by simp)
        | none =>
          simp only [] at hb ⊢
          have hb' := hb.mp trivial
          cases judgeClose cfg (c.enter ns' argv) (c.data otypeOpen argv) cl.texts with
          | reject => simp
          | refused e => simp
          | pass ev' a' n' =>
            simp only [Option.map_eq_none_iff, hb', true_and]
            exact ihr c ns'

/-- the first offence is one of the document's lines -/
theorem walk_bound (cfg : Cfg) (d : AcDoc) : ∀ (c : Ctx) (ns i : Nat),
    (walk cfg d c ns).2 = some i → 1 ≤ i ∧ i ≤ d.lines := by
  induction d with
  | nil => intro c ns i h; simp [walk] at h
  | line l rest ih =>
    intro c ns i h
    cases l with
    | blank ws =>
      simp only [walk, Option.map_eq_some_iff] at h
      obtain ⟨j, hj, rfl⟩ := h
      have := ih c ns j hj
      simp only [AcDoc.lines]; omega
    | comment ws text =>
      simp only [walk, Option.map_eq_some_iff] at h
      obtain ⟨j, hj, rfl⟩ := h
      have := ih c ns j hj
      simp only [AcDoc.lines]; omega
    | dir args trail =>
      simp only [walk] at h
      cases hj : judgeLine cfg c otypeOption ns (args.map (·.2.text)) with
      | reject => rw [hj] at h; simp at h; subst h; simp only [AcDoc.lines]; omega
      | refused e => rw [hj] at h; simp at h; subst h; simp only [AcDoc.lines]; omega
      | pass ev argv' ns' =>
        rw [hj] at h
        simp only [Option.map_eq_some_iff] at h
        obtain ⟨j, hj', rfl⟩ := h
        have := ih c ns' j hj'
        simp only [AcDoc.lines]; omega
  | sect o body cl rest ihb ihr =>
    intro c ns i h
    simp only [walk] at h
    simp only [AcDoc.lines]
    by_cases hl : c.level = 255
    · simp [hl] at h; omega
    · simp only [hl, if_false] at h
      cases hj : judgeLine cfg c otypeOpen ns o.texts with
      | reject => rw [hj] at h; simp at h; omega
      | refused e => rw [hj] at h; simp at h; omega
      | pass ev argv ns' =>
        rw [hj] at h
        simp only [] at h
        cases hw : walk cfg body (c.enter ns' argv) 0 with
        | mk es off =>
        rw [hw] at h
        cases off with
        | some j =>
          simp only [Option.some.injEq] at h
          have := ihb (c.enter ns' argv) 0 j (by rw [hw])
          omega
        | none =>
          simp only [] at h
          cases hjc : judgeClose cfg (c.enter ns' argv) (c.data otypeOpen argv) cl.texts with
          | reject => rw [hjc] at h; simp at h; omega
          | refused e => rw [hjc] at h; simp at h; omega
          | pass ev' a' n' =>
            rw [hjc] at h
            simp only [Option.map_eq_some_iff] at h
            obtain ⟨j, hj', rfl⟩ := h
            have := ihr c ns' j hj'
            omega

/-- `specNested` in the shape of the C20 statement -/
theorem specNested_eq (cfg : Cfg) (d : AcDoc) :
    specNested cfg d =
      (callbacks cfg d,
        match firstOffenceLine cfg d with
        | none => .count (d.directives + 2 * d.sections)
        | some i => .errLine i) := by
  unfold specNested callbacks firstOffenceLine
  rw [specDoc_eq_walk]
  cases (walk cfg d Ctx.root 0).2 <;> simp

end Qlibc.Conf.Aconf

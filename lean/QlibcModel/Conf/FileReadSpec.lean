/-
  `qfile_read`: for EVERY stream content and every `nbytes` argument the model returns without a
  fault; the block holds exactly the bytes read followed by the terminator.
-/
import QlibcModel.Conf.FileRead

namespace Qlibc.Conf.FileRead
open Qlibc

theorem wr_at_end (pre : Bytes) (p : UInt8) (pad : Bytes) (c : UInt8) :
    wr (pre ++ p :: pad) pre.length c = .ok (pre ++ c :: pad) := by
  unfold wr
  rw [if_pos (by simp)]
  congr 1
  rw [List.set_append_right _ _ (Nat.le_refl _)]
  simp

/-- the bytes `qfile_read` takes from a stream that will deliver `inp`, after `have` were taken -/
def want (size : Nat) (have_ : Nat) (inp : Bytes) : Bytes :=
  if 0 < size then inp.take (size - have_) else inp

theorem readLoop_spec (size : Nat) : ∀ (rest pre pad : Bytes) (m : Nat),
    1 ≤ pre.length → pad.length + pre.length = m + 1 →
    (pre.length ≤ m - 1 ∨ (0 < size ∧ pre.length = size ∧ pre.length ≤ m)) →
    (0 < size → pre.length ≤ size) →
    ∃ (p' : UInt8) (pad' : Bytes) (e : Bool),
      readLoop size rest (some (pre ++ pad)) m pre.length
        = .ok (some ((pre ++ want size pre.length rest) ++ p' :: pad'), (pre ++ want size pre.length rest).length, e) := by
  intro rest
  induction rest with
  | nil =>
    intro pre pad m h1 hlen hinv hsz
    have hw : want size pre.length [] = [] := by unfold want; split <;> simp
    rw [hw]
    cases pad with
    | nil => simp at hlen; omega
    | cons p pad' => exact ⟨p, pad', true, by simp [readLoop]⟩
  | cons c rest ih =>
    intro pre pad m h1 hlen hinv hsz
    unfold readLoop
    by_cases hstop : 0 < size ∧ pre.length = size
    · rw [if_pos hstop]
      have hw : want size pre.length (c :: rest) = [] := by
        unfold want; rw [if_pos hstop.1, hstop.2]; simp
      rw [hw]
      cases pad with
      | nil => simp at hlen; omega
      | cons p pad' => exact ⟨p, pad', false, by simp⟩
    · rw [if_neg hstop]
      have hlt : pre.length ≤ m - 1 := by
        rcases hinv with h | ⟨h0, h1', _⟩
        · exact h
        · exact absurd ⟨h0, h1'⟩ hstop
      have hww : want size pre.length (c :: rest) = c :: want size (pre.length + 1) rest := by
        unfold want
        by_cases h0 : 0 < size
        · rw [if_pos h0, if_pos h0]
          have : size - pre.length = (size - (pre.length + 1)) + 1 := by
            have := hsz h0
            have : pre.length ≠ size := fun h => hstop ⟨h0, h⟩
            omega
          rw [this, List.take_succ_cons]
        · rw [if_neg h0, if_neg h0]
      by_cases hg : pre.length = m - 1
      · -- growth
        have hstep : step (some (pre ++ pad)) m pre.length c
            = .ok (pre ++ c :: List.replicate (2 * m - pre.length) fillByte, 2 * m) := by
          unfold step
          rw [if_neg (by omega)]
          simp only []
          rw [if_pos hg]
          unfold grow
          rw [if_pos (by simp)]
          simp only [bind, Except.bind, pure, Except.pure]
          have ht : (pre ++ pad).take pre.length = pre := by simp
          rw [ht]
          have hr : 2 * m + 1 - pre.length = (2 * m - pre.length) + 1 := by omega
          rw [hr, List.replicate_succ, wr_at_end]
        rw [hstep]
        simp only []
        have := ih (pre ++ [c]) (List.replicate (2 * m - pre.length) fillByte) (2 * m)
          (by simp) (by simp; omega) (Or.inl (by simp; omega)) (by
            intro h0; have := hsz h0
            have : pre.length ≠ size := fun h => hstop ⟨h0, h⟩
            simp; omega)
        obtain ⟨p', pad', e, hrun⟩ := this
        refine ⟨p', pad', e, ?_⟩
        rw [hww]
        simp only [List.length_append, List.length_cons, List.length_nil, List.append_assoc,
          List.cons_append, List.nil_append] at hrun ⊢
        exact hrun
      · have hstep : ∃ p pad2, pad = p :: pad2 ∧ step (some (pre ++ pad)) m pre.length c
            = .ok (pre ++ c :: pad2, m) := by
          cases pad with
          | nil => simp at hlen; omega
          | cons p pad2 =>
            refine ⟨p, pad2, rfl, ?_⟩
            unfold step
            rw [if_neg (by omega)]
            simp only [hg, if_false]
            simp only [bind, Except.bind, pure, Except.pure]
            rw [wr_at_end]
        obtain ⟨p, pad2, hp, hstep⟩ := hstep
        rw [hstep]
        simp only []
        subst hp
        have := ih (pre ++ [c]) pad2 m (by simp) (by simp at hlen ⊢; omega) (Or.inl (by simp; omega)) (by
            intro h0; have := hsz h0
            have : pre.length ≠ size := fun h => hstop ⟨h0, h⟩
            simp; omega)
        obtain ⟨p', pad', e, hrun⟩ := this
        refine ⟨p', pad', e, ?_⟩
        rw [hww]
        simp only [List.length_append, List.length_cons, List.length_nil, List.append_assoc,
          List.cons_append, List.nil_append] at hrun ⊢
        exact hrun

/-- the bytes delivered for an `nbytes` argument (`none`: NULL pointer, `some 0`: no limit) -/
def taken (nbytes : Option Nat) (inp : Bytes) : Bytes := want (nbytes.getD 0) 0 inp

/-- `qfile_read` never faults: NULL for an empty stream, otherwise a block that starts with the
    bytes read and their terminator, and the count -/
theorem qfileRead_spec (nbytes : Option Nat) (inp : Bytes) :
    ∃ pad, qfileRead nbytes inp
      = .ok (if inp = [] then none else some (taken nbytes inp ++ 0 :: pad, (taken nbytes inp).length)) := by
  cases inp with
  | nil => exact ⟨[], by simp [qfileRead, readLoop, bind, Except.bind, pure, Except.pure]⟩
  | cons c rest =>
    simp only [reduceCtorEq, if_false]
    unfold qfileRead
    simp only []
    generalize hm : (if 0 < nbytes.getD 0 then nbytes.getD 0 else 1024) = m
    have hm1 : 1 ≤ m := by rw [← hm]; split <;> omega
    unfold readLoop
    rw [if_neg (by omega)]
    have hstep : step none m 0 c = .ok (c :: List.replicate m fillByte, m) := by
      unfold step
      simp only [if_true, bind, Except.bind, pure, Except.pure, List.replicate_succ]
      rw [show wr (fillByte :: List.replicate m fillByte) 0 c = .ok (c :: List.replicate m fillByte) from
        wr_at_end [] fillByte _ c]
    rw [hstep]
    simp only []
    have := readLoop_spec (nbytes.getD 0) rest [c] (List.replicate m fillByte) m (by simp) (by simp)
      (by
        by_cases h2 : 2 ≤ m
        · left; simp; omega
        · right
          have : m = 1 := by omega
          subst this
          have : 0 < nbytes.getD 0 := by
            by_cases h : 0 < nbytes.getD 0
            · exact h
            · rw [if_neg h] at hm; omega
          rw [if_pos this] at hm
          exact ⟨this, by simp [hm], by simp⟩)
      (by intro h0; rw [if_pos h0] at hm; simp; omega)
    obtain ⟨p', pad', e, hrun⟩ := this
    simp only [List.length_cons, List.length_nil, Nat.zero_add, List.cons_append, List.nil_append] at hrun
    simp only [Nat.zero_add]
    rw [hrun]
    have htk : taken nbytes (c :: rest) = [c] ++ want (nbytes.getD 0) 1 rest := by
      unfold taken want
      by_cases h0 : 0 < nbytes.getD 0
      · rw [if_pos h0, if_pos h0]
        have : nbytes.getD 0 - 0 = (nbytes.getD 0 - 1) + 1 := by omega
        rw [this, List.take_succ_cons]; rfl
      · rw [if_neg h0, if_neg h0]; rfl
    refine ⟨pad', ?_⟩
    simp only [bind, Except.bind, pure, Except.pure]
    rw [if_neg (by simp)]
    have hw := wr_at_end (c :: want (nbytes.getD 0) 1 rest) p' pad' 0
    simp only [List.cons_append, List.length_cons] at hw
    rw [hw, htk]
    simp

end Qlibc.Conf.FileRead

/-
  C20: `qconfig_parse_file` and the `@INCLUDE ` directive — a text in which no line begins with the
  9-byte directive is parsed exactly like `qconfig_parse_str`; the first directive line is replaced by
  the file's content and nothing else changes.
-/
import QlibcModel.Conf.IniTotal
namespace Qlibc.Conf.Ini
open Qlibc Qlibc.Generated.Conf

/-- some line of `s` begins with the directive text `"@INCLUDE "` (all 9 bytes, the blank included):
    an occurrence at the very beginning or right behind a newline -/
def LineStartsWithDirective (s : Bytes) : Prop :=
  ∃ pre post, s = pre ++ directive ++ post ∧ (pre = [] ∨ pre.getLast? = some 10)

theorem isPrefixOf_split {a s : Bytes} (h : a.isPrefixOf s = true) : ∃ post, s = a ++ post := by
  obtain ⟨t, ht⟩ := List.isPrefixOf_iff_prefix.mp h
  exact ⟨t, ht.symm⟩

/-- the search finds nothing when no occurrence stands at the beginning of a line; `atStart` says whether
    the cursor is at the beginning of a line -/
theorem findInclude_none (s : Bytes) : ∀ (atStart : Bool) (acc : Bytes),
    (atStart = true → directive.isPrefixOf s = false) →
    (∀ pre post, s = pre ++ directive ++ post → pre ≠ [] → pre.getLast? ≠ some 10) →
    findInclude s atStart acc = none := by
  induction s with
  | nil => intro atStart acc _ _; rfl
  | cons c r ih =>
    intro atStart acc h1 h2
    unfold findInclude
    have hcond : (atStart && directive.isPrefixOf (c :: r)) = false := by
      cases atStart with
      | false => rfl
      | true => simp [h1 rfl]
    simp only [hcond, Bool.false_eq_true, if_false]
    apply ih
    · intro hc
      have hc10 : c = 10 := by simpa using hc
      cases hp : directive.isPrefixOf r with
      | false => rfl
      | true =>
        exfalso
        obtain ⟨post, hpost⟩ := isPrefixOf_split hp
        exact h2 [c] post (by simp [hpost]) (by simp) (by simp [hc10])
    · intro pre post hr hne
      have := h2 (c :: pre) post (by simp [hr]) (by simp)
      cases pre with
      | nil => exact absurd rfl hne
      | cons p ps => simpa [List.getLast?_cons_cons] using this

theorem findInclude_none_of_free (s : Bytes) (h : ¬ LineStartsWithDirective s) : findInclude s true [] = none := by
  apply findInclude_none
  · intro _
    cases hp : directive.isPrefixOf s with
    | false => rfl
    | true =>
      exfalso
      obtain ⟨post, hpost⟩ := isPrefixOf_split hp
      exact h ⟨[], post, by simp [hpost], Or.inl rfl⟩
  · intro pre post hs hne hl
    exact h ⟨pre, post, hs, Or.inr hl⟩

/-- include_free_is_parseStr: a file (NUL-free) in which no line begins with the 9-byte text
    `"@INCLUDE "` is parsed exactly like `qconfig_parse_str` of its content — whatever else it contains:
    keys such as `@INCLUDES` / `@INCLUDE_DIR` / `@INCLUDE=x`, a bare `@INCLUDE`, `@INCLUDE` followed by a
    TAB, the directive in the middle of a line, in a comment, after leading blanks, in lower case -/
theorem include_free_is_parseStr (w : World) (fs : Bytes → Option Bytes) (sep : UInt8) (path data : Bytes)
    (hfs : fs path = some data) (hnz : ∀ c ∈ data, c ≠ 0) (hfree : ¬ LineStartsWithDirective data) :
    parseFile w fs sep path = (parseStr w sep data).map some := by
  unfold parseFile
  rw [hfs]
  have htw : data.takeWhile (· != 0) = data := by
    clear hfree hfs
    induction data with
    | nil => rfl
    | cons a d ih =>
      have : (a != 0) = true := by simp [hnz a (by simp)]
      simp only [List.takeWhile_cons, this, if_true]
      rw [ih (fun c hc => hnz c (by simp [hc]))]
  simp only [htw]
  unfold includeLoop
  rw [findInclude_none_of_free data hfree]
  simp only [List.nil_append]
  cases parseStr w sep data <;> rfl

/-- the search stops at the first occurrence that stands at the beginning of a line -/
theorem findInclude_first (after : Bytes) (pre : Bytes) : ∀ (atStart : Bool) (acc : Bytes),
    (pre = [] → atStart = true) → (pre ≠ [] → pre.getLast? = some 10) →
    (atStart = true → pre ≠ [] → directive.isPrefixOf (pre ++ directive ++ after) = false) →
    (∀ p q, pre ++ directive ++ after = p ++ directive ++ q → p ≠ [] → p.getLast? = some 10 → pre.length ≤ p.length) →
    findInclude (pre ++ directive ++ after) atStart acc = some (acc.reverse ++ pre, after) := by
  induction pre with
  | nil =>
    intro atStart acc h1 _ _ _
    have hat := h1 rfl
    subst hat
    have hp : directive.isPrefixOf (directive ++ after) = true := by
      simp [List.isPrefixOf_iff_prefix]
    have e : ([] : Bytes) ++ directive ++ after = 64 :: ([73, 78, 67, 76, 85, 68, 69, 32] ++ after) := by
      simp [directive]
    rw [e]
    unfold findInclude
    rw [← e]
    simp only [List.nil_append, hp, Bool.and_self, if_true, List.append_nil]
    simp
  | cons c pre ih =>
    intro atStart acc _ h2 h3 h4
    simp only [List.cons_append]
    unfold findInclude
    have hcond : (atStart && directive.isPrefixOf (c :: (pre ++ directive ++ after))) = false := by
      cases atStart with
      | false => rfl
      | true =>
        have := h3 rfl (by simp)
        simp only [List.cons_append] at this
        rw [this]; rfl
    simp only [hcond, Bool.false_eq_true, if_false]
    have hlast : (c :: pre).getLast? = some 10 := h2 (by simp)
    rw [ih (c == 10) (c :: acc)]
    · simp
    · intro hp; subst hp; simpa using hlast
    · intro hne
      cases pre with
      | nil => exact absurd rfl hne
      | cons p ps => simpa [List.getLast?_cons_cons] using hlast
    · intro hc hne
      have hc10 : c = 10 := by simpa using hc
      cases hp : directive.isPrefixOf (pre ++ directive ++ after) with
      | false => rfl
      | true =>
        exfalso
        obtain ⟨post, hpost⟩ := isPrefixOf_split hp
        have := h4 [c] post (by simp [hpost]) (by simp) (by simp [hc10])
        cases pre with
        | nil => exact absurd rfl hne
        | cons p ps => simp at this
    · intro p q hpq hpne hpl
      have := h4 (c :: p) q (by simp [hpq]) (by simp) (by
        cases p with
        | nil => exact absurd rfl hpne
        | cons a as => simpa [List.getLast?_cons_cons] using hpl)
      simpa using this

/-- the path `qconfig_parse_file` opens for the (trimmed) text behind the directive -/
def includePath (dir buf : Bytes) : Option Bytes :=
  if buf.head? == some 47 || buf.head? == some 92 then some buf
  else if dir.length + 1 + buf.length ≥ pathMax then none
  else some (dir ++ [47] ++ buf)

/-- include_splice: the FIRST line that begins with `"@INCLUDE "` — `pre` is everything before it,
    `raw` the rest of that line, `tail` what follows — is replaced by the content of the file it names
    (path: trimmed `raw`, relative to the directory of the main file unless it starts with `/` or `\\`),
    and nothing else changes: the loop continues behind `pre` with `content ++ tail` and one include
    less in its budget -/
theorem include_splice (fs : Bytes → Option Bytes) (dir : Bytes) (left : Nat) (head pre raw tail path content : Bytes)
    (hstart : pre = [] ∨ pre.getLast? = some 10)
    (hfirst : ∀ p q, pre ++ directive ++ (raw ++ tail) = p ++ directive ++ q →
      (p = [] ∨ p.getLast? = some 10) → pre.length ≤ p.length)
    (hraw : ∀ c ∈ raw, c ≠ 10) (htail : tail = [] ∨ ∃ r, tail = 10 :: r) (hlen : raw.length < pathMax)
    (hpath : includePath dir (Str.trim raw) = some path) (hne : path ≠ []) (hfs : fs path = some content) :
    includeLoop fs dir (left + 1) head (pre ++ directive ++ (raw ++ tail)) =
      includeLoop fs dir left (head ++ pre) (content.takeWhile (· != 0) ++ tail) := by
  conv => lhs; unfold includeLoop
  have hfind : findInclude (pre ++ directive ++ (raw ++ tail)) true [] = some (pre, raw ++ tail) := by
    have := findInclude_first (raw ++ tail) pre true [] (fun _ => rfl)
      (by intro hne'; rcases hstart with h | h
          · exact absurd h hne'
          · exact h)
      (by intro _ hne'
          cases hp : directive.isPrefixOf (pre ++ directive ++ (raw ++ tail)) with
          | false => rfl
          | true =>
            exfalso
            obtain ⟨post, hpost⟩ := isPrefixOf_split hp
            have := hfirst [] post (by simpa using hpost) (Or.inl rfl)
            cases pre with
            | nil => exact hne' rfl
            | cons a as => simp at this)
      (fun p q hpq _ hpl => hfirst p q hpq (Or.inr hpl))
    simpa using this
  rw [hfind]
  simp only []
  have htw : (raw ++ tail).takeWhile (· != 10) = raw := by
    rcases htail with h | ⟨r, h⟩
    · subst h
      simp only [List.append_nil]
      clear hlen hpath hfirst hfind
      induction raw with
      | nil => rfl
      | cons a t ih =>
        have : (a != 10) = true := by simp [hraw a (by simp)]
        simp only [List.takeWhile_cons, this, if_true]
        rw [ih (fun c hc => hraw c (by simp [hc]))]
    · subst h
      clear hlen hpath hfirst hfind
      induction raw with
      | nil => simp
      | cons a t ih =>
        have : (a != 10) = true := by simp [hraw a (by simp)]
        simp only [List.cons_append, List.takeWhile_cons, this, if_true]
        rw [ih (fun c hc => hraw c (by simp [hc]))]
  rw [htw]
  have hnl : ¬ (raw.length ≥ pathMax) := by omega
  simp only [hnl, if_false, List.drop_left]
  unfold includePath at hpath
  rw [hpath]
  simp only [hne, if_false, hfs]


end Qlibc.Conf.Ini

/-
  C20/C17: over-long (chunked) lines of the Apache-style parser.
-/
import QlibcModel.Conf.AconfNoNl
namespace Qlibc.Conf.Aconf
open Qlibc Qlibc.Generated.Conf

/-! ### over-long lines: what `fgets(buf, MAX_LINESIZE, fp)` makes of them -/

/-- the successive buffers `fgets` delivers for a file (at most `fuel` of them) -/
def readLines : Nat → Bytes → List Bytes
  | 0, _ => []
  | f + 1, inp =>
    match fgets inp with
    | none => []
    | some (c, r) => c :: readLines f r

/-- a line (without its newline) cut into pieces of `MAX_LINESIZE − 1` bytes; the last piece — the
    remainder, possibly EMPTY when the length is a multiple of `MAX_LINESIZE − 1` — carries the newline -/
def splitLong : Nat → Bytes → List Bytes
  | 0, line => [line ++ [10]]
  | f + 1, line =>
    if line.length < maxLineSize - 1 then [line ++ [10]]
    else line.take (maxLineSize - 1) :: splitLong f (line.drop (maxLineSize - 1))

/-- one over-long read: a line of at least `MAX_LINESIZE − 1` bytes loses its first `MAX_LINESIZE − 1`
    bytes to the buffer; the rest of the line stays in the file and is read as the NEXT "line" -/
theorem fgets_long (line rest : Bytes) (hno : ∀ c ∈ line, c ≠ 10) (hlen : maxLineSize - 1 ≤ line.length) :
    fgets (line ++ 10 :: rest) = some (line.take (maxLineSize - 1), line.drop (maxLineSize - 1) ++ 10 :: rest) := by
  unfold fgets
  have hne : line ++ 10 :: rest ≠ [] := by simp
  simp only [hne, if_false]
  generalize hk : maxLineSize - 1 = k at hlen
  have ht : (line ++ 10 :: rest).take k = line.take k := List.take_append_of_le_length hlen
  have htw : (line.take k).takeWhile (· != 10) = line.take k :=
    takeWhile_id _ (fun c hc => by simpa using hno c (List.mem_of_mem_take hc))
  rw [ht, htw]
  simp only [Nat.lt_irrefl, if_false, List.length_take, Nat.min_eq_left hlen]
  rw [List.take_append_of_le_length hlen, List.drop_append_of_le_length hlen]

/-- C20/C17, chunked lines: a line of `n` bytes is delivered as `⌊n / (MAX_LINESIZE−1)⌋` full pieces of
    `MAX_LINESIZE − 1` bytes without newline, followed by the remainder with the newline; `_parse_inline`
    treats each piece as a line of its own (own `lineno`, own directive) -/
theorem readLines_long (f : Nat) : ∀ (line rest : Bytes) (k : Nat), (∀ c ∈ line, c ≠ 10) → line.length < (f + 1) * (maxLineSize - 1) →
    readLines ((splitLong f line).length + k) (line ++ 10 :: rest) = splitLong f line ++ readLines k rest := by
  induction f with
  | zero =>
    intro line rest k hno hl
    have hl' : line.length + 1 < maxLineSize := by
      have : maxLineSize = 4096 := by decide
      simp only [Nat.zero_add, Nat.one_mul] at hl; omega
    simp only [splitLong, List.length_cons, List.length_nil, Nat.zero_add]
    have e : 1 + k = k + 1 := by omega
    rw [e]
    simp only [readLines, fgets_line line rest hno hl', List.cons_append, List.nil_append]
  | succ f ih =>
    intro line rest k hno hl
    simp only [splitLong]
    by_cases hs : line.length < maxLineSize - 1
    · simp only [hs, if_true, List.length_cons, List.length_nil, Nat.zero_add]
      have hl' : line.length + 1 < maxLineSize := by omega
      have e : 1 + k = k + 1 := by omega
      rw [e]
      simp only [readLines, fgets_line line rest hno hl', List.cons_append, List.nil_append]
    · simp only [hs, if_false, List.length_cons]
      have e : (splitLong f (line.drop (maxLineSize - 1))).length + 1 + k =
          ((splitLong f (line.drop (maxLineSize - 1))).length + k) + 1 := by omega
      rw [e]
      simp only [readLines, fgets_long line rest hno (by omega), List.cons_append]
      congr 1
      apply ih
      · intro c hc; exact hno c (List.mem_of_mem_drop hc)
      · simp only [List.length_drop]
        have hk : maxLineSize - 1 = 4095 := by decide
        rw [hk] at hl hs ⊢
        have : (f + 1 + 1) * 4095 = (f + 1) * 4095 + 4095 := by rw [Nat.add_mul]
        omega

/-- what this means for the parser, on the simplest case: of a comment line of `MAX_LINESIZE − 1` or
    more bytes only the first `MAX_LINESIZE − 1` bytes are skipped as a comment; the remainder of the
    comment text is read as the next line (line counter + 1) and handled like any other line -/
theorem long_comment_tail (cfg : Cfg) (fuel sid : Nat) (parent : Option CbData) (oc ns ln : Nat) (evs : List Event)
    (body rest : Bytes) (hno : ∀ c ∈ body, c ≠ 10 ∧ c ≠ 0) (hlen : maxLineSize - 1 ≤ (35 :: body).length) :
    parseInline cfg (fuel + 1) sid parent oc ns ⟨35 :: body ++ 10 :: rest, ln, evs⟩ =
      parseInline cfg fuel sid parent oc ns ⟨(35 :: body).drop (maxLineSize - 1) ++ 10 :: rest, ln + 1, evs⟩ := by
  have hno10 : ∀ c ∈ (35 :: body), c ≠ 10 := by
    intro c hc; rcases List.mem_cons.mp hc with rfl | h
    · decide
    · exact (hno c h).1
  conv => lhs; unfold parseInline
  have hfg := fgets_long (35 :: body) rest hno10 hlen
  simp only [hfg]
  have hk : maxLineSize - 1 = 4094 + 1 := by decide
  have hchunk : (35 :: body).take (maxLineSize - 1) = 35 :: body.take 4094 := by rw [hk, List.take_succ_cons]
  have hnz : ∀ c ∈ (35 :: body.take 4094), c ≠ 0 := by
    intro c hc; rcases List.mem_cons.mp hc with rfl | h
    · decide
    · exact (hno c (List.mem_of_mem_take h)).2
  rw [hchunk, takeWhile_nonzero _ hnz]
  obtain ⟨ys, hy⟩ := Ini.trim_head [] (body.take 4094) 35 (by simp) (by decide)
  simp only [List.nil_append] at hy
  have hcond : ((Str.trim (35 :: body.take 4094) = []) || ((Str.trim (35 :: body.take 4094)).head? == some 35)) = true := by
    rw [hy]; simp
  simp only [hcond, if_true]

end Qlibc.Conf.Aconf

/-
  The tokenizer of qaconf.c: an abstract (cursor = suffix) form of the raw-buffer loops of
  `Conf/Aconf.lean` and the simulation lemmas that tie the two (used by C17: every read of the raw
  loop is inside the buffer; C20: tokenize ∘ render = id).

  State correspondence of the word loop:  buf = pre ++ word ++ rest,  wp1 = |pre|,
  wp2 = |pre| + |word|.
-/
import QlibcModel.Conf.Aconf
namespace Qlibc.Conf.Aconf
open Qlibc

def isBlank (c : UInt8) : Bool := c == 32 || c == 9

/-- the byte that ends up in front of the word when a backslash escape shifts the word up -/
def shiftByte (word : Bytes) (c : UInt8) : UInt8 :=
  match word with
  | [] => c
  | w0 :: _ => w0

/-- abstract "Parse a word": `rest` = suffix at wp2, `word` = bytes in [wp1, wp2), `pre` = bytes
    before wp1. Result: (pre, word, rest, qt, doneparsing). -/
def wordAbs : (rest : Bytes) → (pre word : Bytes) → (qt : Nat) →
    Except Fault (Bytes × Bytes × Bytes × Nat × Bool)
  | [], _, _, _ => .error .oob
  | c :: rest, pre, word, qt =>
    if c = 0 then .ok (pre, word, c :: rest, qt, true)
    else if c = 39 then
      if qt = 1 then .ok (pre, word, c :: rest, 0, false) else wordAbs rest pre (word ++ [c]) qt
    else if c = 34 then
      if qt = 2 then .ok (pre, word, c :: rest, 0, false) else wordAbs rest pre (word ++ [c]) qt
    else if c = 92 then
      if qt > 0 then
        match rest with
        | [] => .error .oob
        | c1 :: rest1 =>
          if c1 ≠ 0 then wordAbs rest1 (pre ++ [shiftByte word c]) (word ++ [c1]) qt
          else .ok (pre, word ++ [c], c1 :: rest1, qt, true)    -- literal backslash, then the NUL
      else wordAbs rest pre (word ++ [c]) qt
    else if c = 32 ∨ c = 9 then
      if qt = 0 then .ok (pre, word, c :: rest, 0, false) else wordAbs rest pre (word ++ [c]) qt
    else wordAbs rest pre (word ++ [c]) qt

def toWordEnd (x : Bytes × Bytes × Bytes × Nat × Bool) : WordEnd :=
  ⟨x.1 ++ x.2.1 ++ x.2.2.1, x.1.length, x.1.length + x.2.1.length, x.2.2.2.1, x.2.2.2.2⟩

/-! ### reads and writes at the cursors -/

theorem rd_at (pre : Bytes) (c : UInt8) (rest : Bytes) : rd (pre ++ c :: rest) pre.length = .ok c := by
  simp [rd]

theorem rd_at2 (pre word : Bytes) (c : UInt8) (rest : Bytes) :
    rd (pre ++ word ++ c :: rest) (pre.length + word.length) = .ok c := by
  have := rd_at (pre ++ word) c rest
  simpa using this

theorem rd_at2' (pre word : Bytes) (c c1 : UInt8) (rest : Bytes) :
    rd (pre ++ word ++ c :: c1 :: rest) (pre.length + word.length + 1) = .ok c1 := by
  have := rd_at (pre ++ word ++ [c]) c1 rest
  simpa [Nat.add_assoc] using this

theorem rd_end (pre : Bytes) : rd pre pre.length = .error .oob := by
  simp [rd]

theorem wr_at (pre : Bytes) (c d : UInt8) (rest : Bytes) :
    wr (pre ++ c :: rest) pre.length d = .ok (pre ++ d :: rest) := by
  simp [wr]

theorem memmoveUp_at (pre : Bytes) (w0 : UInt8) (ws : Bytes) (c : UInt8) (rest : Bytes) :
    memmoveUp (pre ++ (w0 :: ws) ++ c :: rest) pre.length (ws.length + 1) =
      .ok (pre ++ [w0] ++ (w0 :: ws) ++ rest) := by
  unfold memmoveUp
  have h1 : pre.length + 1 + (ws.length + 1) ≤ (pre ++ (w0 :: ws) ++ c :: rest).length := by
    simp; omega
  rw [if_pos h1]
  congr 1
  have e1 : (pre ++ (w0 :: ws) ++ c :: rest).take (pre.length + 1) = pre ++ [w0] := by
    rw [List.append_assoc, List.take_append]
    simp [List.take_of_length_le]
  have e2 : ((pre ++ (w0 :: ws) ++ c :: rest).drop pre.length).take (ws.length + 1) = w0 :: ws := by
    rw [List.append_assoc, List.drop_append]
    simp
  have e3 : (pre ++ (w0 :: ws) ++ c :: rest).drop (pre.length + 1 + (ws.length + 1)) = rest := by
    have : pre.length + 1 + (ws.length + 1) = (pre ++ (w0 :: ws) ++ [c]).length := by simp; omega
    rw [this]
    have : pre ++ (w0 :: ws) ++ c :: rest = (pre ++ (w0 :: ws) ++ [c]) ++ rest := by simp
    rw [this, List.drop_left]
  rw [e1, e2, e3]

/-! ### the raw word loop is the abstract one -/

theorem wordLoop_sim (n : Nat) : ∀ (rest : Bytes), rest.length ≤ n → ∀ (fuel : Nat) (pre word : Bytes) (qt : Nat),
    rest.length < fuel →
    wordLoop fuel (pre ++ word ++ rest) pre.length (pre.length + word.length) qt =
      (wordAbs rest pre word qt).map toWordEnd := by
  induction n with
  | zero =>
    intro rest hn fuel pre word qt hf
    have : rest = [] := by cases rest <;> simp_all
    subst this
    cases fuel with
    | zero => simp at hf
    | succ fuel =>
      unfold wordLoop wordAbs
      have := rd_end (pre ++ word)
      simp only [List.length_append] at this
      simp [this, Except.map, bind, Except.bind]
  | succ n ih =>
    intro rest hn fuel pre word qt hf
    cases fuel with
    | zero => simp at hf
    | succ fuel =>
    cases rest with
    | nil =>
      unfold wordLoop wordAbs
      have := rd_end (pre ++ word)
      simp only [List.length_append] at this
      simp [this, Except.map, bind, Except.bind]
    | cons c rest =>
      have hlen : rest.length ≤ n := by simp at hn; omega
      have hfl : rest.length < fuel := by simp at hf; omega
      -- the generic "advance one byte" step
      have step : wordLoop fuel (pre ++ word ++ c :: rest) pre.length (pre.length + word.length + 1) qt =
          (wordAbs rest pre (word ++ [c]) qt).map toWordEnd := by
        have := ih rest hlen fuel pre (word ++ [c]) qt hfl
        simpa [Nat.add_assoc] using this
      unfold wordLoop wordAbs
      simp only [rd_at2, bind, Except.bind, pure, Except.pure]
      by_cases h0 : c = 0
      · simp [h0, Except.map, toWordEnd]
      simp only [h0, if_false]
      by_cases h39 : c = 39
      · subst h39
        by_cases hq : qt = 1
        · simp [hq, Except.map, toWordEnd]
        · simp only [hq, if_false, if_true]; exact step
      simp only [h39, if_false]
      by_cases h34 : c = 34
      · subst h34
        by_cases hq : qt = 2
        · simp [hq, Except.map, toWordEnd]
        · simp only [hq, if_false, if_true]; exact step
      simp only [h34, if_false]
      by_cases h92 : c = 92
      · subst h92
        by_cases hq : qt > 0
        · simp only [hq, if_true]
          cases rest with
          | nil =>
            have := rd_end (pre ++ word ++ [92])
            simp only [List.length_append, List.length_cons, List.length_nil, Nat.zero_add] at this
            rw [this]; simp [Except.map]
          | cons c1 rest1 =>
            rw [rd_at2']
            by_cases h10 : c1 = 0
            · subst h10
              simp only [ne_eq, not_true_eq_false, if_false]
              -- one more iteration reads the NUL
              cases fuel with
              | zero => simp at hfl
              | succ fuel' =>
                unfold wordLoop
                have := rd_at2 pre (word ++ [92]) 0 rest1
                simp only [List.length_append, List.length_cons, List.length_nil, Nat.zero_add, List.append_assoc,
                  List.cons_append, List.nil_append, ← Nat.add_assoc] at this
                simp only [List.append_assoc] 
                rw [this]
                simp [Except.map, toWordEnd, bind, Except.bind, pure, Except.pure, Nat.add_assoc]
            · simp only [ne_eq, h10, not_false_eq_true, if_true]
              have hl1 : rest1.length ≤ n := by simp at hlen; omega
              have hf1 : rest1.length < fuel := by simp at hfl; omega
              cases word with
              | nil =>
                simp only [List.length_nil, Nat.add_zero, shiftByte, List.nil_append]
                have := ih rest1 hl1 fuel (pre ++ [92]) [c1] qt hf1
                simpa [Nat.add_assoc] using this
              | cons w0 ws =>
                have hm := memmoveUp_at pre w0 ws 92 (c1 :: rest1)
                have e : pre.length + (ws.length + 1) - pre.length = ws.length + 1 := by omega
                have hpos : ws.length + 1 > 0 := by omega
                simp only [List.length_cons, e, hpos, if_true, shiftByte]
                rw [hm]
                have := ih rest1 hl1 fuel (pre ++ [w0]) (w0 :: ws ++ [c1]) qt hf1
                simpa [Nat.add_assoc, Nat.add_comm, Nat.add_left_comm] using this
        · simp only [hq, if_false]; exact step
      simp only [h92, if_false]
      by_cases hb : c = 32 ∨ c = 9
      · simp only [hb, if_true]
        by_cases hq : qt = 0
        · simp [hq, Except.map, toWordEnd]
        · simp only [hq, if_false]; exact step
      · simp only [hb, if_false]; exact step

theorem skipBlanks_sim (rest : Bytes) : ∀ (fuel : Nat) (pre : Bytes), rest.length < fuel →
    skipBlanks fuel (pre ++ rest) pre.length =
      if rest.dropWhile isBlank = [] then .error .oob
      else .ok (pre.length + (rest.takeWhile isBlank).length) := by
  induction rest with
  | nil =>
    intro fuel pre hf
    cases fuel with
    | zero => simp at hf
    | succ fuel =>
      unfold skipBlanks
      simp [rd_end, bind, Except.bind]
  | cons c rest ih =>
    intro fuel pre hf
    cases fuel with
    | zero => simp at hf
    | succ fuel =>
      unfold skipBlanks
      simp only [rd_at, bind, Except.bind]
      by_cases hb : c = 32 ∨ c = 9
      · have hb' : isBlank c = true := by
          rcases hb with h | h <;> simp [isBlank, h]
        simp only [hb, if_true, List.dropWhile_cons, hb', List.takeWhile_cons, List.length_cons]
        have := ih fuel (pre ++ [c]) (by simp at hf; omega)
        simp only [List.append_assoc, List.cons_append, List.nil_append, List.length_append, List.length_cons,
          List.length_nil, Nat.zero_add] at this
        rw [this]
        split
        · rfl
        · simp; omega
      · have hb' : isBlank c = false := by
          simp only [isBlank, Bool.or_eq_false_iff, beq_eq_false_iff_ne, ne_eq]
          exact ⟨fun h => hb (Or.inl h), fun h => hb (Or.inr h)⟩
        simp [hb, hb', pure, Except.pure]

/-- the bytes the word loop collects are not NUL -/
theorem wordAbs_nozero (rest pre word : Bytes) (qt : Nat) : ∀ p w r q d,
    wordAbs rest pre word qt = .ok (p, w, r, q, d) → (∀ x ∈ word, x ≠ 0) → ∀ x ∈ w, x ≠ 0 := by
  fun_induction wordAbs rest pre word qt <;> intro p w r q d h hw
  all_goals (try (simp only [Except.ok.injEq, Prod.mk.injEq] at h; obtain ⟨-, rfl, -⟩ := h))
  all_goals (try exact hw)
  all_goals (try (rename_i ih; apply ih p w r q d h; intro x hx; simp only [List.mem_append, List.mem_singleton] at hx; rcases hx with hx | rfl; exact hw x hx; assumption))
  all_goals (try (exact absurd h (by simp)))
  all_goals (intro x hx; simp only [List.mem_append, List.mem_singleton] at hx; rcases hx with hx | rfl; exact hw x hx; decide)

theorem cstrAt_at (p w : Bytes) (r : Bytes) (hw : ∀ x ∈ w, x ≠ 0) :
    cstrAt (p ++ w ++ 0 :: r) p.length = .ok w := by
  unfold cstrAt
  have t : (w ++ 0 :: r).takeWhile (· != 0) = w := by
    induction w with
    | nil => simp
    | cons a w ih =>
      have ha : a ≠ 0 := hw a (by simp)
      simp only [List.cons_append, List.takeWhile_cons, bne_iff_ne, ne_eq, ha, not_false_eq_true, if_true]
      rw [ih (fun x hx => hw x (by simp [hx]))]
  have e : (p ++ w ++ 0 :: r).drop p.length = w ++ 0 :: r := by
    rw [List.append_assoc, List.drop_left]
  simp only [e, t]
  simp

/-- abstract form of `tokStep`: `rest1` = suffix at wp1 (after the opening quote), `pre1` before it.
    `.more` carries (pre, rest) of the next iteration. -/
inductive TokStepA where
  | fin (r : TokResult)
  | more (pre rest : Bytes) (word : Bytes)

def tokStepA (rest1 pre1 : Bytes) (qt : Nat) (acc : List Bytes) : Except Fault TokStepA :=
  match wordAbs rest1 pre1 [] qt with
  | .error f => .error f
  | .ok (p, w, r, q, d) =>
    match r with
    | [] => .error .oob
    | _ :: r' =>
      if q > 0 then .ok (.fin .unclosedQuote)
      else if d then .ok (.fin (.args (w :: acc).reverse))
      else
        match r' with
        | [] => .error .oob
        | c2 :: _ =>
          if c2 = 0 then .ok (.fin (.args (w :: acc).reverse))
          else .ok (.more (p ++ w ++ [0]) r' w)

def TokStepA.toRaw : TokStepA → TokStep
  | .fin r => .fin r
  | .more pre rest word => .more (pre ++ rest) pre.length word

theorem tokStep_sim (pre1 rest1 : Bytes) (qt : Nat) (acc : List Bytes) :
    tokStep (pre1 ++ rest1) pre1.length qt acc = (tokStepA rest1 pre1 qt acc).map TokStepA.toRaw := by
  unfold tokStep tokStepA
  have hs := wordLoop_sim rest1.length rest1 (Nat.le_refl _) ((pre1 ++ rest1).length + 1) pre1 [] qt
    (by simp only [List.length_append]; omega)
  simp only [List.append_nil, List.length_nil, Nat.add_zero] at hs
  rw [hs]
  cases hwa : wordAbs rest1 pre1 [] qt with
  | error f => simp [Except.map, bind, Except.bind]
  | ok x =>
    obtain ⟨p, w, r, q, d⟩ := x
    have hnz := wordAbs_nozero rest1 pre1 [] qt p w r q d hwa (by simp)
    simp only [Except.map, toWordEnd, bind, Except.bind]
    cases r with
    | nil =>
      have : wr (p ++ w ++ []) (p.length + w.length) 0 = .error .oob := by simp [wr]
      simp only [this]
    | cons c' r' =>
      have hw := wr_at (p ++ w) c' 0 r'
      simp only [List.length_append] at hw
      simp only [hw]
      by_cases hq : q > 0
      · simp [hq, pure, Except.pure, TokStepA.toRaw]
      simp only [hq, if_false]
      rw [cstrAt_at p w r' hnz]
      simp only []
      by_cases hd : d = true
      · simp [hd, pure, Except.pure, TokStepA.toRaw]
      simp only [hd, if_false]
      cases r' with
      | nil =>
        have := rd_end (p ++ w ++ [0])
        simp only [List.length_append, List.length_cons, List.length_nil, Nat.zero_add] at this
        rw [this]
        simp
      | cons c2 r2 =>
        have := rd_at (p ++ w ++ [0]) c2 r2
        simp only [List.length_append, List.length_cons, List.length_nil, Nat.zero_add, List.append_assoc,
          List.cons_append, List.nil_append] at this
        simp only [List.append_assoc]
        rw [← Nat.add_assoc] at this
        rw [this]
        simp only []
        by_cases h2 : c2 = 0
        · simp [h2, pure, Except.pure, TokStepA.toRaw]
        simp [h2, pure, Except.pure, TokStepA.toRaw, Nat.add_assoc]

/-- abstract token loop: `rest` = suffix at wp1, `pre` = bytes before it -/
def tokAbs : (fuel : Nat) → (rest pre : Bytes) → (acc : List Bytes) → Except Fault TokResult
  | 0, _, _, _ => .error .outOfFuel
  | fuel + 1, rest, pre, acc =>
    match rest.dropWhile isBlank with
    | [] => .error .oob
    | c :: r1 =>
      let bl := rest.takeWhile isBlank
      let qt := if c = 39 then 1 else if c = 34 then 2 else 0
      let pre1 := if qt > 0 then pre ++ bl ++ [c] else pre ++ bl
      let rest1 := if qt > 0 then r1 else c :: r1
      match tokStepA rest1 pre1 qt acc with
      | .error f => .error f
      | .ok (.fin r) => .ok r
      | .ok (.more p r w) => tokAbs fuel r p (w :: acc)

theorem tokLoop_sim (fuel : Nat) : ∀ (rest pre : Bytes) (acc : List Bytes),
    tokLoop fuel (pre ++ rest) pre.length acc = tokAbs fuel rest pre acc := by
  induction fuel with
  | zero => intro rest pre acc; simp [tokLoop, tokAbs]
  | succ fuel ih =>
    intro rest pre acc
    unfold tokLoop tokAbs
    have hsk := skipBlanks_sim rest ((pre ++ rest).length + 1) pre (by simp; omega)
    simp only [hsk, bind, Except.bind]
    have hsplit : rest = rest.takeWhile isBlank ++ rest.dropWhile isBlank := by simp
    generalize hdw : rest.dropWhile isBlank = dw at hsplit
    generalize htw : rest.takeWhile isBlank = bl at hsplit
    cases dw with
    | nil => simp
    | cons c r1 =>
      simp only [reduceCtorEq, if_false]
      subst hsplit
      have hrd : rd (pre ++ (bl ++ c :: r1)) (pre.length + bl.length) = .ok c := by
        have := rd_at (pre ++ bl) c r1
        simpa using this
      rw [hrd]
      simp only []
      have hbuf1 : pre ++ (bl ++ c :: r1) = (pre ++ bl ++ [c]) ++ r1 := by simp
      have hbuf0 : pre ++ (bl ++ c :: r1) = (pre ++ bl) ++ c :: r1 := by simp
      have hl1 : pre.length + bl.length + 1 = (pre ++ bl ++ [c]).length := by simp [Nat.add_assoc]
      have hl0 : pre.length + bl.length = (pre ++ bl).length := by simp
      have g1 : (1 : Nat) > 0 := by decide
      have g2 : (2 : Nat) > 0 := by decide
      have g0 : ¬ ((0 : Nat) > 0) := by decide
      by_cases h39 : c = 39
      · simp only [h39, if_true, g1]
        subst h39
        rw [hl1, hbuf1, tokStep_sim]
        cases tokStepA _ _ _ acc with
        | error f => simp [Except.map]
        | ok v =>
          cases v with
          | fin r => simp [Except.map, TokStepA.toRaw, pure, Except.pure]
          | more p r w => simp only [Except.map, TokStepA.toRaw]; exact ih r p (w :: acc)
      by_cases h34 : c = 34
      · simp only [h34, if_true, g2]
        have : ¬ ((34 : UInt8) = 39) := by decide
        simp only [this, if_false, if_true, g2]
        subst h34
        rw [hl1, hbuf1, tokStep_sim]
        cases tokStepA _ _ _ acc with
        | error f => simp [Except.map]
        | ok v =>
          cases v with
          | fin r => simp [Except.map, TokStepA.toRaw, pure, Except.pure]
          | more p r w => simp only [Except.map, TokStepA.toRaw]; exact ih r p (w :: acc)
      simp only [h39, h34, if_false, g0]
      rw [hl0, hbuf0, tokStep_sim]
      cases tokStepA _ _ _ acc with
      | error f => simp [Except.map]
      | ok v =>
        cases v with
        | fin r => simp [Except.map, TokStepA.toRaw, pure, Except.pure]
        | more p r w => simp only [Except.map, TokStepA.toRaw]; exact ih r p (w :: acc)

/-! ### totality (C17) -/

/-- the buffer suffix still contains its terminator: its last byte is NUL -/
def Term (s : Bytes) : Prop := s.getLast? = some 0

theorem Term.ne_nil {s : Bytes} (h : Term s) : s ≠ [] := by
  intro h0; subst h0; simp [Term] at h

theorem Term.tail {c : UInt8} {rest : Bytes} (h : Term (c :: rest)) (hc : c ≠ 0) : Term rest := by
  cases rest with
  | nil => simp [Term] at h; exact absurd h hc
  | cons d rest => simpa [Term, List.getLast?_cons_cons] using h

theorem Term.append (s : Bytes) : Term (s ++ [0]) := by simp [Term]

theorem wordAbs_total (rest pre word : Bytes) (qt : Nat) : Term rest →
    ∃ p w r q d, wordAbs rest pre word qt = .ok (p, w, r, q, d) ∧ Term r ∧ r.length ≤ rest.length ∧
      (d = false → ∃ c' r', r = c' :: r' ∧ c' ≠ 0) := by
  fun_induction wordAbs rest pre word qt <;> intro ht
  case case1 => simp [Term] at ht
  case case2 => exact ⟨_, _, _, _, _, rfl, ht, Nat.le_refl _, fun h => by cases h⟩
  case case3 => exact ⟨_, _, _, _, _, rfl, ht, Nat.le_refl _, fun _ => ⟨_, _, rfl, by decide⟩⟩
  case case4 ih =>
    obtain ⟨p, w, r, q, d, h1, h2, h3, h4⟩ := ih (ht.tail (by decide))
    exact ⟨p, w, r, q, d, h1, h2, by simp only [List.length_cons]; omega, h4⟩
  case case5 => exact ⟨_, _, _, _, _, rfl, ht, Nat.le_refl _, fun _ => ⟨_, _, rfl, by decide⟩⟩
  case case6 ih =>
    obtain ⟨p, w, r, q, d, h1, h2, h3, h4⟩ := ih (ht.tail (by decide))
    exact ⟨p, w, r, q, d, h1, h2, by simp only [List.length_cons]; omega, h4⟩
  case case7 => simp [Term] at ht
  case case8 hc1 _ _ _ ih =>
    obtain ⟨p, w, r, q, d, h1, h2, h3, h4⟩ := ih ((ht.tail (by decide)).tail hc1)
    exact ⟨p, w, r, q, d, h1, h2, by simp only [List.length_cons]; omega, h4⟩
  case case9 =>
    exact ⟨_, _, _, _, _, rfl, ht.tail (by decide), by simp, fun h => by cases h⟩
  case case10 ih =>
    obtain ⟨p, w, r, q, d, h1, h2, h3, h4⟩ := ih (ht.tail (by decide))
    exact ⟨p, w, r, q, d, h1, h2, by simp only [List.length_cons]; omega, h4⟩
  case case11 hc _ _ _ _ => exact ⟨_, _, _, _, _, rfl, ht, Nat.le_refl _, fun _ => ⟨_, _, rfl, hc⟩⟩
  case case12 hc _ _ _ _ _ ih =>
    obtain ⟨p, w, r, q, d, h1, h2, h3, h4⟩ := ih (ht.tail hc)
    exact ⟨p, w, r, q, d, h1, h2, by simp only [List.length_cons]; omega, h4⟩
  case case13 hc _ _ _ _ ih =>
    obtain ⟨p, w, r, q, d, h1, h2, h3, h4⟩ := ih (ht.tail hc)
    exact ⟨p, w, r, q, d, h1, h2, by simp only [List.length_cons]; omega, h4⟩

theorem Term.dropBlanks {s : Bytes} (h : Term s) :
    Term (s.dropWhile isBlank) ∧ (s.dropWhile isBlank).length ≤ s.length := by
  induction s with
  | nil => simp [Term] at h
  | cons c rest ih =>
    simp only [List.dropWhile_cons]
    cases hb : isBlank c <;> simp only [Bool.false_eq_true, if_false, if_true]
    · exact ⟨h, Nat.le_refl _⟩
    · have hc : c ≠ 0 := by intro h0; subst h0; simp [isBlank] at hb
      have := ih (h.tail hc)
      exact ⟨this.1, by simp only [List.length_cons]; omega⟩

theorem tokStepA_total (rest1 pre1 : Bytes) (qt : Nat) (acc : List Bytes) (ht : Term rest1) :
    (∃ r, tokStepA rest1 pre1 qt acc = .ok (.fin r)) ∨
    (∃ p r w, tokStepA rest1 pre1 qt acc = .ok (.more p r w) ∧ Term r ∧ r.length < rest1.length) := by
  obtain ⟨p, w, r, q, d, h1, h2, h3, h4⟩ := wordAbs_total rest1 pre1 [] qt ht
  unfold tokStepA
  rw [h1]
  cases r with
  | nil => exact absurd rfl h2.ne_nil
  | cons c' r' =>
    simp only []
    by_cases hq : q > 0
    · left; exact ⟨.unclosedQuote, by simp [hq]⟩
    simp only [hq, if_false]
    cases d with
    | true => left; exact ⟨.args (w :: acc).reverse, by simp⟩
    | false =>
      obtain ⟨c'', r'', he, hc⟩ := h4 rfl
      cases he
      have ht' : Term r' := h2.tail hc
      cases r' with
      | nil => exact absurd rfl ht'.ne_nil
      | cons c2 r2 =>
        by_cases h2z : c2 = 0
        · left; exact ⟨.args (w :: acc).reverse, by simp [h2z]⟩
        · right
          refine ⟨p ++ w ++ [0], c2 :: r2, w, by simp [h2z], ht', ?_⟩
          simp only [List.length_cons] at h3 ⊢; omega

theorem tokAbs_total (fuel : Nat) : ∀ (rest pre : Bytes) (acc : List Bytes), Term rest → rest.length < fuel →
    ∃ r, tokAbs fuel rest pre acc = .ok r := by
  induction fuel with
  | zero => intro rest pre acc _ hf; simp at hf
  | succ fuel ih =>
    intro rest pre acc ht hf
    unfold tokAbs
    obtain ⟨htd, hld⟩ := ht.dropBlanks
    cases hdw : rest.dropWhile isBlank with
    | nil => rw [hdw] at htd; exact absurd rfl htd.ne_nil
    | cons c r1 =>
      rw [hdw] at htd hld
      simp only []
      -- the suffix the word loop starts on
      have key : ∀ (rest1 pre1 : Bytes) (qt : Nat), Term rest1 → rest1.length ≤ (c :: r1).length →
          ∃ r, (match tokStepA rest1 pre1 qt acc with
                | .error f => .error f
                | .ok (.fin r) => .ok r
                | .ok (.more p r w) => tokAbs fuel r p (w :: acc)) = Except.ok r := by
        intro rest1 pre1 qt ht1 hl1
        rcases tokStepA_total rest1 pre1 qt acc ht1 with ⟨r, hr⟩ | ⟨p, r, w, hr, htr, hlr⟩
        · rw [hr]; exact ⟨r, rfl⟩
        · rw [hr]; exact ih r p (w :: acc) htr (by omega)
      by_cases h39 : c = 39
      · subst h39
        simp only [if_true, gt_iff_lt, Nat.lt_add_one]
        exact key _ _ _ (htd.tail (by decide)) (by simp)
      by_cases h34 : c = 34
      · subst h34
        have : ¬ ((34 : UInt8) = 39) := by decide
        simp only [this, if_false, if_true, gt_iff_lt, Nat.zero_lt_two]
        exact key _ _ _ (htd.tail (by decide)) (by simp)
      simp only [h39, h34, if_false, gt_iff_lt, Nat.lt_irrefl]
      exact key _ _ _ htd (Nat.le_refl _)

/-- C17 aconf_tokenize_safe: on every line the raw tokenizer finishes without reading or writing
    outside the `strlen + 1` bytes of its buffer and without running out of fuel -/
theorem tokenize_total (sp : Bytes) : ∃ r, tokenize sp = .ok r := by
  unfold tokenize tokenizeRaw
  have := tokLoop_sim ((sp ++ [0]).length + 1) (sp ++ [0]) [] []
  simp only [List.nil_append, List.length_nil] at this
  rw [this]
  exact tokAbs_total _ _ _ _ (Term.append sp) (by omega)

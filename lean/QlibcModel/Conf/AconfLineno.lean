/-
  The line counter and the directive count of the Apache-style parser model are bounded by the
  size of the file: every line read consumes at least one byte. The model counts in natural
  numbers; the C fields (`int lineno`, `int optcount`) hold the same numbers as long as the file
  has fewer than 2^31 bytes (Props/C20.lean ac_line_number_range, width from Generated/Shapes).
-/
import QlibcModel.Conf.AconfTotal
namespace Qlibc.Conf.Aconf
open Qlibc Qlibc.Generated.Conf

/-- what a run from state `st` (count so far `oc`) to `st'` with result `r` keeps -/
def Bound (st : PState) (oc : Nat) (st' : PState) (r : Res) : Prop :=
  st'.input.length ≤ st.input.length ∧ st'.lineno + st'.input.length ≤ st.lineno + st.input.length ∧
  (∀ l m, r = .err l m → l ≤ st'.lineno) ∧ (∀ n, r = .count n → n + st'.input.length ≤ oc + st.input.length)

/-- a branch that returns at once -/
local macro "bdone" : tactic => `(tactic|
  (refine ⟨by (try simp only []); omega, by (try simp only []); omega, ?_, ?_⟩ <;>
    (intros; rename_i hres; first | (cases hres; done) | (cases hres; (try simp only []); omega))))

/-- a branch that continues with the rest of the file (one more line read) -/
local macro "blift" h:ident : tactic => `(tactic|
  (obtain ⟨b1, b2, b3, b4⟩ := $h; (try simp only [] at b1 b2 b4)
   exact ⟨by omega, by omega, b3, fun n hn => by have := b4 n hn; omega⟩))

theorem parseInline_bound (cfg : Cfg) (fuel : Nat) : ∀ (sid : Nat) (parent : Option CbData) (oc ns : Nat) (st : PState),
    st.input.length < fuel →
    ∃ st' r, parseInline cfg fuel sid parent oc ns st = .ok (st', r) ∧ Bound st oc st' r := by
  induction fuel with
  | zero => intro sid parent oc ns st hf; simp at hf
  | succ fuel ih =>
    intro sid parent oc ns st hf
    unfold parseInline
    cases hfg : fgets st.input with
    | none =>
      cases parent with
      | none => exact ⟨_, _, rfl, by bdone⟩
      | some p => exact ⟨_, _, rfl, by bdone⟩
    | some cr =>
      obtain ⟨chunk, rest0⟩ := cr
      have hsh := fgets_shorter _ _ _ hfg
      have hdl := drain_le (chunk.takeWhile (· != 0)) rest0
      simp only []
      generalize drain (chunk.takeWhile (· != 0)) rest0 = dr at hdl ⊢
      obtain ⟨rest, toolong⟩ := dr
      simp only [] at hdl ⊢
      have hfr : rest.length < fuel := by omega
      split
      · exact ⟨_, _, rfl, by bdone⟩
      split
      · -- blank or comment line
        obtain ⟨st', r, h1, h2⟩ := ih sid parent oc ns { st with input := rest, lineno := st.lineno + 1 } hfr
        exact ⟨st', r, h1, by blift h2⟩
      · obtain ⟨br, hbr⟩ := brackets_total (Str.trim (chunk.takeWhile (· != 0)))
        rw [hbr]
        cases br with
        | none => exact ⟨_, _, rfl, by bdone⟩
        | some os =>
          obtain ⟨otype, sp⟩ := os
          simp only []
          split
          · exact ⟨_, _, rfl, by bdone⟩
          · obtain ⟨tr, htr⟩ := tokenize_total sp
            rw [htr]
            cases tr with
            | unclosedQuote => exact ⟨_, _, rfl, by bdone⟩
            | args argv =>
              simp only []
              have fin : ∀ (parent' : Option CbData) (cb0 : CbData), (cb0.otype = otypeClose → parent' ≠ none) →
                  cb0.otype = otype →
                  ∃ st' r, (match dispatch cfg sid parent' ns cb0 with
                    | Except.error f => Except.error f
                    | Except.ok stp =>
                      match stp.err with
                      | some m =>
                        Except.ok
                          (({ input := rest, lineno := st.lineno + 1, events := stp.events.reverse ++ st.events } : PState),
                            Res.err (st.lineno + 1) m)
                      | none =>
                        if otype = otypeOpen then
                          match
                            parseInline cfg fuel stp.nsid (some stp.cb) 0 0
                              { input := rest, lineno := st.lineno + 1, events := stp.events.reverse ++ st.events } with
                          | Except.error f => Except.error f
                          | Except.ok (st2, Res.err l m) => Except.ok (st2, Res.err l m)
                          | Except.ok (st2, Res.count n2) => parseInline cfg fuel sid parent' (oc + n2 + 1) stp.nsid st2
                        else
                          if otype = otypeClose then
                            Except.ok
                              ({ input := rest, lineno := st.lineno + 1, events := stp.events.reverse ++ st.events },
                                Res.count (oc + 1))
                          else
                            parseInline cfg fuel sid parent' (oc + 1) stp.nsid
                              { input := rest, lineno := st.lineno + 1, events := stp.events.reverse ++ st.events }) =
                    Except.ok (st', r) ∧ Bound st oc st' r := by
                intro parent' cb0 hcl hot
                obtain ⟨stp, hd⟩ := dispatch_total cfg sid parent' ns cb0 hcl
                rw [hd]
                simp only []
                cases stp.err with
                | some m => exact ⟨_, _, rfl, by bdone⟩
                | none =>
                  simp only []
                  split
                  · obtain ⟨st2, r2, h1, h2⟩ := ih stp.nsid (some stp.cb) 0 0
                      { input := rest, lineno := st.lineno + 1, events := stp.events.reverse ++ st.events } hfr
                    rw [h1]
                    cases r2 with
                    | err l m => exact ⟨_, _, rfl, by blift h2⟩
                    | count n2 =>
                      simp only [] at h2 ⊢
                      obtain ⟨st3, r3, h3, h4⟩ := ih sid parent' (oc + n2 + 1) stp.nsid st2 (by have := h2.1; simp only [] at this; omega)
                      obtain ⟨c1, c2, c3, c4⟩ := h4
                      obtain ⟨b1, b2, _, b4⟩ := h2
                      simp only [] at b1 b2 b4
                      have hb4 := b4 n2 rfl
                      exact ⟨st3, r3, h3, by omega, by omega, c3, fun n h => by have := c4 n h; omega⟩
                  · split
                    · exact ⟨_, _, rfl, by bdone⟩
                    · obtain ⟨st3, r3, h3, h4⟩ := ih sid parent' (oc + 1) stp.nsid
                        { input := rest, lineno := st.lineno + 1, events := stp.events.reverse ++ st.events } hfr
                      exact ⟨st3, r3, h3, by blift h4⟩
              cases parent with
              | none =>
                simp only []
                by_cases hcl : otype = otypeClose
                · rw [if_pos (by simp [hcl])]
                  exact ⟨_, _, rfl, by bdone⟩
                · rw [if_neg (by simp [hcl])]
                  apply fin none
                  · intro h; exact absurd h hcl
                  · rfl
              | some p =>
                simp only []
                split
                · exact ⟨_, _, rfl, by bdone⟩
                · apply fin (some p)
                  · intro _; simp
                  · rfl


/-- error line and directive count of a whole parse never exceed the number of bytes of the file -/
theorem parse_bound (cfg : Cfg) (file : Bytes) (evs : List Event) (r : Res) (h : parse cfg file = .ok (evs, r)) :
    (∀ l m, r = .err l m → l ≤ file.length) ∧ (∀ n, r = .count n → n ≤ file.length) := by
  unfold parse at h
  obtain ⟨st', r', hrun, _, b2, b3, b4⟩ :=
    parseInline_bound cfg (file.length + 1) qacSectionRoot none 0 0 ⟨file, 0, []⟩ (by simp)
  rw [hrun] at h
  simp only [Except.ok.injEq, Prod.mk.injEq] at h
  obtain ⟨-, hr⟩ := h
  subst hr
  simp only [] at b2 b4
  exact ⟨fun l m h => by have := b3 l m h; omega, fun n h => by have := b4 n h; omega⟩

end Qlibc.Conf.Aconf

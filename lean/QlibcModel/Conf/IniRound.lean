/-
  C20 ini_roundtrip (partial grammar: no `${…}` references): parsing a rendered document gives the
  entries the document says, for every layout.
-/
import QlibcModel.Conf.IniSpec
import QlibcModel.Conf.IniTotal
namespace Qlibc.Conf.Ini
open Qlibc Qlibc.Generated.Conf

theorem dropWhile_all_append {p : UInt8 → Bool} (a y : Bytes) (h : ∀ c ∈ a, p c = true) :
    (a ++ y).dropWhile p = y.dropWhile p := by
  induction a with
  | nil => rfl
  | cons c a ih =>
    simp only [List.cons_append, List.dropWhile_cons, h c (by simp), if_true]
    exact ih (fun x hx => h x (by simp [hx]))

theorem dropWhile_all {p : UInt8 → Bool} (a : Bytes) (h : ∀ c ∈ a, p c = true) : a.dropWhile p = [] := by
  have := dropWhile_all_append a [] h
  simpa using this

theorem layWs_isWs {w : Bytes} (h : LayWs w) : ∀ c ∈ w, Str.isWs c = true := by
  intro c hc
  rcases h c hc with h | h | h <;> subst h <;> decide

/-- trimming removes exactly the layout around a tight string -/
theorem trim_pad (a x d : Bytes) (ha : ∀ c ∈ a, Str.isWs c = true) (hd : ∀ c ∈ d, Str.isWs c = true)
    (hx : Tight x) : Str.trim (a ++ x ++ d) = x := by
  unfold Str.trim Str.trimHead Str.trimTail
  rw [List.append_assoc, dropWhile_all_append a _ ha]
  cases x with
  | nil =>
    simp only [List.nil_append]
    rw [dropWhile_all d hd]; rfl
  | cons h xs =>
    have hh : Str.isWs h = false := hx.1 h rfl
    have e1 : (h :: xs ++ d).dropWhile Str.isWs = h :: xs ++ d := by
      simp [List.dropWhile_cons, hh]
    rw [e1, List.reverse_append, dropWhile_all_append d.reverse _ (fun c hc => hd c (by simpa using hc))]
    -- the reversed word starts with its last byte
    have hne : (h :: xs).reverse ≠ [] := by simp
    cases hr : (h :: xs).reverse with
    | nil => exact absurd hr hne
    | cons l ys =>
      have hl : (h :: xs).getLast? = some l := by
        have : (h :: xs) = (l :: ys).reverse := by rw [← hr, List.reverse_reverse]
        rw [this]; simp
      have hlw : Str.isWs l = false := hx.2 l hl
      simp only [List.dropWhile_cons, hlw, Bool.false_eq_true, if_false]
      rw [← hr, List.reverse_reverse]

theorem noByte_append {b : UInt8} {x y : Bytes} (hx : NoByte b x) (hy : NoByte b y) : NoByte b (x ++ y) := by
  intro c hc
  rcases List.mem_append.mp hc with h | h
  · exact hx c h
  · exact hy c h

theorem layWs_noByte10 {w : Bytes} (h : LayWs w) : NoByte 10 w := by
  intro c hc
  rcases h c hc with h | h | h <;> subst h <;> decide

theorem splitLine_nl (line rest : Bytes) (h : NoByte 10 line) : splitLine (line ++ 10 :: rest) = (line, rest) := by
  unfold splitLine
  have tw : (line ++ 10 :: rest).takeWhile (· != 10) = line := by
    induction line with
    | nil => simp
    | cons c l ih =>
      have hc : c ≠ 10 := h c (by simp)
      simp only [List.cons_append, List.takeWhile_cons, bne_iff_ne, ne_eq, hc, not_false_eq_true, if_true]
      rw [ih (fun x hx => h x (by simp [hx]))]
  simp only [tw, List.drop_left]
  rfl

theorem splitLine_last (line : Bytes) (h : NoByte 10 line) : splitLine line = (line, []) := by
  unfold splitLine
  have tw : line.takeWhile (· != 10) = line := by
    induction line with
    | nil => simp
    | cons c l ih =>
      have hc : c ≠ 10 := h c (by simp)
      simp only [List.takeWhile_cons, bne_iff_ne, ne_eq, hc, not_false_eq_true, if_true]
      rw [ih (fun x hx => h x (by simp [hx]))]
  simp [tw]

/-- a value without `$` is not touched by the expansion -/
theorem outerScan_plain (w : World) (t : Table) (v : Bytes) (h : NoByte 36 v) : ∀ (fuel : Nat), v.length < fuel →
    outerScan w t fuel (v ++ [0]) = .ok none := by
  induction v with
  | nil => intro fuel hf; cases fuel with
    | zero => simp at hf
    | succ f => simp [outerScan]
  | cons c v ih =>
    intro fuel hf
    cases fuel with
    | zero => simp at hf
    | succ f =>
      have hc : c ≠ 36 := h c (by simp)
      simp only [List.cons_append]
      unfold outerScan
      by_cases h0 : c = 0
      · simp [h0]
      · simp only [h0, if_false, hc]
        exact ih (fun x hx => h x (by simp [hx])) f (by simp at hf; omega)

theorem parsestr_plain (w : World) (t : Table) (v : Bytes) (h : NoByte 36 v) : parsestr w t v = .ok (some v) := by
  unfold parsestr parsestrLoop
  rw [outerScan_plain w t v h (v.length + 2) (by omega)]

theorem makeword_split (x y : Bytes) (sep : UInt8) (h : NoByte sep x) :
    Encode.makeword (x ++ sep :: y) sep = (x, y) := by
  unfold Encode.makeword
  have tw : (x ++ sep :: y).takeWhile (· != sep) = x := by
    induction x with
    | nil => simp
    | cons c l ih =>
      have hc : c ≠ sep := h c (by simp)
      simp only [List.cons_append, List.takeWhile_cons, bne_iff_ne, ne_eq, hc, not_false_eq_true, if_true]
      rw [ih (fun x hx => h x (by simp [hx]))]
  simp only [tw, List.drop_left]
  rfl

theorem dropWhile_snoc_false {p : UInt8 → Bool} (y : Bytes) (h : UInt8) (hp : p h = false) :
    (y ++ [h]).dropWhile p = y.dropWhile p ++ [h] := by
  induction y with
  | nil => simp [hp]
  | cons c y ih =>
    simp only [List.cons_append, List.dropWhile_cons]
    split
    · exact ih
    · rfl

/-- trimming a line whose first non-blank byte is `h` gives a string starting with `h` -/
theorem trim_head (a xs : Bytes) (h : UInt8) (ha : ∀ c ∈ a, Str.isWs c = true) (hh : Str.isWs h = false) :
    ∃ ys, Str.trim (a ++ h :: xs) = h :: ys := by
  unfold Str.trim Str.trimHead Str.trimTail
  rw [dropWhile_all_append a _ ha]
  have e1 : (h :: xs).dropWhile Str.isWs = h :: xs := by simp [List.dropWhile_cons, hh]
  rw [e1, List.reverse_cons, dropWhile_snoc_false _ _ hh, List.reverse_append]
  exact ⟨_, rfl⟩

theorem lineStep_blank (w : World) (sep : UInt8) (l : Lay) (hl : LayOk l) (sect : Option Bytes) (t : Table) :
    lineStep w sep (renderItem sep .blank l) sect t = .ok (sect, t) := by
  unfold lineStep renderItem
  have : Str.trim l.a = [] := by
    have := trim_pad l.a [] [] (layWs_isWs hl.1) (by simp) ⟨by simp, by simp⟩
    simpa using this
  simp [this]

theorem lineStep_comment (w : World) (sep : UInt8) (text : Bytes) (l : Lay) (hl : LayOk l)
    (sect : Option Bytes) (t : Table) :
    lineStep w sep (renderItem sep (.comment text) l) sect t = .ok (sect, t) := by
  unfold lineStep renderItem
  obtain ⟨ys, h⟩ := trim_head l.a text 35 (layWs_isWs hl.1) (by decide)
  have e : l.a ++ [35] ++ text = l.a ++ 35 :: text := by simp
  simp [e, h]

theorem getLast?_cons_snoc (h : UInt8) (mid : Bytes) (c : UInt8) : (h :: (mid ++ [c])).getLast? = some c := by
  induction mid generalizing h with
  | nil => simp
  | cons m mid ih => simp only [List.cons_append, List.getLast?_cons_cons]; exact ih m

theorem tight_brackets (mid : Bytes) : Tight (91 :: (mid ++ [93])) := by
  refine ⟨?_, ?_⟩
  · intro c hc; simp at hc; subst hc; decide
  · intro c hc
    rw [getLast?_cons_snoc] at hc; cases hc; decide

theorem lineStep_sect (w : World) (sep : UInt8) (hs0 : sep ≠ 0) (name : Bytes) (l : Lay) (hl : LayOk l)
    (hok : ItemOk sep (.sect name)) (sect : Option Bytes) (t : Table) :
    lineStep w sep (renderItem sep (.sect name) l) sect t =
      .ok (if name = [] then (none, t) else (some name, t ++ [(name ++ [46], name)])) := by
  obtain ⟨h10, h36, htight⟩ := hok
  unfold lineStep renderItem
  have hline : l.a ++ [91] ++ l.b ++ name ++ l.c ++ [93] ++ l.d = l.a ++ (91 :: (l.b ++ name ++ l.c ++ [93])) ++ l.d := by
    simp
  have htrim : Str.trim (l.a ++ [91] ++ l.b ++ name ++ l.c ++ [93] ++ l.d) = 91 :: (l.b ++ name ++ l.c ++ [93]) := by
    rw [hline]
    exact trim_pad _ _ _ (layWs_isWs hl.1) (layWs_isWs hl.2.2.2) (tight_brackets _)
  simp only [htrim]
  have hhdr : isHeader (91 :: (l.b ++ name ++ l.c ++ [93])) = true := by
    have hl93 : (91 :: (l.b ++ name ++ l.c ++ [93])).getLast? = some 93 := getLast?_cons_snoc _ _ _
    simp only [isHeader, hl93]
    rfl
  have hinner : (List.drop 1 (91 :: (l.b ++ name ++ l.c ++ [93]))).dropLast = l.b ++ name ++ l.c := by
    simp only [List.drop_succ_cons, List.drop_zero]
    rw [List.dropLast_append_of_ne_nil (by simp)]
    simp
  have hname0 : Str.trim ((List.drop 1 (91 :: (l.b ++ name ++ l.c ++ [93]))).dropLast) = name := by
    rw [hinner]
    exact trim_pad _ _ _ (layWs_isWs hl.2.1) (layWs_isWs hl.2.2.1) htight
  simp only [hhdr, hname0, Bool.true_and, if_true]
  have hne : ((91 :: (l.b ++ name ++ l.c ++ [93]) = []) || ((91 :: (l.b ++ name ++ l.c ++ [93])).head? == some 35)) = false := by
    simp
  simp only [hne, Bool.false_eq_true, if_false]
  by_cases hn : name = []
  · simp [hn]
  · simp only [hn, decide_false, Bool.false_eq_true, if_false]
    have hmw : Encode.makeword (sep :: name) sep = ([], name) := by
      have := makeword_split [] name sep (by intro c hc; simp at hc)
      simpa using this
    simp only [hs0, if_false]
    rw [hmw]
    have ht1 : Str.trim name = name := by
      have := trim_pad [] name [] (by simp) (by simp) htight
      simpa using this
    have ht0 : Str.trim ([] : Bytes) = [] := rfl
    simp only [ht1, ht0, parsestr_plain w t name h36, List.append_nil]

theorem tight_append {x y : Bytes} (hx : Tight x) (hy : Tight y) (hxn : x ≠ []) (hyn : y ≠ []) (m : Bytes) :
    Tight (x ++ m ++ y) := by
  refine ⟨?_, ?_⟩
  · intro c hc
    cases x with
    | nil => exact absurd rfl hxn
    | cons a xs => simp at hc; subst hc; exact hx.1 a rfl
  · intro c hc
    have : (x ++ m ++ y).getLast? = y.getLast? := by
      rw [List.getLast?_append]
      cases hy' : y.getLast? with
      | none => simp [List.getLast?_eq_none_iff] at hy'; exact absurd hy' hyn
      | some v => simp
    rw [this] at hc
    exact hy.2 c hc

/-- an entry line whose value text `value` expands to `v'` -/
theorem lineStep_entry_gen (w : World) (sep : UInt8) (hsep : Str.isWs sep = false) (hs0 : sep ≠ 0) (name value v' : Bytes) (l : Lay)
    (hl : LayOk l)
    (hok : name ≠ [] ∧ Tight name ∧ NoByte 10 name ∧ NoByte sep name ∧ name.head? ≠ some 35 ∧ name.head? ≠ some 91 ∧
      Tight value ∧ NoByte 10 value)
    (sect : Option Bytes) (t : Table) (hparse : parsestr w t value = .ok (some v')) :
    lineStep w sep (renderItem sep (.entry name value) l) sect t =
      .ok (sect, t ++ [((match sect with | some p => p ++ [46] ++ name | none => name), v')]) := by
  obtain ⟨hne, htn, hn10, hnsep, h35, h91, htv, hv10⟩ := hok
  obtain ⟨ha, hb, hc, hd⟩ := hl
  -- the trimmed line
  have hbsep : NoByte sep l.b := by
    intro c hcm hcs
    have := layWs_isWs hb c hcm
    rw [hcs] at this; rw [hsep] at this; cases this
  have hnb : NoByte sep (name ++ l.b) := noByte_append hnsep hbsep
  obtain ⟨n0, ns, hnm⟩ : ∃ n0 ns, name = n0 :: ns := by
    cases name with
    | nil => exact absurd rfl hne
    | cons a b => exact ⟨a, b, rfl⟩
  have hn0 : n0 ≠ 35 := by intro h; rw [hnm, h] at h35; simp at h35
  have hn1 : n0 ≠ 91 := by intro h; rw [hnm, h] at h91; simp at h91
  have key : ∀ (buf : Bytes), Str.trim (renderItem sep (.entry name value) l) = buf →
      buf = (name ++ l.b) ++ sep :: (if value = [] then [] else l.c ++ value) →
      lineStep w sep (renderItem sep (.entry name value) l) sect t =
        .ok (sect, t ++ [((match sect with | some p => p ++ [46] ++ name | none => name), v')]) := by
    intro buf htrim hbuf
    unfold lineStep
    simp only [htrim]
    have hhead : buf.head? = some n0 := by rw [hbuf, hnm]; simp
    have hnil : buf ≠ [] := by rw [hbuf, hnm]; simp
    have hcond : ((buf = []) || (buf.head? == some 35)) = false := by
      simp [hnil, hhead, hn0]
    have hhdr : isHeader buf = false := by
      simp [isHeader, hhead, hn1]
    simp only [hcond, hhdr, Bool.false_eq_true, if_false, Bool.false_and]
    rw [hbuf, makeword_split _ _ sep hnb]
    have ht1 : Str.trim (name ++ l.b) = name := by
      have := trim_pad [] name l.b (by simp) (layWs_isWs hb) htn
      simpa using this
    have ht2 : Str.trim (if value = [] then [] else l.c ++ value) = value := by
      by_cases hv : value = []
      · simp [hv]; rfl
      · simp only [hv, if_false]
        have := trim_pad l.c value [] (layWs_isWs hc) (by simp) htv
        simpa using this
    simp only [ht1, ht2, hparse]
    cases sect <;> rfl
  by_cases hv : value = []
  · -- `name =` : the blanks after the separator are trailing layout
    subst hv
    apply key (name ++ l.b ++ [sep])
    · have hline : renderItem sep (.entry name []) l = l.a ++ (name ++ l.b ++ [sep]) ++ (l.c ++ l.d) := by
        simp [renderItem]
      rw [hline]
      refine trim_pad _ _ _ (layWs_isWs ha) ?_ ?_
      · intro c hcm; rcases List.mem_append.mp hcm with h | h
        · exact layWs_isWs hc c h
        · exact layWs_isWs hd c h
      · refine ⟨?_, ?_⟩
        · intro c hcm; rw [hnm] at hcm; simp at hcm; subst hcm; exact htn.1 n0 (by rw [hnm]; rfl)
        · intro c hcm
          rw [List.getLast?_append] at hcm; simp at hcm; subst hcm; exact hsep
    · simp
  · apply key (name ++ l.b ++ [sep] ++ l.c ++ value)
    · have hline : renderItem sep (.entry name value) l = l.a ++ (name ++ (l.b ++ [sep] ++ l.c) ++ value) ++ l.d := by
        simp [renderItem]
      rw [hline]
      have := trim_pad l.a (name ++ (l.b ++ [sep] ++ l.c) ++ value) l.d (layWs_isWs ha) (layWs_isWs hd)
        (tight_append htn htv hne hv _)
      rw [this]; simp
    · simp [hv]

theorem lineStep_entry (w : World) (sep : UInt8) (hsep : Str.isWs sep = false) (hs0 : sep ≠ 0) (name value : Bytes) (l : Lay)
    (hl : LayOk l) (hok : ItemOk sep (.entry name value)) (sect : Option Bytes) (t : Table) :
    lineStep w sep (renderItem sep (.entry name value) l) sect t =
      .ok (sect, t ++ [((match sect with | some p => p ++ [46] ++ name | none => name), value)]) := by
  obtain ⟨hne, htn, hn10, hnsep, h35, h91, htv, hv10, hv36⟩ := hok
  exact lineStep_entry_gen w sep hsep hs0 name value value l hl ⟨hne, htn, hn10, hnsep, h35, h91, htv, hv10⟩ sect t
    (parsestr_plain w t value hv36)

def sectAfter (s : Option Bytes) : Item → Option Bytes
  | .sect name => if name = [] then none else some name
  | _ => s

def entriesOf (s : Option Bytes) : Item → Table
  | .sect name => if name = [] then [] else [(name ++ [46], name)]
  | .entry name value => [((match s with | some p => p ++ [46] ++ name | none => name), value)]
  | _ => []

theorem expected_cons (s : Option Bytes) (i : Item) (rest : List Item) :
    expected s (i :: rest) = entriesOf s i ++ expected (sectAfter s i) rest := by
  cases i with
  | blank => rfl
  | comment _ => rfl
  | sect name => by_cases h : name = [] <;> simp [expected, entriesOf, sectAfter, h]
  | entry name value => rfl

theorem lineStep_item (w : World) (sep : UInt8) (hsep : Str.isWs sep = false) (hs0 : sep ≠ 0) (i : Item) (l : Lay)
    (hok : ItemOk sep i) (hl : LayOk l) (sect : Option Bytes) (t : Table) :
    lineStep w sep (renderItem sep i l) sect t = .ok (sectAfter sect i, t ++ entriesOf sect i) := by
  cases i with
  | blank => simp [lineStep_blank w sep l hl, sectAfter, entriesOf]
  | comment text => simp [lineStep_comment w sep text l hl, sectAfter, entriesOf]
  | sect name =>
    rw [lineStep_sect w sep hs0 name l hl hok]
    by_cases h : name = [] <;> simp [sectAfter, entriesOf, h]
  | entry name value =>
    rw [lineStep_entry w sep hsep hs0 name value l hl hok]
    simp [sectAfter, entriesOf]

theorem renderItem_noNl (sep : UInt8) (hsep : Str.isWs sep = false) (hs0 : sep ≠ 0) (i : Item) (l : Lay)
    (hok : ItemOk sep i) (hl : LayOk l) : NoByte 10 (renderItem sep i l) := by
  obtain ⟨ha, hb, hc, hd⟩ := hl
  have n1 : ∀ (b : UInt8), b ≠ 10 → NoByte 10 [b] := by intro b hb c hc; simp at hc; subst hc; exact hb
  cases i with
  | blank => exact layWs_noByte10 ha
  | comment text =>
    exact noByte_append (noByte_append (layWs_noByte10 ha) (n1 35 (by decide))) hok
  | sect name =>
    exact noByte_append (noByte_append (noByte_append (noByte_append (noByte_append (noByte_append
      (layWs_noByte10 ha) (n1 91 (by decide))) (layWs_noByte10 hb)) hok.1) (layWs_noByte10 hc))
      (n1 93 (by decide))) (layWs_noByte10 hd)
  | entry name value =>
    have hs10 : sep ≠ 10 := by intro h; rw [h] at hsep; cases hsep
    exact noByte_append (noByte_append (noByte_append (noByte_append (noByte_append (noByte_append
      (layWs_noByte10 ha) hok.2.2.1) (layWs_noByte10 hb)) (n1 sep hs10)) (layWs_noByte10 hc))
      hok.2.2.2.2.2.2.2.1) (layWs_noByte10 hd)

theorem parseLoop_render (w : World) (sep : UInt8) (hsep : Str.isWs sep = false) (hs0 : sep ≠ 0) (items : List (Item × Lay)) :
    ∀ (nl : Bool) (fuel : Nat) (sect : Option Bytes) (t : Table),
    (∀ x ∈ items, ItemOk sep x.1 ∧ LayOk x.2) → (renderDoc sep items nl).length < fuel →
    parseLoop w sep fuel (renderDoc sep items nl) sect t = .ok (t ++ expected sect (items.map (·.1))) := by
  induction items with
  | nil =>
    intro nl fuel sect t _ hf
    cases fuel with
    | zero => simp at hf
    | succ f => simp [renderDoc, parseLoop, expected]
  | cons x rest ih =>
    intro nl fuel sect t hok hf
    obtain ⟨i, l⟩ := x
    obtain ⟨hi, hl⟩ := hok (i, l) (by simp)
    have hokr : ∀ y ∈ rest, ItemOk sep y.1 ∧ LayOk y.2 := fun y hy => hok y (by simp [hy])
    have hno := renderItem_noNl sep hsep hs0 i l hi hl
    cases fuel with
    | zero => simp at hf
    | succ f =>
    simp only [List.map_cons, expected_cons]
    -- the two shapes of the rendering
    by_cases hlast : rest = [] ∧ nl = false
    · obtain ⟨hr, hn⟩ := hlast
      subst hr; subst hn
      simp only [renderDoc, List.map_nil, expected, List.append_nil]
      unfold parseLoop
      by_cases hR : renderItem sep i l = []
      · have := lineStep_item w sep hsep hs0 i l hi hl sect t
        rw [hR] at this
        simp only [hR, if_true]
        -- an empty line adds nothing
        have h2 : lineStep w sep [] sect t = .ok (sect, t) := by
          simp [lineStep, Str.trim, Str.trimHead, Str.trimTail]
        rw [h2] at this
        simp only [Except.ok.injEq, Prod.mk.injEq] at this
        rw [← this.2]
      · simp only [hR, if_false, splitLine_last _ hno, lineStep_item w sep hsep hs0 i l hi hl sect t]
        cases f with
        | zero =>
          have h1 : (renderItem sep i l).length < 1 := by simpa [renderDoc] using hf
          have h2 := List.length_pos_iff.mpr hR
          omega
        | succ f' => simp [parseLoop]
    · have hshape : renderDoc sep ((i, l) :: rest) nl = renderItem sep i l ++ 10 :: renderDoc sep rest nl := by
        cases rest with
        | nil =>
          cases nl with
          | false => exact absurd ⟨rfl, rfl⟩ hlast
          | true => simp [renderDoc]
        | cons y ys => simp [renderDoc]
      rw [hshape] at hf ⊢
      unfold parseLoop
      have hne : renderItem sep i l ++ 10 :: renderDoc sep rest nl ≠ [] := by simp
      simp only [hne, if_false, splitLine_nl _ _ hno, lineStep_item w sep hsep hs0 i l hi hl sect t]
      rw [ih nl f _ _ hokr (by simp only [List.length_append, List.length_cons] at hf; omega)]
      simp

/-- the whole function on a rendered document -/
theorem parseStr_render (w : World) (sep : UInt8) (hsep : Str.isWs sep = false) (hs0 : sep ≠ 0) (items : List (Item × Lay))
    (nl : Bool) (hok : ∀ x ∈ items, ItemOk sep x.1 ∧ LayOk x.2) :
    parseStr w sep (renderDoc sep items nl) = .ok (expected none (items.map (·.1))) := by
  unfold parseStr
  have := parseLoop_render w sep hsep hs0 items nl ((renderDoc sep items nl).length + 1) none [] hok (by omega)
  simpa using this

end Qlibc.Conf.Ini

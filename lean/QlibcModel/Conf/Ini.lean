/-
  Executable model of src/extensions/qconfig.c : `qconfig_parse_str` and `_parsestr`
  (INI-style parser), at mechanism level, for the CURRENT source (after the `fix:` commits that
  bound the `${…}` expansion and free the name of an unresolved variable).

  * C strings are byte lists without NUL. The two scanning loops of `_parsestr` run over the
    buffer `value ++ [0]`; a cursor is the *suffix* of that buffer starting at the cursor
    (index = buffer length − suffix length), so a read is O(1) and a read beyond the terminator is
    the read of an empty suffix: the outcome `.error .oob`, never a default value.
  * `getenv` and `qsyscmd` (popen) are parameters (`World`); the harness wraps `popen` and
    controls the environment, the driver instantiates the same functions.
  * the table is the default `qlisttbl(0)`: `putstr` appends at the bottom (empty names are
    accepted), `getstr` searches backward from the last entry (C08's model; only the resulting
    ordered entry list matters here).
  * `qstrreplace("sn", …)` is modelled as the left-to-right, non-overlapping replacement its
    loop performs (C19 owns that function).
  * `qconfig_parse_file`: the file system is the parameter `fs : path → Option content`
    (`qfile_load`; the harness wraps `open` so that the library sees exactly the files of the
    operation line); the `@INCLUDE` directive lines are spliced one by one, at most
    `_MAX_INCLUDES` of them (current source, after the `fix:` commits).

  * NO AMBIENT STATE: the model has no `errno` that exists before the call and no notion of the kind of
    file behind a path (regular file, pipe, FIFO): results are functions of the arguments and the bytes
    delivered. The harness plants a different errno value (0, ENOMEM, ERANGE, EINTR, ENOENT, EINVAL,
    EAGAIN, ENOBUFS) before every library call and feeds documents through pipes as well as files; a
    result that depends on either is a correspondence break (a hang: the per-call watchdog).
-/
import QlibcModel.Base.Fault
import QlibcModel.Str.Spec
import QlibcModel.Encode.Model
import QlibcModel.Generated.ConfConsts

namespace Qlibc.Conf.Ini
open Qlibc Qlibc.Generated.Conf

abbrev Table := List (Bytes × Bytes)

/-- `tbl->getstr(tbl, name, true)` on a default list table: the LAST entry with that name -/
def tblGet (t : Table) (name : Bytes) : Option Bytes :=
  match t.reverse.find? (fun e => e.1 == name) with
  | some e => some e.2
  | none => none

/-- the outside world of `_parsestr` -/
structure World where
  getenv : Bytes → Option Bytes
  /-- `qsyscmd(cmd)`: `none` when `popen` fails, otherwise everything the command printed -/
  syscmd : Bytes → Option Bytes

/-! ### `qstrreplace("sn", src, tok, word)` -/

/-- the `for (srcp = srcstr; *srcp; srcp++)` loop of the 's' method: at every position where
    `tok` is a prefix of the rest emit `word` and skip `|tok|` bytes, else copy one byte.
    `skip` = bytes still to be skipped, `acc` = output so far, reversed (tail recursive: values
    can reach `_MAX_VALUESIZE` bytes). -/
def replaceGo (tok word : Bytes) : (skip : Nat) → (src : Bytes) → (acc : Bytes) → Bytes
  | _, [], acc => acc.reverse
  | skip + 1, _ :: rest, acc => replaceGo tok word skip rest acc
  | 0, c :: rest, acc =>
    if tok.isPrefixOf (c :: rest) then replaceGo tok word (tok.length - 1) rest (word.reverse ++ acc)
    else replaceGo tok word 0 rest (c :: acc)

def replaceAll (tok word src : Bytes) : Bytes := replaceGo tok word 0 src []

/-! ### `_parsestr` -/

/-- how the inner `for (e = s + 2; *e != '\0'; e++)` loop ends -/
inductive Inner where
  | eos                                    -- `*e == '\0'`: bracket mismatch
  | nested (atE : Bytes)                   -- an internal `${` starts at `e` (cursor = suffix at e)
  | closed (name after : Bytes)            -- `e` is at the matching `}`; `after` = suffix at e+1
  deriving Repr

/-- inner loop; `e` is the suffix at the cursor, `br` = `openedbrakets` (≥ 1), `acc` = the bytes
    between `s + 2` and `e`, reversed -/
def innerScan : (e : Bytes) → (br : Nat) → (acc : Bytes) → Except Fault Inner
  | [], _, _ => .error .oob
  | c :: rest, br, acc =>
    if c = 0 then .ok .eos
    else if c = 36 then                      -- '$' : test `*(e + 1) == '{'`
      match rest with
      | [] => .error .oob
      | d :: _ => if d = 123 then .ok (.nested (c :: rest)) else innerScan rest br (c :: acc)
    else if c = 123 then innerScan rest (br + 1) (c :: acc)
    else if c = 125 then
      if br = 1 then .ok (.closed acc.reverse rest) else innerScan rest (br - 1) (c :: acc)
    else innerScan rest br (c :: acc)

/-- the `switch (varstr[0])`: the replacement text, or `none` for a table key that is not found -/
def resolve (w : World) (t : Table) (name : Bytes) : Option Bytes :=
  match name with
  | [] => some []                                        -- `${}`
  | 33 :: cmd =>                                         -- '!' command
    if cmd = [] then some []
    else match w.syscmd cmd with
      | some out => some (Str.trim out)
      | none => some []
  | 37 :: var =>                                         -- '%' environment
    if var = [] then some []
    else some ((w.getenv var).getD [])
  | _ => tblGet t name

/-- the outer `for (s = value; *s != '\0'; s++)` loop up to the first substitution.
    `none`: the scan ended without substitution (`loop` stays false);
    `some (token, newstr)`: `${name}` is to be replaced by `newstr` everywhere. -/
def outerScan (w : World) (t : Table) : (fuel : Nat) → (s : Bytes) → Except Fault (Option (Bytes × Bytes))
  | 0, _ => .error .outOfFuel
  | _ + 1, [] => .error .oob
  | fuel + 1, c :: rest =>
    if c = 0 then .ok none
    else if c = 36 then
      match rest with
      | [] => .error .oob
      | d :: rest2 =>
        if d ≠ 123 then outerScan w t fuel rest
        else
          match innerScan rest2 1 [] with
          | .error f => .error f
          | .ok .eos => .ok none                          -- braket mismatch: break
          | .ok (.nested atE) => outerScan w t fuel atE   -- s = e - 1; continue
          | .ok (.closed name after) =>
            match resolve w t name with
            | some new => .ok (some ([36, 123] ++ name ++ [125], new))
            | none => outerScan w t fuel after            -- s = e; continue
    else outerScan w t fuel rest

/-- the `do { … } while (loop)` of `_parsestr`; `left` = substitution rounds still allowed
    (`_MAX_EXPANSIONS − rounds`). `none` = NULL (errno ELOOP). -/
def parsestrLoop (w : World) (t : Table) : (left : Nat) → (value : Bytes) → Except Fault (Option Bytes)
  | left, value =>
    match outerScan w t (value.length + 2) (value ++ [0]) with
    | .error f => .error f
    | .ok none => .ok (some value)
    | .ok (some (tok, new)) =>
      let value' := replaceAll tok new value
      match left with
      | 0 => .ok none                                     -- ++rounds > _MAX_EXPANSIONS
      | left' + 1 =>
        if value'.length > maxValueSize then .ok none
        else parsestrLoop w t left' value'

def parsestr (w : World) (t : Table) (str : Bytes) : Except Fault (Option Bytes) :=
  parsestrLoop w t maxExpansions str

/-! ### `qconfig_parse_str` -/

/-- one line: the bytes before the first `\n`, and what follows that `\n` -/
def splitLine (s : Bytes) : Bytes × Bytes :=
  let line := s.takeWhile (· != 10)
  (line, (s.drop line.length).drop 1)

/-- is the trimmed line a section header `[ … ]` ? (`buf[0] == '[' && buf[strlen(buf)-1] == ']'`) -/
def isHeader (buf : Bytes) : Bool := buf.head? == some 91 && buf.getLast? == some 93

/-- the body of the main loop for one line (already cut out of the text): the section in effect
    and the table afterwards -/
def lineStep (w : World) (sep : UInt8) (line : Bytes) (sect : Option Bytes) (t : Table) :
    Except Fault (Option Bytes × Table) :=
  let buf := Str.trim line
  if buf = [] || buf.head? == some 35 then .ok (sect, t)                -- blank or comment line
  else
    -- section header
    let hdr := isHeader buf
    let name0 := Str.trim ((buf.drop 1).dropLast)
    if hdr && name0 = [] then .ok (none, t)                              -- `[]`
    else
      let sect' := if hdr then some name0 else sect
      -- sprintf(buf, "%c%s", sepchar, section): with sepchar '\0' the C string in buf is EMPTY
      let buf' := if hdr then (if sep = 0 then [] else sep :: name0) else buf
      let (nm, vl) := Encode.makeword buf' sep
      let value := Str.trim vl
      let name1 := Str.trim nm
      let name := match sect' with
        | some s => s ++ [46] ++ name1
        | none => name1
      match parsestr w t value with
      | .error f => .error f
      | .ok (some v) => .ok (sect', t ++ [(name, v)])
      | .ok none => .ok (sect', t)                                       -- NULL: entry not stored

/-- the main loop; `rest` = text from `offset` on, `sect` = `section` -/
def parseLoop (w : World) (sep : UInt8) : (fuel : Nat) → (rest : Bytes) → (sect : Option Bytes) →
    (t : Table) → Except Fault Table
  | 0, _, _, _ => .error .outOfFuel
  | fuel + 1, rest, sect, t =>
    if rest = [] then .ok t
    else
      let (line, rest') := splitLine rest
      match lineStep w sep line sect t with
      | .error f => .error f
      | .ok (sect', t') => parseLoop w sep fuel rest' sect' t'

/-- `qconfig_parse_str(NULL, str, sepchar)` for `str ≠ NULL`, `sepchar ≠ '\0'` -/
def parseStr (w : World) (sep : UInt8) (str : Bytes) : Except Fault Table :=
  parseLoop w sep (str.length + 1) str none []

/-! ### `qconfig_parse_file`: the `@INCLUDE` splice -/

/-- `_INCLUDE_DIRECTIVE` = "@INCLUDE " -/
def directive : Bytes := [64, 73, 78, 67, 76, 85, 68, 69, 32]

/-- the `while ((strp = strstr(strp, "@INCLUDE ")) != NULL)` search up to the first occurrence
    that stands at the beginning of a line (`strp == str || strp[-1] == '\n'`; occurrences elsewhere
    are stepped over): the text before it (reversed accumulator `pre`) and the text behind the
    directive. `atStart` = the cursor is at the beginning of a line. -/
def findInclude : (s : Bytes) → (atStart : Bool) → (pre : Bytes) → Option (Bytes × Bytes)
  | [], _, _ => none
  | c :: r, atStart, pre =>
    if atStart && directive.isPrefixOf (c :: r) then some (pre.reverse, (c :: r).drop directive.length)
    else findInclude r (c == 10) (c :: pre)

/-- `dirname(3)` as used by `qfile_get_dir` (paths without NUL) -/
def dirname (p : Bytes) : Bytes :=
  let strip (x : Bytes) : Bytes := (x.reverse.dropWhile (· == 47)).reverse
  if p = [] then [46]
  else
    let q := strip p
    if q = [] then [47]                                   -- only slashes
    else if !q.contains 47 then [46]                      -- no directory part
    else
      let d := strip ((q.reverse.dropWhile (· != 47)).reverse)
      if d = [] then [47] else d

/-- the include loop. `head` = text already scanned (before `strp`), `rest` = text from `strp`
    on (always the beginning of a line), `left` = `_MAX_INCLUDES − includes`.
    `none` = the function returns NULL. -/
def includeLoop (fs : Bytes → Option Bytes) (dir : Bytes) : (left : Nat) → (head rest : Bytes) → Option Bytes
  | left, head, rest =>
    match findInclude rest true [] with
    | none => some (head ++ rest)
    | some (pre, after) =>
      match left with
      | 0 => none                                          -- ++includes > _MAX_INCLUDES : ELOOP
      | left' + 1 =>
        let raw := after.takeWhile (· != 10)               -- text up to the end of the line
        let tail := after.drop raw.length
        if raw.length ≥ pathMax then none
        else
          let buf := Str.trim raw
          let full : Option Bytes :=
            if buf.head? == some 47 || buf.head? == some 92 then some buf       -- absolute
            else if dir.length + 1 + buf.length ≥ pathMax then none
            else some (dir ++ [47] ++ buf)
          match full with
          | none => none
          | some path =>
            if path = [] then none
            else match fs path with
              | none => none                               -- qfile_load failed
              | some data =>
                includeLoop fs dir left' (head ++ pre) (data.takeWhile (· != 0) ++ tail)

/-- `qconfig_parse_file(NULL, filepath, sepchar)`: `none` = NULL -/
def parseFile (w : World) (fs : Bytes → Option Bytes) (sep : UInt8) (filepath : Bytes) :
    Except Fault (Option Table) :=
  match fs filepath with
  | none => .ok none
  | some data =>
    match includeLoop fs (dirname filepath) maxIncludes [] (data.takeWhile (· != 0)) with
    | none => .ok none
    | some str =>
      match parseStr w sep str with
      | .error f => .error f
      | .ok t => .ok (some t)

/-- the file system of the harness: the `(path, content)` pairs of the operation line, first match -/
def fsLookup (files : List (Bytes × Bytes)) (path : Bytes) : Option Bytes :=
  match files.find? (fun e => e.1 == path) with
  | some e => some e.2
  | none => none

/-! ### the world the harness provides -/

/-- glibc `getenv` over an environment given as `NAME=VALUE` strings: the first entry that
    starts with `name ++ "="` -/
def envLookup (env : List Bytes) (name : Bytes) : Option Bytes :=
  match env.find? (fun e => (name ++ [61]).isPrefixOf e) with
  | some e => some (e.drop (name.length + 1))
  | none => none

/-- the `popen` stub of harness/conf.c: `N…` cannot be started, `E…` prints nothing, `R<n>` prints
    n bytes, everything else prints `" [" cmd "] \n"` -/
def stubCmd (cmd : Bytes) : Option Bytes :=
  match cmd with
  | 78 :: _ => none
  | 69 :: _ => some []
  | 82 :: ds =>
    -- `R<n>` (1..8 decimal digits): exactly n bytes, byte i = 'a' + i % 23
    if ds ≠ [] && ds.length ≤ 8 && ds.all (fun c => 48 ≤ c && c ≤ 57) then
      some ((List.range (ds.foldl (fun a c => a * 10 + (c.toNat - 48)) 0)).map fun i => (97 + i % 23).toUInt8)
    else some ([32, 91] ++ cmd ++ [93, 32, 10])
  | _ => some ([32, 91] ++ cmd ++ [93, 32, 10])

def harnessWorld (env : List Bytes) : World := { getenv := envLookup env, syscmd := stubCmd }

end Qlibc.Conf.Ini

/-
  Totality of the Apache-style parser model (C17 aconf_parse_total): no fault, enough fuel.
-/
import QlibcModel.Conf.AconfTok
namespace Qlibc.Conf.Aconf
open Qlibc Qlibc.Generated.Conf

theorem fgets_shorter (inp chunk rest : Bytes) (h : fgets inp = some (chunk, rest)) : rest.length < inp.length := by
  unfold fgets at h
  by_cases he : inp = []
  · simp [he] at h
  · simp only [he, if_false, Option.some.injEq, Prod.mk.injEq] at h
    obtain ⟨-, hr⟩ := h
    rw [← hr]
    have hpos : 0 < inp.length := List.length_pos_iff.mpr he
    have hlim : 0 < (inp.take (maxLineSize - 1)).length := by
      simp only [List.length_take]; have : maxLineSize - 1 = 4095 := by decide
      omega
    simp only [List.length_drop]
    split <;> omega

theorem brackets_total (buf : Bytes) : ∃ r, brackets buf = .ok r := by
  unfold brackets
  by_cases h1 : buf.head? = some 60
  · simp only [h1, beq_self_eq_true, if_true]
    by_cases h2 : buf.getLast? = some 62
    · have hne : (buf.getLast? != some 62) = false := by simp [h2]
      simp only [hne, Bool.false_eq_true, if_false]
      -- buf = '<' :: sp with sp ≠ [] ending in '>'
      cases buf with
      | nil => simp at h1
      | cons b sp =>
        simp only [List.head?_cons, Option.some.injEq] at h1
        subst h1
        simp only [List.drop_succ_cons, List.drop_zero]
        cases sp with
        | nil => simp at h2
        | cons c sp2 =>
          have h2' : (c :: sp2).getLast? = some 62 := by simpa [List.getLast?_cons_cons] using h2
          by_cases hc : c = 47
          · subst hc
            simp only [List.head?_cons, beq_self_eq_true, if_true, List.drop_succ_cons, List.drop_zero]
            cases sp2 with
            | nil => simp at h2'
            | cons d sp3 => simp
          · simp [hc]
    · have hne : (buf.getLast? != some 62) = true := by simp [h2]
      simp [hne]
  · have : (buf.head? == some 60) = false := by simp [h1]
    simp [this]

/-- `dispatch` can only fault on the `ASSERT(cbdata_parent != NULL)` of a section close -/
theorem dispatch_total (cfg : Cfg) (sid : Nat) (parent : Option CbData) (ns : Nat) (cb0 : CbData)
    (h : cb0.otype = otypeClose → parent ≠ none) : ∃ s, dispatch cfg sid parent ns cb0 = .ok s := by
  unfold dispatch
  simp only []
  split
  · rename_i o _
    split
    · exact ⟨_, rfl⟩
    · split
      · exact ⟨_, rfl⟩
      · split
        · exact ⟨_, rfl⟩
        · exact ⟨_, rfl⟩
        · exact ⟨_, rfl⟩
        · split
          · exact ⟨_, rfl⟩
          · split
            · exact ⟨_, rfl⟩
            · rename_i hcl
              have hcl' : cb0.otype = otypeClose := by simpa using hcl
              cases parent with
              | none => exact absurd rfl (h hcl')
              | some p => exact ⟨_, rfl⟩
  · split
    · exact ⟨_, rfl⟩
    · split <;> exact ⟨_, rfl⟩

/-! ### draining the rest of an over-long line -/

theorem drain_le (s r : Bytes) : (drain s r).1.length ≤ r.length := by
  unfold drain
  split
  · simp only [List.length_drop]
    have := (List.dropWhile_sublist (· != 10) (l := r)).length_le
    omega
  · exact Nat.le_refl _

theorem drain_not_full (s r : Bytes) (h : ¬ (s.length = maxLineSize - 1 ∧ s.getLast? ≠ some 10)) :
    drain s r = (r, false) := by
  unfold drain; simp only [h, if_false]

/-- a buffer that ends with the newline is a complete line -/
theorem drain_nl (line r : Bytes) : drain (line ++ [10]) r = (r, false) :=
  drain_not_full _ _ (by intro h; exact h.2 (by simp))

/-- so is a buffer that is not full -/
theorem drain_short (s r : Bytes) (h : s.length + 1 < maxLineSize) : drain s r = (r, false) :=
  drain_not_full _ _ (by intro hh; omega)

theorem parseInline_total (cfg : Cfg) (fuel : Nat) : ∀ (sid : Nat) (parent : Option CbData) (oc ns : Nat) (st : PState),
    st.input.length < fuel →
    ∃ st' r, parseInline cfg fuel sid parent oc ns st = .ok (st', r) ∧ st'.input.length ≤ st.input.length := by
  induction fuel with
  | zero => intro sid parent oc ns st hf; simp at hf
  | succ fuel ih =>
    intro sid parent oc ns st hf
    unfold parseInline
    cases hfg : fgets st.input with
    | none =>
      cases parent with
      | none => exact ⟨_, _, rfl, Nat.le_refl _⟩
      | some p => exact ⟨_, _, rfl, Nat.le_refl _⟩
    | some cr =>
      obtain ⟨chunk, rest0⟩ := cr
      have hsh := fgets_shorter _ _ _ hfg
      have hdl := drain_le (chunk.takeWhile (· != 0)) rest0
      simp only []
      generalize drain (chunk.takeWhile (· != 0)) rest0 = dr at hdl ⊢
      obtain ⟨rest, toolong⟩ := dr
      simp only [] at hdl ⊢
      have hfr : rest.length < fuel := by omega
      split
      · exact ⟨_, _, rfl, by simp only []; omega⟩
      split
      · -- blank or comment line
        obtain ⟨st', r, h1, h2⟩ := ih sid parent oc ns { st with input := rest, lineno := st.lineno + 1 } hfr
        exact ⟨st', r, h1, by simp only [] at h2; omega⟩
      · obtain ⟨br, hbr⟩ := brackets_total (Str.trim (chunk.takeWhile (· != 0)))
        rw [hbr]
        cases br with
        | none => exact ⟨_, _, rfl, by simp only []; omega⟩
        | some os =>
          obtain ⟨otype, sp⟩ := os
          simp only []
          split
          · exact ⟨_, _, rfl, by simp only []; omega⟩
          · obtain ⟨tr, htr⟩ := tokenize_total sp
            rw [htr]
            cases tr with
            | unclosedQuote => exact ⟨_, _, rfl, by simp only []; omega⟩
            | args argv =>
              simp only []
              have fin : ∀ (parent' : Option CbData) (cb0 : CbData), (cb0.otype = otypeClose → parent' ≠ none) →
                  cb0.otype = otype →
                  ∃ st' r, (match dispatch cfg sid parent' ns cb0 with
                    | Except.error f => Except.error f
                    | Except.ok stp =>
                      match stp.err with
                      | some m =>
                        Except.ok
                          (({ input := rest, lineno := st.lineno + 1, events := stp.events.reverse ++ st.events } : PState),
                            Res.err (st.lineno + 1) m)
                      | none =>
                        if otype = otypeOpen then
                          match
                            parseInline cfg fuel stp.nsid (some stp.cb) 0 0
                              { input := rest, lineno := st.lineno + 1, events := stp.events.reverse ++ st.events } with
                          | Except.error f => Except.error f
                          | Except.ok (st2, Res.err l m) => Except.ok (st2, Res.err l m)
                          | Except.ok (st2, Res.count n2) => parseInline cfg fuel sid parent' (oc + n2 + 1) stp.nsid st2
                        else
                          if otype = otypeClose then
                            Except.ok
                              ({ input := rest, lineno := st.lineno + 1, events := stp.events.reverse ++ st.events },
                                Res.count (oc + 1))
                          else
                            parseInline cfg fuel sid parent' (oc + 1) stp.nsid
                              { input := rest, lineno := st.lineno + 1, events := stp.events.reverse ++ st.events }) =
                    Except.ok (st', r) ∧ st'.input.length ≤ st.input.length := by
                intro parent' cb0 hcl hot
                obtain ⟨stp, hd⟩ := dispatch_total cfg sid parent' ns cb0 hcl
                rw [hd]
                simp only []
                cases stp.err with
                | some m => exact ⟨_, _, rfl, by simp only []; omega⟩
                | none =>
                  simp only []
                  split
                  · obtain ⟨st2, r2, h1, h2⟩ := ih stp.nsid (some stp.cb) 0 0
                      { input := rest, lineno := st.lineno + 1, events := stp.events.reverse ++ st.events } hfr
                    rw [h1]
                    cases r2 with
                    | err l m => exact ⟨_, _, rfl, by simp only [] at h2 ⊢; omega⟩
                    | count n2 =>
                      simp only [] at h2 ⊢
                      obtain ⟨st3, r3, h3, h4⟩ := ih sid parent' (oc + n2 + 1) stp.nsid st2 (by omega)
                      exact ⟨st3, r3, h3, by omega⟩
                  · split
                    · exact ⟨_, _, rfl, by simp only []; omega⟩
                    · obtain ⟨st3, r3, h3, h4⟩ := ih sid parent' (oc + 1) stp.nsid
                        { input := rest, lineno := st.lineno + 1, events := stp.events.reverse ++ st.events } hfr
                      exact ⟨st3, r3, h3, by simp only [] at h4; omega⟩
              cases parent with
              | none =>
                simp only []
                by_cases hcl : otype = otypeClose
                · rw [if_pos (by simp [hcl])]
                  exact ⟨_, _, rfl, by simp only []; omega⟩
                · rw [if_neg (by simp [hcl])]
                  apply fin none
                  · intro h; exact absurd h hcl
                  · rfl
              | some p =>
                simp only []
                split
                · exact ⟨_, _, rfl, by simp only []; omega⟩
                · apply fin (some p)
                  · intro _; simp
                  · rfl

/-- the whole parse returns the callback stream and a count or an error line -/
theorem parse_total (cfg : Cfg) (file : Bytes) : ∃ r, parse cfg file = .ok r := by
  unfold parse
  obtain ⟨st', r, h, _⟩ := parseInline_total cfg (file.length + 1) qacSectionRoot none 0 0 ⟨file, 0, []⟩ (by simp)
  rw [h]
  exact ⟨_, rfl⟩

end Qlibc.Conf.Aconf

/-
  The qaconf parser OBJECT across calls (`parse`, `errmsg`, `reseterror` of qaconf.c).

  `Aconf.parse` models one `parse()` call on a fresh object.  A `qaconf_t` lives longer: it keeps
  `filepath`, `lineno` and `errstr` from one call to the next.  `Obj.parse` transcribes the "Set info"
  block of `parse()` - `qaconf->filepath = strdup(filepath); qaconf->lineno = 0;` - followed by
  `_parse_inline` from the root; `errstr` is overwritten by `_seterrmsg` when the call fails and is
  otherwise left as it was (only `reseterror` clears it).
-/
import QlibcModel.Conf.Aconf

namespace Qlibc.Conf.Aconf
open Qlibc Qlibc.Generated.Conf

/-- the fields of `qaconf_t` that survive a call -/
structure Obj where
  filepath : Option Bytes := none
  lineno : Nat := 0
  /-- `errstr`, as (line, message): the text is `"<filepath>:<line> <message>"` -/
  errstr : Option (Bytes × Nat × Bytes) := none
  deriving Repr, DecidableEq

/-- `qaconf()` : every field zero -/
def Obj.fresh : Obj := {}

/-- `reseterror(qaconf)` -/
def Obj.reseterror (o : Obj) : Obj := { o with errstr := none }

/-- `parse(qaconf, filepath, flags)` for a readable file with content `file`: the object afterwards,
    the callbacks in order, the return value / error -/
def Obj.parse (cfg : Cfg) (o : Obj) (path file : Bytes) : Except Fault (Obj × List Event × Res) :=
  -- Set info: filepath := strdup(filepath); lineno := 0
  let o1 : Obj := { o with filepath := some path, lineno := 0 }
  match parseInline cfg (file.length + 1) qacSectionRoot none 0 0 ⟨file, o1.lineno, []⟩ with
  | .error f => .error f
  | .ok (st, r) =>
    let e := match r with
      | .err l m => some (path, l, m)          -- _seterrmsg replaces whatever was there
      | .count _ => o1.errstr                  -- a successful call leaves errstr alone
    .ok ({ o1 with lineno := st.lineno, errstr := e }, st.events.reverse, r)

/-- a history of earlier uses of the object: parses (of any path and content) and `reseterror` calls -/
inductive Use where
  | parse (path file : Bytes)
  | reset

/-- run a history; a faulting parse leaves the object as it was before that call -/
def Obj.uses (cfg : Cfg) : Obj → List Use → Obj
  | o, [] => o
  | o, .reset :: us => Obj.uses cfg o.reseterror us
  | o, .parse p f :: us =>
    match o.parse cfg p f with
    | .ok (o', _, _) => Obj.uses cfg o' us
    | .error _ => Obj.uses cfg o us

/-- One call on ANY object delivers exactly what a call on a fresh object delivers: the callbacks
    and the result (count, or line and message of the first offence) do not depend on what the
    object parsed before. -/
theorem Obj.parse_result_eq (cfg : Cfg) (o : Obj) (path file : Bytes) :
    (o.parse cfg path file).map (fun x => (x.2.1, x.2.2)) = Aconf.parse cfg file := by
  dsimp only [Obj.parse, Aconf.parse]
  cases hpi : parseInline cfg (file.length + 1) qacSectionRoot none 0 0 ⟨file, 0, []⟩ with
  | error f => rfl
  | ok x => rfl

/-- ... for every history of earlier parses and resets -/
theorem Obj.parse_after_history (cfg : Cfg) (us : List Use) (path file : Bytes) :
    ((Obj.uses cfg Obj.fresh us).parse cfg path file).map (fun x => (x.2.1, x.2.2)) = Aconf.parse cfg file :=
  Obj.parse_result_eq cfg _ path file

/-- after a failed call `errmsg` names THIS file and the line of THIS call's first offence -/
theorem Obj.errmsg_of_failure (cfg : Cfg) (o : Obj) (path file : Bytes) {o' : Obj} {evs : List Event} {l : Nat} {m : Bytes}
    (h : o.parse cfg path file = Except.ok (o', evs, Res.err l m)) :
    o'.errstr = some (path, l, m) ∧ Aconf.parse cfg file = Except.ok (evs, Res.err l m) := by
  have hp := Obj.parse_result_eq cfg o path file
  rw [h] at hp
  refine ⟨?_, hp.symm⟩
  dsimp only [Obj.parse, Obj.reseterror] at h
  cases hpi : parseInline cfg (file.length + 1) qacSectionRoot none 0 0 ⟨file, 0, []⟩ with
  | error f => rw [hpi] at h; cases h
  | ok x =>
    obtain ⟨st, r⟩ := x
    rw [hpi] at h
    simp only [Except.ok.injEq, Prod.mk.injEq] at h
    obtain ⟨ho, _, hr⟩ := h
    subst ho; subst hr; rfl

/-- after `reseterror` and a successful call there is no error text -/
theorem Obj.errmsg_after_reset_success (cfg : Cfg) (o : Obj) (path file : Bytes) {o' : Obj} {evs : List Event} {n : Nat}
    (h : o.reseterror.parse cfg path file = Except.ok (o', evs, Res.count n)) : o'.errstr = none := by
  dsimp only [Obj.parse, Obj.reseterror] at h
  cases hpi : parseInline cfg (file.length + 1) qacSectionRoot none 0 0 ⟨file, 0, []⟩ with
  | error f => rw [hpi] at h; cases h
  | ok x =>
    obtain ⟨st, r⟩ := x
    rw [hpi] at h
    simp only [Except.ok.injEq, Prod.mk.injEq] at h
    obtain ⟨ho, _, hr⟩ := h
    subst ho; subst hr; rfl

end Qlibc.Conf.Aconf

/-
  Executable model of `qfile_read(fp, nbytes)` (src/utilities/qfile.c), the routine behind
  `qsyscmd` and therefore behind every `${!command}` of an INI value: the stream is read byte by
  byte (`fgetc`: no short reads to schedule - the stream is the list of bytes it will deliver),
  the block starts at `memsize` (+1) bytes and is replaced by one of `2 * memsize + 1` bytes whenever
  `c_count == memsize - 1`; the terminator is stored at `data[c_count]` after the loop.
  Blocks are byte lists of exactly the allocated size, every access is checked.
-/
import QlibcModel.Base.Fault

namespace Qlibc.Conf.FileRead
open Qlibc

def fillByte : UInt8 := 0xAA

/-- `datatmp = malloc(memsize * 2 + 1); memcpy(datatmp, data, c_count); free(data)` -/
def grow (d : Bytes) (memsize cc : Nat) : Except Fault Bytes :=
  if cc ≤ d.length then .ok (d.take cc ++ List.replicate (2 * memsize + 1 - cc) fillByte) else .error .oob

/-- one iteration after the `size` test: first allocation / growth, then `data[c_count++] = c` -/
def step (data : Option Bytes) (memsize cc : Nat) (c : UInt8) : Except Fault (Bytes × Nat) := do
  let (blk, m) ←
    (if cc = 0 then pure (List.replicate (memsize + 1) fillByte, memsize)      -- malloc(memsize + 1)
     else match data with
       | none => .error .nullDeref
       | some d =>
         if cc = memsize - 1 then do
           let nb ← grow d memsize cc
           pure (nb, 2 * memsize)
         else pure (d, memsize) : Except Fault (Bytes × Nat))
  let blk ← wr blk cc c
  pure (blk, m)

/-- `for (c_count = 0; (c = fgetc(fp)) != EOF;)`; returns the block, `c_count` and whether the
    loop ended by EOF -/
def readLoop (size : Nat) : (inp : Bytes) → (data : Option Bytes) → (memsize cc : Nat) →
    Except Fault (Option Bytes × Nat × Bool)
  | [], data, _, cc => .ok (data, cc, true)
  | c :: rest, data, memsize, cc =>
    if 0 < size ∧ cc = size then .ok (data, cc, false)
    else
      match step data memsize cc c with
      | .error f => .error f
      | .ok (blk, m) => readLoop size rest (some blk) m (cc + 1)

/-- `qfile_read(fp, nbytes)`: `nbytes = none` is the NULL pointer; `none` result = NULL;
    otherwise the block and the count stored to `*nbytes` -/
def qfileRead (nbytes : Option Nat) (inp : Bytes) : Except Fault (Option (Bytes × Nat)) := do
  let size := nbytes.getD 0
  let memsize := if 0 < size then size else 1024
  let (data, cc, eof) ← readLoop size inp none memsize 0
  if cc = 0 ∧ eof then pure none
  else match data with
    | none => .error .nullDeref
    | some d => do
      let d ← wr d cc 0
      pure (some (d, cc))

end Qlibc.Conf.FileRead

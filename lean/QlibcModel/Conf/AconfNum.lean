/-
  Lemmas about `_is_str_number` and `_is_str_bool` (C20: ac_number, ac_bool).
-/
import QlibcModel.Conf.Aconf
namespace Qlibc.Conf.Aconf
open Qlibc

theorem numLoop_some (rest : Bytes) (pos d : Nat) :
    numLoop rest pos (some d) = if rest.all isDigit then some (pos + rest.length, some d) else none := by
  induction rest generalizing pos with
  | nil => simp [numLoop]
  | cons c rest ih =>
    unfold numLoop
    cases hd : isDigit c
    · by_cases h46 : c = 46
      · subst h46; simp [hd]
      · simp [h46, hd]
    · simp only [if_true, ih, List.all_cons, hd, Bool.true_and, List.length_cons]
      split
      · simp; omega
      · rfl

theorem numLoop_none (rest : Bytes) (pos : Nat) :
    numLoop rest pos none =
      match rest.dropWhile isDigit with
      | [] => some (pos + rest.length, none)
      | 46 :: b =>
        if pos + (rest.takeWhile isDigit).length = 0 then none
        else if b.all isDigit then some (pos + rest.length, some (pos + (rest.takeWhile isDigit).length))
        else none
      | _ :: _ => none := by
  induction rest generalizing pos with
  | nil => simp [numLoop]
  | cons c rest ih =>
    unfold numLoop
    cases hd : isDigit c
    · simp only [Bool.false_eq_true, if_false, List.dropWhile_cons, hd, List.takeWhile_cons, List.length_nil,
        Nat.add_zero, Option.isSome_none]
      by_cases h46 : c = 46
      · subst h46
        simp only [if_true]
        by_cases hp : pos = 0
        · simp [hp]
        · simp only [hp, if_false]
          rw [numLoop_some]
          simp only [List.length_cons]
          have e : pos + 1 + rest.length = pos + (rest.length + 1) := by omega
          rw [e]
      · simp only [h46, if_false]
    · simp only [if_true, List.dropWhile_cons, hd, List.takeWhile_cons, List.length_cons]
      rw [ih]
      have e1 : pos + 1 + (List.takeWhile isDigit rest).length = pos + ((List.takeWhile isDigit rest).length + 1) := by omega
      have e2 : pos + 1 + rest.length = pos + (rest.length + 1) := by omega
      have e3 : pos + ((List.takeWhile isDigit rest).length + 1) ≠ 0 := by omega
      split <;> simp only [e1, e2, e3, if_false]

/-- the documented reading of the argument types: an optional `-`, then `digits` (integer, 1)
    or `digits . digits` (floating point, 2), at least one digit on each side; otherwise 0 -/
def classify (s : Bytes) : Nat :=
  let body := stripMinus s
  let a := body.takeWhile isDigit
  match body.dropWhile isDigit with
  | [] => if a ≠ [] then 1 else 0
  | 46 :: b => if a ≠ [] ∧ b ≠ [] ∧ b.all isDigit then 2 else 0
  | _ :: _ => 0

theorem isStrNumber_eq_classify (s : Bytes) : isStrNumber s = classify s := by
  unfold isStrNumber classify
  generalize stripMinus s = body
  simp only [numLoop_none, Nat.zero_add]
  have hlen : (body.takeWhile isDigit).length + (body.dropWhile isDigit).length = body.length := by
    rw [← List.length_append, List.takeWhile_append_dropWhile]
  generalize hd : body.dropWhile isDigit = dw at hlen
  cases dw with
  | nil =>
    simp only [List.length_nil, Nat.add_zero] at hlen
    by_cases hb : body = []
    · simp [hb]
    · have : body.length ≠ 0 := by simpa using hb
      have ha : body.takeWhile isDigit ≠ [] := by
        intro h0; rw [h0] at hlen; simp at hlen; exact this hlen.symm
      simp [this, ha]
  | cons c b =>
    by_cases h46 : c = 46
    case neg => simp
    subst h46
    simp only [List.length_cons] at hlen
    by_cases ha : body.takeWhile isDigit = []
    · simp [ha]
    · have ha' : (body.takeWhile isDigit).length ≠ 0 := by simpa using ha
      simp only [ha', if_false, ne_eq, ha, not_false_eq_true, true_and]
      by_cases hall : b.all isDigit = true
      · simp only [hall, if_true]
        have : body.length ≠ 0 := by omega
        simp only [this, if_false]
        by_cases hb : b = []
        · subst hb; simp at hlen; simp [hlen]
        · have : b.length ≠ 0 := by simpa using hb
          have h2 : ¬ ((body.takeWhile isDigit).length + 1 = body.length) := by omega
          simp [h2, hb]
      · simp [hall]

/-! ### bool -/

def trueWords : List Bytes := [[116, 114, 117, 101], [111, 110], [121, 101, 115], [49]]
def falseWords : List Bytes := [[102, 97, 108, 115, 101], [111, 102, 102], [110, 111], [48]]

/-- the documented reading of BOOL: true/on/yes/1 and false/off/no/0 in any letter case -/
def boolSpec (s : Bytes) : Option Bool :=
  if s.map lower ∈ trueWords then some true
  else if s.map lower ∈ falseWords then some false
  else none

theorem caseEq_lowerWord (s w : Bytes) (hw : w.map lower = w) : caseEq s w = decide (s.map lower = w) := by
  simp only [caseEq, hw]
  by_cases h : List.map lower s = w <;> simp [h]

theorem isStrBool_eq_boolSpec (s : Bytes) : isStrBool s = boolSpec s := by
  unfold isStrBool boolSpec trueWords falseWords
  rw [caseEq_lowerWord s _ (by decide), caseEq_lowerWord s _ (by decide), caseEq_lowerWord s _ (by decide),
      caseEq_lowerWord s _ (by decide), caseEq_lowerWord s _ (by decide), caseEq_lowerWord s _ (by decide),
      caseEq_lowerWord s _ (by decide), caseEq_lowerWord s _ (by decide)]
  simp only [List.mem_cons, List.not_mem_nil, or_false, decide_eq_true_eq]
  generalize s.map lower = m
  by_cases h1 : m = [116, 114, 117, 101]
  · subst h1; decide
  by_cases h2 : m = [111, 110]
  · subst h2; decide
  by_cases h3 : m = [121, 101, 115]
  · subst h3; decide
  by_cases h4 : m = [49]
  · subst h4; decide
  by_cases h5 : m = [102, 97, 108, 115, 101]
  · subst h5; decide
  by_cases h6 : m = [111, 102, 102]
  · subst h6; decide
  by_cases h7 : m = [110, 111]
  · subst h7; decide
  by_cases h8 : m = [48]
  · subst h8; decide
  simp only [h1, h2, h3, h4, h5, h6, h7, h8, if_false, or_self]

end Qlibc.Conf.Aconf

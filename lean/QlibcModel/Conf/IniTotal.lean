/-
  Totality of the INI parser model (C17 iniParse_total): every read of the two scanning loops of
  `_parsestr` stays inside `value ++ [0]`, the fuel of the outer scan suffices, the expansion loop
  ends after at most `_MAX_EXPANSIONS` rounds, the line loop consumes the text.
-/
import QlibcModel.Conf.Ini
import QlibcModel.Conf.AconfTok
namespace Qlibc.Conf.Ini
open Qlibc Qlibc.Generated.Conf
open Qlibc.Conf.Aconf (Term)

def InnerOk (e : Bytes) : Inner → Prop
  | .eos => True
  | .nested atE => Term atE ∧ atE.length ≤ e.length
  | .closed _ after => Term after ∧ after.length < e.length

theorem innerScan_total (e : Bytes) : ∀ (br : Nat) (acc : Bytes), Term e →
    ∃ r, innerScan e br acc = .ok r ∧ InnerOk e r := by
  induction e with
  | nil => intro br acc h; exact absurd rfl h.ne_nil
  | cons c rest ih =>
    intro br acc ht
    unfold innerScan
    by_cases h0 : c = 0
    · exact ⟨.eos, by simp [h0], trivial⟩
    have htr : Term rest := ht.tail h0
    have step : ∀ br' acc', ∃ r, innerScan rest br' acc' = .ok r ∧ InnerOk (c :: rest) r := by
      intro br' acc'
      obtain ⟨r, h1, h2⟩ := ih br' acc' htr
      refine ⟨r, h1, ?_⟩
      cases r with
      | eos => trivial
      | nested atE => exact ⟨h2.1, by simp only [List.length_cons]; exact Nat.le_succ_of_le h2.2⟩
      | closed n after => exact ⟨h2.1, by simp only [List.length_cons]; exact Nat.lt_succ_of_lt h2.2⟩
    simp only [h0, if_false]
    by_cases h36 : c = 36
    · simp only [h36, if_true]
      cases rest with
      | nil => exact absurd rfl htr.ne_nil
      | cons d rest2 =>
        simp only []
        by_cases hd : d = 123
        · refine ⟨.nested (36 :: d :: rest2), by simp [hd], ?_⟩
          subst h36; exact ⟨ht, Nat.le_refl _⟩
        · simp only [hd, if_false]
          subst h36
          exact step br (36 :: acc)
    simp only [h36, if_false]
    by_cases h123 : c = 123
    · simp only [h123, if_true]; subst h123; exact step (br + 1) (123 :: acc)
    simp only [h123, if_false]
    by_cases h125 : c = 125
    · simp only [h125, if_true]
      by_cases hb : br = 1
      · refine ⟨.closed acc.reverse rest, by simp [hb], htr, by simp⟩
      · simp only [hb, if_false]; subst h125; exact step (br - 1) (125 :: acc)
    simp only [h125, if_false]
    exact step br (c :: acc)

theorem outerScan_total (w : World) (t : Table) (fuel : Nat) : ∀ (s : Bytes), Term s → s.length < fuel →
    ∃ r, outerScan w t fuel s = .ok r := by
  induction fuel with
  | zero => intro s _ hf; simp at hf
  | succ fuel ih =>
    intro s ht hf
    cases s with
    | nil => exact absurd rfl ht.ne_nil
    | cons c rest =>
      unfold outerScan
      by_cases h0 : c = 0
      · exact ⟨none, by simp [h0]⟩
      have htr : Term rest := ht.tail h0
      have hfr : rest.length < fuel := by simp only [List.length_cons] at hf; omega
      simp only [h0, if_false]
      by_cases h36 : c = 36
      · simp only [h36, if_true]
        cases rest with
        | nil => exact absurd rfl htr.ne_nil
        | cons d rest2 =>
          simp only []
          by_cases hd : d = 123
          · have hd' : ¬ (d ≠ 123) := by simp [hd]
            simp only [hd', if_false]
            have htr2 : Term rest2 := htr.tail (by rw [hd]; decide)
            obtain ⟨r, h1, h2⟩ := innerScan_total rest2 1 [] htr2
            rw [h1]
            cases r with
            | eos => exact ⟨none, rfl⟩
            | nested atE =>
              simp only []
              exact ih atE h2.1 (by simp only [List.length_cons] at hfr; have := h2.2; omega)
            | closed name after =>
              simp only []
              cases resolve w t name with
              | some new => exact ⟨_, rfl⟩
              | none =>
                simp only []
                exact ih after h2.1 (by simp only [List.length_cons] at hfr; have := h2.2; omega)
          · simp only [ne_eq, hd, not_false_eq_true, if_true]
            exact ih (d :: rest2) htr hfr
      · simp only [h36, if_false]
        exact ih rest htr hfr

theorem parsestrLoop_total (w : World) (t : Table) (left : Nat) : ∀ (value : Bytes),
    ∃ r, parsestrLoop w t left value = .ok r := by
  induction left with
  | zero =>
    intro value
    unfold parsestrLoop
    obtain ⟨r, h⟩ := outerScan_total w t (value.length + 2) (value ++ [0]) (Term.append value) (by simp)
    rw [h]
    cases r with
    | none => exact ⟨_, rfl⟩
    | some x => obtain ⟨tok, new⟩ := x; exact ⟨_, rfl⟩
  | succ left ih =>
    intro value
    unfold parsestrLoop
    obtain ⟨r, h⟩ := outerScan_total w t (value.length + 2) (value ++ [0]) (Term.append value) (by simp)
    rw [h]
    cases r with
    | none => exact ⟨_, rfl⟩
    | some x =>
      obtain ⟨tok, new⟩ := x
      simp only []
      split
      · exact ⟨_, rfl⟩
      · exact ih _

theorem splitLine_shorter (rest : Bytes) (h : rest ≠ []) : (splitLine rest).2.length < rest.length := by
  unfold splitLine
  simp only [List.length_drop]
  have h1 : (rest.takeWhile (· != 10)).length ≤ rest.length := (List.takeWhile_sublist _).length_le
  have h2 : 0 < rest.length := List.length_pos_iff.mpr h
  omega

theorem lineStep_total (w : World) (sep : UInt8) (line : Bytes) (sect : Option Bytes) (t : Table) :
    ∃ r, lineStep w sep line sect t = .ok r := by
  unfold lineStep
  simp only []
  split
  · exact ⟨_, rfl⟩
  · split
    · exact ⟨_, rfl⟩
    · obtain ⟨r, h⟩ := parsestrLoop_total w t maxExpansions
        (Str.trim (Encode.makeword (if isHeader (Str.trim line) = true then
          (if sep = 0 then [] else sep :: Str.trim (List.drop 1 (Str.trim line)).dropLast) else Str.trim line) sep).2)
      unfold parsestr
      rw [h]
      cases r with
      | none => exact ⟨_, rfl⟩
      | some v => exact ⟨_, rfl⟩

theorem parseLoop_total (w : World) (sep : UInt8) (fuel : Nat) : ∀ (rest : Bytes) (sect : Option Bytes) (t : Table),
    rest.length < fuel → ∃ r, parseLoop w sep fuel rest sect t = .ok r := by
  induction fuel with
  | zero => intro rest sect t hf; simp at hf
  | succ fuel ih =>
    intro rest sect t hf
    unfold parseLoop
    by_cases hr : rest = []
    · exact ⟨t, by simp [hr]⟩
    simp only [hr, if_false]
    have hs := splitLine_shorter rest hr
    have hfr : (splitLine rest).2.length < fuel := by omega
    obtain ⟨r, h⟩ := lineStep_total w sep (splitLine rest).1 sect t
    rw [h]
    exact ih _ _ _ hfr

/-- `qconfig_parse_str` returns a table for every input -/
theorem parseStr_total (w : World) (sep : UInt8) (str : Bytes) : ∃ t, parseStr w sep str = .ok t :=
  parseLoop_total w sep (str.length + 1) str none [] (by simp)

/-- `qconfig_parse_file` returns a table or NULL for every file system, path and content: the
    include loop is a structural recursion on the `_MAX_INCLUDES` budget (every round that does not
    end the loop consumes one unit) and cannot fault -/
theorem parseFile_total (w : World) (fs : Bytes → Option Bytes) (sep : UInt8) (path : Bytes) :
    ∃ r, parseFile w fs sep path = .ok r := by
  unfold parseFile
  cases fs path with
  | none => exact ⟨_, rfl⟩
  | some data =>
    simp only []
    cases includeLoop fs (dirname path) maxIncludes [] (data.takeWhile (· != 0)) with
    | none => exact ⟨_, rfl⟩
    | some str =>
      simp only []
      obtain ⟨t, h⟩ := parseStr_total w sep str
      rw [h]
      exact ⟨_, rfl⟩

end Qlibc.Conf.Ini

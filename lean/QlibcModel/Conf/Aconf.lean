/-
  Executable model of src/extensions/qaconf.c : `parse` / `_parse_inline`, `_is_str_number`,
  `_is_str_bool` (Apache-style parser), at mechanism level, for the CURRENT source (after the
  `fix:` commits: the tokenizer tests `doneparsing` before looking at `*wp2`, a backslash in front
  of the terminator escapes nothing, `_is_str_bool` is three-valued).

  * The file is a byte list; `fgets(buf, MAX_LINESIZE, fp)` is `fgets`: at most `MAX_LINESIZE − 1`
    bytes, up to and including the first `\n`; the C string in `buf` ends at the first NUL byte.
    The rest of a line that does not fit is consumed (`drain`): one physical line = one line number;
    a comment of any length is ignored, any other over-long line is the error "Line is too long.".
  * The tokenizer works on the RAW buffer `data = strdup(sp)` (`sp ++ [0]`) with the two cursors
    `wp1`, `wp2` as indexes; every read is `rd`, every write `wr`/`memmoveUp` (checked): a read or
    write outside the `strlen + 1` bytes is `.error .oob`.
  * `argv[i]` are pointers into `data`; the model reads the C string at `wp1` at the moment the
    pointer is stored (`cstrAt`, a checked read up to the NUL). Later iterations only write at
    indexes `> wp2`, and the BOOL rewrite `strcpy(argv[j], "1")` writes 2 bytes into a word of
    ≥ 1 byte + NUL, so the strings seen by the callbacks are these.
  * callbacks are observable events; whether the user's callback returns an error string is the
    parameter `cbFail` (the harness' callback refuses `!fail` / `!failclose`).
  * widths: section ids are `uint64_t` throughout (the harness sends values < 2^64); `level` is
    `uint8_t`, and opening a section at level 255 is a parse error, so it never wraps.

  * NO AMBIENT STATE: the model has no `errno` that exists before the call and no notion of the kind of
    file behind a path (regular file, pipe, FIFO): results are functions of the arguments and the bytes
    delivered. The harness plants a different errno value (0, ENOMEM, ERANGE, EINTR, ENOENT, EINVAL,
    EAGAIN, ENOBUFS) before every library call and feeds documents through pipes as well as files; a
    result that depends on either is a correspondence break (a hang: the per-call watchdog).
-/
import QlibcModel.Base.Fault
import QlibcModel.Str.Spec
import QlibcModel.Generated.ConfConsts

namespace Qlibc.Conf.Aconf
open Qlibc Qlibc.Generated.Conf

/-! ### strings -/

def lower (c : UInt8) : UInt8 := if 65 ≤ c ∧ c ≤ 90 then c + 32 else c

/-- `strcasecmp(a, b) == 0` in the C locale -/
def caseEq (a b : Bytes) : Bool := a.map lower == b.map lower

/-- `!cmpfunc(a, b)` -/
def nameEq (ci : Bool) (a b : Bytes) : Bool := if ci then caseEq a b else a == b

def str (s : String) : Bytes := s.toUTF8.toList

/-- `%d` of a non-negative int -/
def dec (n : Nat) : Bytes := str (toString n)

/-! ### `_is_str_number`, `_is_str_bool` -/

def isDigit (c : UInt8) : Bool := 48 ≤ c && c ≤ 57

/-- the `for (cp = op, dp = NULL; *cp; cp++)` loop: `pos = cp − op`, `dp` as an offset.
    `none` = `return 0` from inside the loop; `some (len, dp)` = loop finished. -/
def numLoop : (rest : Bytes) → (pos : Nat) → (dp : Option Nat) → Option (Nat × Option Nat)
  | [], pos, dp => some (pos, dp)
  | c :: rest, pos, dp =>
    if isDigit c then numLoop rest (pos + 1) dp
    else if c = 46 then
      if pos = 0 then none                 -- dot can't be at the beginning
      else if dp.isSome then none          -- dot can't appear more than once
      else numLoop rest (pos + 1) (some pos)
    else none

/-- `_is_str_number`: 2 floating point, 1 integer, 0 no number -/
def stripMinus (s : Bytes) : Bytes :=
  match s with
  | 45 :: r => r          -- `if (*op == '-') op++;`
  | _ => s

def isStrNumber (s : Bytes) : Nat :=
  match numLoop (stripMinus s) 0 none with
  | none => 0
  | some (len, dp) =>
    if len = 0 then 0
    else match dp with
      | some d => if d + 1 = len then 0 else 2
      | none => 1

/-- `_is_str_bool`: `some true` = 1, `some false` = 0, `none` = −1 -/
def isStrBool (s : Bytes) : Option Bool :=
  if caseEq s [116, 114, 117, 101] then some true            -- "true"
  else if caseEq s [111, 110] then some true                 -- "on"
  else if caseEq s [121, 101, 115] then some true            -- "yes"
  else if caseEq s [49] then some true                       -- "1"
  else if caseEq s [102, 97, 108, 115, 101] then some false  -- "false"
  else if caseEq s [111, 102, 102] then some false           -- "off"
  else if caseEq s [110, 111] then some false                -- "no"
  else if caseEq s [48] then some false                      -- "0"
  else none

/-! ### the tokenizer (raw buffer) -/

/-- `memmove(wp1 + 1, wp1, n)`: the `n` bytes at `wp1` are copied one position up -/
def memmoveUp (buf : Bytes) (wp1 n : Nat) : Except Fault Bytes :=
  if wp1 + 1 + n ≤ buf.length then
    .ok (buf.take (wp1 + 1) ++ (buf.drop wp1).take n ++ buf.drop (wp1 + 1 + n))
  else .error .oob

/-- the C string that starts at `off` (bytes up to the first NUL inside the buffer) -/
def cstrAt (buf : Bytes) (off : Nat) : Except Fault Bytes :=
  let s := buf.drop off
  let w := s.takeWhile (· != 0)
  if w.length < s.length then .ok w else .error .oob

/-- `for (; *wp1 == ' ' || *wp1 == '\t'; wp1++);` -/
def skipBlanks : (fuel : Nat) → (buf : Bytes) → (wp1 : Nat) → Except Fault Nat
  | 0, _, _ => .error .outOfFuel
  | fuel + 1, buf, wp1 => do
    let c ← rd buf wp1
    if c = 32 ∨ c = 9 then skipBlanks fuel buf (wp1 + 1) else pure wp1

structure WordEnd where
  buf : Bytes
  wp1 : Nat
  wp2 : Nat
  qt : Nat
  done : Bool

/-- "Parse a word": `for (wp2 = wp1;; wp2++)` -/
def wordLoop : (fuel : Nat) → (buf : Bytes) → (wp1 wp2 qt : Nat) → Except Fault WordEnd
  | 0, _, _, _, _ => .error .outOfFuel
  | fuel + 1, buf, wp1, wp2, qt => do
    let c ← rd buf wp2
    if c = 0 then pure ⟨buf, wp1, wp2, qt, true⟩
    else if c = 39 then                       -- '\''
      if qt = 1 then pure ⟨buf, wp1, wp2, 0, false⟩ else wordLoop fuel buf wp1 (wp2 + 1) qt
    else if c = 34 then                       -- '"'
      if qt = 2 then pure ⟨buf, wp1, wp2, 0, false⟩ else wordLoop fuel buf wp1 (wp2 + 1) qt
    else if c = 92 then                       -- '\\'
      if qt > 0 then do
        let c1 ← rd buf (wp2 + 1)
        if c1 ≠ 0 then do
          let buf' ← if wp2 - wp1 > 0 then memmoveUp buf wp1 (wp2 - wp1) else pure buf
          wordLoop fuel buf' (wp1 + 1) (wp2 + 2) qt
        else wordLoop fuel buf wp1 (wp2 + 1) qt
      else wordLoop fuel buf wp1 (wp2 + 1) qt
    else if c = 32 ∨ c = 9 then
      if qt = 0 then pure ⟨buf, wp1, wp2, 0, false⟩ else wordLoop fuel buf wp1 (wp2 + 1) qt
    else wordLoop fuel buf wp1 (wp2 + 1) qt

inductive TokResult where
  | args (argv : List Bytes)
  | unclosedQuote
  deriving Repr, DecidableEq

/-- how one iteration of the token loop ends -/
inductive TokStep where
  | fin (r : TokResult)                               -- EXITLOOP or `doneparsing`
  | more (buf : Bytes) (wp1 : Nat) (word : Bytes)     -- next iteration: `wp1 = wp2`

/-- one iteration of the token loop after the quote handling: parse a word, terminate it, store
    the argument, look at the byte after it -/
def tokStep (buf : Bytes) (wp1 qt : Nat) (acc : List Bytes) : Except Fault TokStep := do
  let r ← wordLoop (buf.length + 1) buf wp1 wp1 qt
  let buf' ← wr r.buf r.wp2 0                  -- *wp2 = '\0'; wp2++
  if r.qt > 0 then pure (.fin .unclosedQuote)
  else do
    let word ← cstrAt buf' r.wp1               -- argv[argc++] = wp1
    if r.done then pure (.fin (.args (word :: acc).reverse))
    else do
      let c2 ← rd buf' (r.wp2 + 1)             -- if (doneparsing == false && *wp2 == '\0')
      if c2 = 0 then pure (.fin (.args (word :: acc).reverse))
      else pure (.more buf' (r.wp2 + 1) word)

/-- `for (wp1 = data; doneparsing == false; wp1 = wp2)`; `acc` = argv so far, reversed -/
def tokLoop : (fuel : Nat) → (buf : Bytes) → (wp1 : Nat) → (acc : List Bytes) → Except Fault TokResult
  | 0, _, _, _ => .error .outOfFuel
  | fuel + 1, buf, wp1, acc => do
    let wp1 ← skipBlanks (buf.length + 1) buf wp1
    let c ← rd buf wp1
    let qt := if c = 39 then 1 else if c = 34 then 2 else 0
    let wp1 := if qt > 0 then wp1 + 1 else wp1
    match ← tokStep buf wp1 qt acc with
    | .fin r => pure r
    | .more buf' wp1' word => tokLoop fuel buf' wp1' (word :: acc)

/-- the tokenizer on `data = strdup(sp)` -/
def tokenizeRaw (data : Bytes) : Except Fault TokResult := tokLoop (data.length + 1) data 0 []

def tokenize (sp : Bytes) : Except Fault TokResult := tokenizeRaw (sp ++ [0])

/-! ### option table, callback data -/

structure Opt where
  name : Bytes
  take : Nat          -- uint32_t
  hasCb : Bool        -- `cb != NULL`
  sectionid : Nat     -- uint64_t
  sections : Nat      -- uint64_t
  deriving Repr, DecidableEq

structure CbData where
  otype : Nat
  sect : Nat                      -- `section`
  sections : Nat
  level : Nat                     -- uint8_t
  parents : List (List Bytes)     -- argv of every ancestor, nearest first
  argv : List Bytes
  deriving Repr, DecidableEq

inductive Who where
  | main | dflt
  deriving Repr, DecidableEq

structure Event where
  who : Who
  d : CbData
  deriving Repr, DecidableEq

structure Cfg where
  opts : List Opt
  defcb : Bool
  flags : Nat
  /-- does the registered callback return an error string for this data? -/
  cbFail : CbData → Option Bytes

/-- `fgets(buf, MAX_LINESIZE, fp)`: `none` at end of file -/
def fgets (inp : Bytes) : Option (Bytes × Bytes) :=
  if inp = [] then none
  else
    let lim := inp.take (maxLineSize - 1)
    let ln := lim.takeWhile (· != 10)
    let n := if ln.length < lim.length then ln.length + 1 else ln.length
    some (inp.take n, inp.drop n)

/-! compiled-code replacement for `fgets` (the driver runs documents of 70 000 lines): the definition
    takes `MAX_LINESIZE - 1` bytes of the file for every line read, `fgetsFast` scans to the newline
    only. Proved equal (`@[csimp]`): theorems are about `fgets`, the driver executes `fgetsFast`. -/

/-- at most `k` bytes, up to and including the first newline; `acc` = bytes taken so far, reversed -/
def scanLine : Nat → Bytes → Bytes → Bytes × Bytes
  | 0, l, acc => (acc.reverse, l)
  | _ + 1, [], acc => (acc.reverse, [])
  | k + 1, c :: l, acc => if c = 10 then ((c :: acc).reverse, l) else scanLine k l (c :: acc)

def fgetsFast (inp : Bytes) : Option (Bytes × Bytes) :=
  if inp = [] then none else some (scanLine (maxLineSize - 1) inp [])

/-- the line cut of `fgets` on the first `k` bytes -/
def cut (k : Nat) (inp : Bytes) : Nat :=
  let lim := inp.take k
  let ln := lim.takeWhile (· != 10)
  if ln.length < lim.length then ln.length + 1 else ln.length

theorem scanLine_eq (k : Nat) : ∀ (inp acc : Bytes),
    scanLine k inp acc = (acc.reverse ++ inp.take (cut k inp), inp.drop (cut k inp)) := by
  induction k with
  | zero => intro inp acc; simp [scanLine, cut]
  | succ k ih =>
    intro inp acc
    cases inp with
    | nil => simp [scanLine, cut]
    | cons c l =>
      unfold scanLine
      by_cases hc : c = 10
      · subst hc
        simp [cut]
      · rw [if_neg hc, ih]
        have hcut : cut (k + 1) (c :: l) = cut k l + 1 := by
          have htw : List.takeWhile (· != 10) (c :: List.take k l) = c :: List.takeWhile (· != 10) (List.take k l) := by
            simp [hc]
          simp only [cut, List.take_succ_cons, List.length_cons, htw]
          split <;> split <;> omega
        rw [hcut]
        simp

@[csimp] theorem fgets_eq_fast : @fgets = @fgetsFast := by
  funext inp
  unfold fgets fgetsFast
  split
  · rfl
  · rw [scanLine_eq]
    simp [cut]

/-- after `fgets`: when the buffer is full (`strlen(buf) == MAX_LINESIZE − 1`) and does not end with a
    newline, the rest of the line is read and discarded (`fgetc` up to and including `\n`, or to the
    end of the file). Result: what is left of the file, and `toolong` = at least one byte of the line
    did not fit. `s` is the C string in `buf`, `rest0` the file behind what `fgets` consumed. -/
def drain (s rest0 : Bytes) : Bytes × Bool :=
  if s.length = maxLineSize - 1 ∧ s.getLast? ≠ some 10 then
    ((rest0.dropWhile (· != 10)).drop 1, !(rest0.takeWhile (· != 10)).isEmpty)
  else (rest0, false)

/-- the type of argument `j` (1-based): 0 str, 1 int, 2 float, 3 bool; only the first
    `MAX_TYPECHECK` arguments have individual flags -/
def argType (take j : Nat) : Nat :=
  let deftype := if take &&& qacAAInt ≠ 0 then 1 else if take &&& qacAAFloat ≠ 0 then 2
                 else if take &&& qacAABool ≠ 0 then 3 else 0
  if j > maxTypeCheck then deftype
  else if take &&& (qacA1Int <<< (j - 1)) ≠ 0 then 1
  else if take &&& (qacA1Float <<< (j - 1)) ≠ 0 then 2
  else if take &&& (qacA1Bool <<< (j - 1)) ≠ 0 then 3
  else deftype

inductive ArgErr where
  | int (j : Nat) | float (j : Nat) | bool (j : Nat)

/-- the `for (j = 1; j < argc; j++)` loop over `argv[1..]`; returns the (possibly rewritten)
    arguments -/
def checkArgs (take : Nat) : (j : Nat) → (args : List Bytes) → Except ArgErr (List Bytes)
  | _, [] => .ok []
  | j, a :: rest =>
      let ty := argType take j
      if ty = 1 then
        if isStrNumber a ≠ 1 then .error (.int j) else (checkArgs take (j + 1) rest).map (a :: ·)
      else if ty = 2 then
        if isStrNumber a = 0 then .error (.float j) else (checkArgs take (j + 1) rest).map (a :: ·)
      else if ty = 3 then
        match isStrBool a with
        | some b => (checkArgs take (j + 1) rest).map ((if b then [49] else [48]) :: ·)   -- "1" / "0"
        | none => .error (.bool j)
      else (checkArgs take (j + 1) rest).map (a :: ·)

/-- parser state threaded through the recursion: rest of the file, `qaconf->lineno`, callbacks so
    far (most recent first) -/
structure PState where
  input : Bytes
  lineno : Nat
  events : List Event

inductive Res where
  | count (n : Nat)
  | err (line : Nat) (msg : Bytes)
  deriving Repr, DecidableEq

def q (s : Bytes) : Bytes := [39] ++ s ++ [39]

/-- what one directive line does after tokenizing -/
structure Step where
  events : List Event        -- callbacks invoked for this line, in order
  err : Option Bytes         -- the EXITLOOP message, if any
  cb : CbData                -- this line's cbdata (after the BOOL rewrite)
  nsid : Nat                 -- `newsectionid` afterwards

/-- "Find matching option" … "If not found": checks, callback dispatch.
    `cb0` = this line's cbdata with `otype` and the tokenized `argv`. -/
def dispatch (cfg : Cfg) (sectionid : Nat) (parent : Option CbData) (newsectionid : Nat)
    (cb0 : CbData) : Except Fault Step :=
  let ci := cfg.flags &&& qacCaseInsensitive ≠ 0
  let otype := cb0.otype
  let argv := cb0.argv
  let name := argv.headD []
  let stop (m : Bytes) : Except Fault Step := .ok ⟨[], some m, cb0, newsectionid⟩
  match cfg.opts.find? (fun o => nameEq ci name o.name) with
  | some o =>
    if otype ≠ otypeClose && o.sections ≠ qacSectionAll && (o.sections &&& sectionid) = 0 then
      stop (str "Option " ++ q o.name ++ str " is in wrong section.")
    else
      let numtake := o.take &&& qacTakeAll
      if otype ≠ otypeClose && numtake ≠ qacTakeAll && numtake ≠ argv.length - 1 then
        stop (q o.name ++ str " option takes " ++ dec numtake ++ str " arguments.")
      else
        let checked : Except ArgErr (List Bytes) :=
          if otype ≠ otypeClose then checkArgs o.take 1 (argv.drop 1) else .ok (argv.drop 1)
        match checked with
        | .error (.int j) => stop (dec j ++ str "th argument of " ++ q o.name ++ str " must be integer type.")
        | .error (.float j) => stop (dec j ++ str "th argument of " ++ q o.name ++ str " must be floating point. type")
        | .error (.bool j) => stop (dec j ++ str "th argument of " ++ q o.name ++ str " must be bool type.")
        | .ok args' =>
          let cb : CbData := { cb0 with argv := name :: args' }
          let nsid := if otype = otypeOpen then o.sectionid else newsectionid
          let who : Option Who := if o.hasCb then some .main else if cfg.defcb then some .dflt else none
          match who with
          | none => .ok ⟨[], none, cb, nsid⟩
          | some wh =>
            if otype ≠ otypeClose then
              .ok ⟨[⟨wh, cb⟩], if wh = .main then cfg.cbFail cb else none, cb, nsid⟩
            else
              match parent with
              | none => .error .nullDeref              -- ASSERT(cbdata_parent != NULL)
              | some p =>
                -- the callback gets the OPENING directive's data with otype SECTIONCLOSE
                let pd : CbData := { p with otype := otypeClose }
                .ok ⟨[⟨wh, pd⟩], if wh = .main then cfg.cbFail pd else none, cb, nsid⟩
  | none =>
    if cfg.defcb then .ok ⟨[⟨.dflt, cb0⟩], none, cb0, newsectionid⟩      -- the default handler of the model never refuses (a refusal is an error like a callback's: harness mode 2, oracle only)
    else if cfg.flags &&& qacIgnoreUnknown = 0 then stop (str "Unregistered option " ++ q name ++ str ".")
    else .ok ⟨[], none, cb0, newsectionid⟩

/-- "Escape section option": `none` = missing closing bracket, else `(otype, sp)` -/
def brackets (buf : Bytes) : Except Fault (Option (Nat × Bytes)) :=
  if buf.head? == some 60 then
    if buf.getLast? != some 62 then .ok none
    else
      let sp := buf.drop 1
      let r : Nat × Bytes := if sp.head? == some 47 then (otypeClose, sp.drop 1) else (otypeOpen, sp)
      if r.2 = [] then .error .oob              -- ENDING_CHAR("") would read sp[-1]
      else .ok (some (r.1, Str.trim r.2.dropLast))   -- ENDING_CHAR(sp) = NUL; qstrtrim(sp)
  else .ok (some (otypeOption, buf))

/-- the cbdata header of a line in a section opened by `parent` -/
def header (sectionid : Nat) (parent : Option CbData) : CbData :=
  match parent with
  | some p => { otype := 0, sect := sectionid, sections := p.sections ||| sectionid,
                level := (p.level + 1) % 2 ^ (8 * sizeofLevel), parents := p.argv :: p.parents, argv := [] }
  | none => { otype := 0, sect := sectionid, sections := sectionid, level := 0, parents := [], argv := [] }

/-- `_parse_inline(qaconf, fp, flags, sectionid, cbdata_parent)`. `optcount`, `newsectionid` are
    the locals of that name. Every iteration consumes at least one byte of the file and every
    recursive call happens after such a read, so `fuel = |file| + 1` suffices. -/
def parseInline (cfg : Cfg) : (fuel : Nat) → (sectionid : Nat) → (parent : Option CbData) →
    (optcount newsectionid : Nat) → PState → Except Fault (PState × Res)
  | 0, _, _, _, _, _ => .error .outOfFuel
  | fuel + 1, sectionid, parent, optcount, newsectionid, st =>
    match fgets st.input with
    | none =>
      match parent with
      | some p => .ok (st, .err st.lineno (str "<" ++ p.argv.headD [] ++ str "> section was not closed."))
      | none => .ok (st, .count optcount)
    | some (chunk, rest0) =>
      let dr := drain (chunk.takeWhile (· != 0)) rest0
      let st := { st with input := dr.1, lineno := st.lineno + 1 }
      let buf := Str.trim (chunk.takeWhile (· != 0))
      -- a comment can have any length, other lines must fit into the buffer
      if dr.2 && buf.head? != some 35 then .ok (st, .err st.lineno (str "Line is too long."))
      else if buf = [] || buf.head? == some 35 then
        parseInline cfg fuel sectionid parent optcount newsectionid st
      else
        match brackets buf with
        | .error f => .error f
        | .ok none => .ok (st, .err st.lineno (str "Missing closing bracket. - " ++ q buf ++ str "."))
        | .ok (some (otype, sp)) =>
          if otype = otypeOpen && (header sectionid parent).level = 2 ^ (8 * sizeofLevel) - 1 then
            .ok (st, .err st.lineno (str "Sections are nested too deeply."))
          else
          match tokenize sp with
          | .error f => .error f
          | .ok .unclosedQuote => .ok (st, .err st.lineno (str "Quotation hasn't properly closed."))
          | .ok (.args argv) =>
            let ci := cfg.flags &&& qacCaseInsensitive ≠ 0
            let name := argv.headD []
            let mismatch : Bool := match parent with
              | none => true
              | some p => !nameEq ci name (p.argv.headD [])
            if otype = otypeClose && mismatch then
              .ok (st, .err st.lineno (str "Trying to close <" ++ name ++ str "> section that wasn't opened."))
            else
              let cb0 : CbData := { header sectionid parent with otype := otype, argv := argv }
              match dispatch cfg sectionid parent newsectionid cb0 with
              | .error f => .error f
              | .ok stp =>
                let st := { st with events := stp.events.reverse ++ st.events }
                match stp.err with
                | some m => .ok (st, .err st.lineno m)
                | none =>
                  if otype = otypeOpen then
                    match parseInline cfg fuel stp.nsid (some stp.cb) 0 0 st with
                    | .error f => .error f
                    | .ok (st2, .err l m) => .ok (st2, .err l m)
                    | .ok (st2, .count n2) =>
                      parseInline cfg fuel sectionid parent (optcount + n2 + 1) stp.nsid st2
                  else if otype = otypeClose then .ok (st, .count (optcount + 1))
                  else parseInline cfg fuel sectionid parent (optcount + 1) stp.nsid st

/-- `parse(qaconf, filepath, flags)` on a readable file with content `file`:
    the callbacks in order, and the return value / error line and message -/
def parse (cfg : Cfg) (file : Bytes) : Except Fault (List Event × Res) :=
  match parseInline cfg (file.length + 1) qacSectionRoot none 0 0 ⟨file, 0, []⟩ with
  | .error f => .error f
  | .ok (st, r) => .ok (st.events.reverse, r)

/-- the callback of harness/conf.c -/
def harnessCbFail (d : CbData) : Option Bytes :=
  match d.argv with
  | _ :: a :: _ =>
    if d.otype ≠ otypeClose && a == str "!fail" then some (str "callback refused")
    else if d.otype = otypeClose && a == str "!failclose" then some (str "callback refused close")
    else none
  | _ => none

end Qlibc.Conf.Aconf

/-
  A small block heap (DESIGN.md section 7, C12 item 2).

  `Heap` is a finite map from block ids to `(contents, live flag)`.  The map is represented by
  the list of its cells indexed by id: the domain is exactly `[0, next)`, where the allocation
  counter `next` is the number of cells ever created.  `alloc` appends a cell, so the id it
  returns is the old counter: it was never used before and — because `free` only clears the
  live flag and keeps the (dead) cell — it is never used again.  A block has the size it was
  allocated with for its whole life (`write` of another length is `Fault.oob`).

    alloc d      malloc(|d|) + fill              fresh id, never reused
    read b       whole contents                   freed / unknown block  → Fault.dangling
    readN b n    first n bytes (memcpy source)    n > size → Fault.oob
    write b d    overwrite                        freed / unknown → dangling, |d| ≠ size → oob
    free b       free                             freed / unknown (double free) → dangling

  Only lemmas about these five primitives live here; the copy discipline of the containers is in
  `Mem/Copy.lean`, the C12 theorems in `Props/C12Mem.lean`.
-/
import QlibcModel.Base.Fault

namespace Qlibc.Mem
open Qlibc

/-- block ids are natural numbers (input-only shorthand, so that `omega` sees `Nat`) -/
scoped macro "BlockId" : term => `(Nat)

structure Block where
  data : Bytes
  live : Bool
  deriving DecidableEq, Repr

structure Heap where
  cells : List Block
  deriving DecidableEq, Repr

namespace Heap

def empty : Heap := ⟨[]⟩

/-- the allocation counter: number of blocks ever allocated = the next fresh id -/
def next (h : Heap) : BlockId := h.cells.length

def get? (h : Heap) (b : BlockId) : Option Block := h.cells[b]?

def isLive (h : Heap) (b : BlockId) : Bool :=
  match h.get? b with
  | some c => c.live
  | none => false

/-- malloc + fill -/
def alloc (h : Heap) (d : Bytes) : BlockId × Heap := (h.next, ⟨h.cells ++ [⟨d, true⟩]⟩)

def read (h : Heap) (b : BlockId) : Except Fault Bytes :=
  match h.get? b with
  | some ⟨d, true⟩ => .ok d
  | _ => .error .dangling

/-- the source side of `memcpy(dst, b, n)` -/
def readN (h : Heap) (b : BlockId) (n : Nat) : Except Fault Bytes :=
  match h.read b with
  | .ok d => if n ≤ d.length then .ok (d.take n) else .error .oob
  | .error f => .error f

def write (h : Heap) (b : BlockId) (d : Bytes) : Except Fault Heap :=
  match h.get? b with
  | some ⟨old, true⟩ =>
    if d.length = old.length then .ok ⟨h.cells.set b ⟨d, true⟩⟩ else .error .oob
  | _ => .error .dangling

def free (h : Heap) (b : BlockId) : Except Fault Heap :=
  match h.get? b with
  | some ⟨d, true⟩ => .ok ⟨h.cells.set b ⟨d, false⟩⟩
  | _ => .error .dangling

/-- `LiveAt h b d`: block `b` is live in `h` with contents `d` -/
def LiveAt (h : Heap) (b : BlockId) (d : Bytes) : Prop := h.get? b = some ⟨d, true⟩

/-! ### lemmas -/

theorem get?_eq_none {h : Heap} {b : BlockId} (hb : h.next ≤ b) : h.get? b = none := by
  simp only [get?, next] at *
  exact List.getElem?_eq_none hb

theorem lt_next_of_get? {h : Heap} {b : BlockId} {c : Block} (hb : h.get? b = some c) :
    b < h.next := by
  simp only [get?, next] at *
  exact (List.getElem?_eq_some_iff.mp hb).1

theorem LiveAt.lt_next {h : Heap} {b : BlockId} {d : Bytes} (hb : h.LiveAt b d) : b < h.next :=
  lt_next_of_get? hb

theorem isLive_iff {h : Heap} {b : BlockId} : h.isLive b = true ↔ ∃ d, h.LiveAt b d := by
  unfold isLive LiveAt
  cases hg : h.get? b with
  | none => simp
  | some c =>
    obtain ⟨d, l⟩ := c
    cases l <;> simp

/-! alloc -/

@[simp] theorem alloc_fst (h : Heap) (d : Bytes) : (h.alloc d).1 = h.next := rfl

@[simp] theorem next_alloc (h : Heap) (d : Bytes) : (h.alloc d).2.next = h.next + 1 := by
  simp [alloc, next]

theorem get?_alloc_old (h : Heap) (d : Bytes) {b : BlockId} (hb : b < h.next) :
    (h.alloc d).2.get? b = h.get? b := by
  simp only [alloc, get?, next] at *
  exact List.getElem?_append_left hb

@[simp] theorem get?_alloc_new (h : Heap) (d : Bytes) :
    (h.alloc d).2.get? h.next = some ⟨d, true⟩ := by
  simp [alloc, get?, next]

theorem get?_alloc (h : Heap) (d : Bytes) (b : BlockId) :
    (h.alloc d).2.get? b = if b = h.next then some ⟨d, true⟩ else h.get? b := by
  rcases Nat.lt_trichotomy b h.next with hlt | heq | hgt
  · rw [if_neg (Nat.ne_of_lt hlt)]
    exact get?_alloc_old h d hlt
  · subst heq; simp
  · rw [if_neg (Nat.ne_of_gt hgt), get?_eq_none (Nat.le_of_lt hgt),
      get?_eq_none (by rw [next_alloc]; exact hgt)]

/-! read -/

theorem read_eq_ok {h : Heap} {b : BlockId} {d : Bytes} : h.read b = .ok d ↔ h.LiveAt b d := by
  unfold read LiveAt
  cases hg : h.get? b with
  | none => simp
  | some c =>
    obtain ⟨d', l⟩ := c
    cases l <;> simp

theorem LiveAt.read {h : Heap} {b : BlockId} {d : Bytes} (hb : h.LiveAt b d) : h.read b = .ok d :=
  read_eq_ok.mpr hb

theorem read_dead {h : Heap} {b : BlockId} (hb : h.isLive b = false) :
    h.read b = .error .dangling := by
  unfold read
  unfold isLive at hb
  cases hg : h.get? b with
  | none => rfl
  | some c =>
    obtain ⟨d', l⟩ := c
    rw [hg] at hb
    simp only at hb
    subst hb
    rfl

theorem readN_eq_ok {h : Heap} {b : BlockId} {n : Nat} {x : Bytes} :
    h.readN b n = .ok x ↔ ∃ d, h.LiveAt b d ∧ n ≤ d.length ∧ x = d.take n := by
  unfold readN
  cases hr : h.read b with
  | error f =>
    simp only [reduceCtorEq, false_iff, not_exists, not_and]
    intro d hd
    rw [hd.read] at hr
    cases hr
  | ok d =>
    have hd := read_eq_ok.mp hr
    constructor
    · intro hx
      by_cases hn : n ≤ d.length
      · simp only [hn, if_true, Except.ok.injEq] at hx
        exact ⟨d, hd, hn, hx.symm⟩
      · simp [hn] at hx
    · rintro ⟨d', hd', hn, rfl⟩
      have : d' = d := by
        unfold LiveAt at hd hd'
        rw [hd] at hd'
        cases hd'; rfl
      subst this
      simp [hn]

theorem LiveAt.readN {h : Heap} {b : BlockId} {d : Bytes} (hb : h.LiveAt b d) :
    h.readN b d.length = .ok d :=
  readN_eq_ok.mpr ⟨d, hb, Nat.le_refl _, (List.take_length).symm⟩

/-! write -/

theorem write_eq_ok {h h' : Heap} {b : BlockId} {d : Bytes} (hw : h.write b d = .ok h') :
    ∃ old, h.LiveAt b old ∧ d.length = old.length ∧ h'.cells = h.cells.set b ⟨d, true⟩ := by
  unfold write at hw
  cases hg : h.get? b with
  | none => simp [hg] at hw
  | some c =>
    obtain ⟨old, l⟩ := c
    cases l
    · simp [hg] at hw
    · simp only [hg] at hw
      by_cases hl : d.length = old.length
      · simp only [hl, if_true, Except.ok.injEq] at hw
        exact ⟨old, hg, hl, by rw [← hw]⟩
      · simp [hl] at hw

theorem next_write {h h' : Heap} {b : BlockId} {d : Bytes} (hw : h.write b d = .ok h') :
    h'.next = h.next := by
  obtain ⟨_, _, _, hc⟩ := write_eq_ok hw
  simp [next, hc]

theorem get?_write {h h' : Heap} {b : BlockId} {d : Bytes} (hw : h.write b d = .ok h')
    (c : BlockId) : h'.get? c = if c = b then some ⟨d, true⟩ else h.get? c := by
  obtain ⟨old, hold, _, hc⟩ := write_eq_ok hw
  have hlt := hold.lt_next
  simp only [get?, next] at *
  rw [hc, List.getElem?_set]
  by_cases hcb : c = b
  · subst hcb; simp [hlt]
  · have : ¬ b = c := fun e => hcb e.symm
    simp [hcb, this]

/-! free -/

theorem free_eq_ok {h h' : Heap} {b : BlockId} (hf : h.free b = .ok h') :
    ∃ d, h.LiveAt b d ∧ h'.cells = h.cells.set b ⟨d, false⟩ := by
  unfold free at hf
  cases hg : h.get? b with
  | none => simp [hg] at hf
  | some c =>
    obtain ⟨d, l⟩ := c
    cases l
    · simp [hg] at hf
    · simp only [hg, Except.ok.injEq] at hf
      exact ⟨d, hg, by rw [← hf]⟩

theorem LiveAt.free {h : Heap} {b : BlockId} {d : Bytes} (hb : h.LiveAt b d) :
    h.free b = .ok ⟨h.cells.set b ⟨d, false⟩⟩ := by
  unfold LiveAt at hb
  simp [Heap.free, hb]

theorem next_free {h h' : Heap} {b : BlockId} (hf : h.free b = .ok h') : h'.next = h.next := by
  obtain ⟨_, _, hc⟩ := free_eq_ok hf
  simp [next, hc]

theorem get?_free {h h' : Heap} {b : BlockId} (hf : h.free b = .ok h') (c : BlockId) :
    h'.get? c = if c = b then (h.get? b).map (fun x => ⟨x.data, false⟩) else h.get? c := by
  obtain ⟨d, hd, hc⟩ := free_eq_ok hf
  have hlt := hd.lt_next
  unfold LiveAt at hd
  simp only [get?, next] at *
  rw [hc, List.getElem?_set]
  by_cases hcb : c = b
  · subst hcb; simp only [hd]; simp [hlt]
  · have : ¬ b = c := fun e => hcb e.symm
    simp [hcb, this]

theorem get?_free_ne {h h' : Heap} {b c : BlockId} (hf : h.free b = .ok h') (hc : c ≠ b) :
    h'.get? c = h.get? c := by
  rw [get?_free hf, if_neg hc]

theorem isLive_free_self {h h' : Heap} {b : BlockId} (hf : h.free b = .ok h') :
    h'.isLive b = false := by
  obtain ⟨d, hd, _⟩ := free_eq_ok hf
  unfold LiveAt at hd
  simp [isLive, get?_free hf, hd]

/-- double free is a fault -/
theorem free_free {h h' : Heap} {b : BlockId} (hf : h.free b = .ok h') :
    h'.free b = .error .dangling := by
  have hl := isLive_free_self hf
  unfold isLive at hl
  unfold free
  cases hg : h'.get? b with
  | none => rfl
  | some c =>
    obtain ⟨d, l⟩ := c
    rw [hg] at hl
    simp only at hl
    subst hl
    rfl

/-- use after free is a fault -/
theorem read_free {h h' : Heap} {b : BlockId} (hf : h.free b = .ok h') :
    h'.read b = .error .dangling := read_dead (isLive_free_self hf)

/-- a live block is never the one `alloc` returns -/
theorem LiveAt.ne_next {h : Heap} {b : BlockId} {d : Bytes} (hb : h.LiveAt b d) : b ≠ h.next :=
  Nat.ne_of_lt hb.lt_next

end Heap
end Qlibc.Mem

/-
  Run-level lemmas for the copy discipline (`Mem/Copy.lean`): the invariant, the simulation by
  the value-semantic shadow and the caller frame along arbitrary interleavings; what copying and
  non-copying accessors return; the value-level put/get round trip.
  The C12 property theorems built on them are in `Props/C12Mem.lean`.
-/
import QlibcModel.Mem.CopyLemmas

namespace Qlibc.Mem
open Qlibc List

/-! ### single steps -/

theorem argsOk_of_step {s s' : State} {a : Act} {r : Ret} (h : step s a = .ok (s', r)) :
    argsOk s a = true := by
  unfold step at h
  cases hok : argsOk s a with
  | true => rfl
  | false => simp [hok] at h

theorem step_post {s s' : State} {a : Act} {r : Ret} (hi : Inv s) (h : step s a = .ok (s', r)) :
    StepPost s a s' r := by
  obtain ⟨s'', r'', h1, h2⟩ := step_spec hi a (argsOk_of_step h)
  rw [h] at h1
  cases h1
  exact h2

/-- the only fault of `step` is the contract check on the caller's arguments -/
theorem step_error {s : State} {a : Act} {f : Fault} (hi : Inv s) (h : step s a = .error f) :
    argsOk s a = false ∧ f = .dangling := by
  cases hok : argsOk s a with
  | true =>
    obtain ⟨s', r, h1, _⟩ := step_spec hi a hok
    rw [h] at h1
    cases h1
  | false =>
    simp [step, hok] at h
    exact ⟨rfl, h.symm⟩

/-! ### runs -/

theorem run_cons {s t : State} {a : Act} {as : List Act} {log : Log}
    (h : run s (a :: as) = .ok (t, log)) :
    ∃ s1 r log', step s a = .ok (s1, r) ∧ run s1 as = .ok (t, log') ∧
      log = (match resolve s a with
             | none => log'
             | some o => (o, r.obs) :: log') := by
  simp only [run] at h
  cases hs : step s a with
  | error f => simp [hs] at h
  | ok p =>
    obtain ⟨s1, r⟩ := p
    simp only [hs] at h
    cases hr : run s1 as with
    | error f => simp [hr] at h
    | ok q =>
      obtain ⟨t', log'⟩ := q
      simp only [hr] at h
      refine ⟨s1, r, log', rfl, ?_⟩
      cases hres : resolve s a with
      | none =>
        simp only [hres, Except.ok.injEq, Prod.mk.injEq] at h
        obtain ⟨h1, h2⟩ := h
        subst h1 h2
        exact ⟨hr, rfl⟩
      | some o =>
        simp only [hres, Except.ok.injEq, Prod.mk.injEq] at h
        obtain ⟨h1, h2⟩ := h
        subst h1 h2
        exact ⟨hr, rfl⟩

theorem run_inv {s t : State} {as : List Act} {log : Log} (hi : Inv s)
    (h : run s as = .ok (t, log)) : Inv t := by
  induction as generalizing s log with
  | nil => simp only [run, Except.ok.injEq, Prod.mk.injEq] at h; exact h.1 ▸ hi
  | cons a as ih =>
    obtain ⟨s1, r, log', h1, h2, _⟩ := run_cons h
    exact ih (step_post hi h1).1 h2

/-- the observations of a run are those of the value-semantic shadow on the library calls read
    with the bytes their arguments held at the time of each call -/
theorem run_sim {s t : State} {as : List Act} {log : Log} (hi : Inv s)
    (h : run s as = .ok (t, log)) :
    vrun s.view (log.map (·.1)) = (t.view, log.map (·.2)) := by
  induction as generalizing s log with
  | nil =>
    simp only [run, Except.ok.injEq, Prod.mk.injEq] at h
    obtain ⟨rfl, rfl⟩ := h
    rfl
  | cons a as ih =>
    obtain ⟨s1, r, log', h1, h2, h3⟩ := run_cons h
    obtain ⟨hi1, _, hv⟩ := step_post hi h1
    have := ih hi1 h2
    cases hres : resolve s a with
    | none =>
      rw [hres] at hv h3
      simp only at hv h3
      subst h3
      rw [← hv]
      exact this
    | some o =>
      rw [hres] at hv h3
      simp only at hv h3
      subst h3
      simp only [map_cons, vrun, hv, this]

def touchedAll (as : List Act) : List Nat := as.flatMap Act.touched

theorem run_frame {s t : State} {as : List Act} {log : Log} (hi : Inv s)
    (h : run s as = .ok (t, log)) : Frame s t (touchedAll as) := by
  induction as generalizing s log with
  | nil =>
    simp only [run, Except.ok.injEq, Prod.mk.injEq] at h
    exact h.1 ▸ Frame.refl _ _
  | cons a as ih =>
    obtain ⟨s1, r, log', h1, h2, _⟩ := run_cons h
    obtain ⟨hi1, hf, _⟩ := step_post hi h1
    have h3 := ih hi1 h2
    refine (hf.mono fun b hb => ?_).trans (h3.mono fun b hb => ?_)
    · simp only [touchedAll, flatMap_cons, mem_append]
      exact Or.inl hb
    · simp only [touchedAll, flatMap_cons, mem_append]
      exact Or.inr hb

/-- caller actions alone leave the container's meaning unchanged and log nothing -/
theorem run_callers {s t : State} {cs : List Act} {log : Log} (hi : Inv s)
    (hcs : ∀ a ∈ cs, a.isCaller = true) (h : run s cs = .ok (t, log)) :
    t.view = s.view ∧ log = [] := by
  induction cs generalizing s log with
  | nil =>
    simp only [run, Except.ok.injEq, Prod.mk.injEq] at h
    obtain ⟨rfl, rfl⟩ := h
    exact ⟨rfl, rfl⟩
  | cons a cs ih =>
    obtain ⟨s1, r, log', h1, h2, h3⟩ := run_cons h
    obtain ⟨hi1, _, hv⟩ := step_post hi h1
    have hres : resolve s a = none := by
      have := hcs a (by simp)
      cases a <;> simp_all [Act.isCaller, resolve]
    rw [hres] at hv h3
    simp only at hv h3
    obtain ⟨h4, h5⟩ := ih hi1 (fun a ha => hcs a (by simp [ha])) h2
    exact ⟨by rw [h4, hv], by rw [h3, h5]⟩

/-! ### actions whose library calls carry their data (no reference to existing caller buffers) -/

def Act.closed : Act → Bool
  | .put _ _ _ _ => false
  | _ => true

theorem resolve_closed {a : Act} (hc : a.closed = true) (s s' : State) : resolve s a = resolve s' a := by
  cases a <;> simp_all [Act.closed, resolve]

theorem resolve_caller {a : Act} (hc : a.isCaller = true) (s : State) : resolve s a = none := by
  cases a <;> simp_all [Act.isCaller, resolve]

/-- for closed actions the library calls of a run can be read off the action list -/
theorem run_calls_closed {s t : State} {as : List Act} {log : Log}
    (hc : ∀ a ∈ as, a.closed = true) (h : run s as = .ok (t, log)) :
    log.map (·.1) = as.filterMap (resolve State.init) := by
  induction as generalizing s log with
  | nil =>
    simp only [run, Except.ok.injEq, Prod.mk.injEq] at h
    obtain ⟨_, rfl⟩ := h
    rfl
  | cons a as ih =>
    obtain ⟨s1, r, log', h1, h2, h3⟩ := run_cons h
    have := ih (fun a ha => hc a (by simp [ha])) h2
    rw [resolve_closed (hc a (by simp)) s State.init] at h3
    cases hres : resolve State.init a with
    | none =>
      rw [hres] at h3
      simp only at h3
      subst h3
      simp [hres, this]
    | some o =>
      rw [hres] at h3
      simp only at h3
      subst h3
      simp [hres, this]

theorem filterMap_resolve_erase (as : List Act) :
    as.filterMap (resolve State.init) =
      (as.filter (fun a => !a.isCaller)).filterMap (resolve State.init) := by
  induction as with
  | nil => rfl
  | cons a as ih =>
    cases hc : a.isCaller with
    | true => simp [hc, resolve_caller hc, ih]
    | false => simp [filterMap_cons, hc, ih]

/-! ### what the accessors return -/

/-- the pointers of a return value together with the reported sizes -/
def Ret.refs (r : Ret) : List Ref :=
  match r.obs with
  | some ds => zipWith (fun b d => ⟨b, d.2⟩) r.ptrs ds
  | none => []

/-- the returned pointers are blocks of the CALLER, and reading through them gives exactly the
    reported observation -/
def RetCopy (s' : State) (r : Ret) : Prop :=
  (∀ b ∈ r.ptrs, b ∈ s'.caller) ∧ ∀ ds, r.obs = some ds → observe s'.heap r.refs = .ok ds

theorem zipWith_fresh (n : Nat) (ds : List Bytes) :
    zipWith (fun b (d : Bytes × Nat) => (⟨b, d.2⟩ : Ref)) ((fresh n ds).map (·.id)) (ds.map sized)
      = fresh n ds := by
  induction ds generalizing n with
  | nil => rfl
  | cons d ds ih => simp [fresh, sized, ih]

theorem retCopy_give (s : State) (ds : List Bytes) :
    RetCopy (s.give (fresh s.heap.next ds) (allocAll s.heap ds))
      ⟨(fresh s.heap.next ds).map (·.id), some (ds.map sized)⟩ := by
  refine ⟨fun b hb => mem_append_left _ hb, ?_⟩
  intro ds' hds'
  simp only [Option.some.injEq] at hds'
  subst hds'
  simp only [Ret.refs, zipWith_fresh]
  have hro : ∀ r ∈ fresh s.heap.next ds, Readable (allocAll s.heap ds) r :=
    fun r hr' => (fresh_exact _ _ r hr').readable
  show observe (allocAll s.heap ds) _ = _
  rw [observe_eq hro, fresh_observe]

theorem RetCopy.frame {s s' : State} {r : Ret} (hc : RetCopy s r) (hf : Frame s s' [])
    : RetCopy s' r := by
  refine ⟨fun b hb => hf.mem (hc.1 b hb), ?_⟩
  intro ds hds
  rw [← hc.2 ds hds]
  apply observe_congr
  intro x hx
  apply hf.same _ _ (by simp)
  apply hc.1
  simp only [Ret.refs, hds] at hx
  obtain ⟨i, hi, rfl⟩ := mem_iff_getElem.mp hx
  simp only [getElem_zipWith]
  exact getElem_mem _

theorem retCopy_none (s : State) : RetCopy s ⟨[], none⟩ := by
  refine ⟨fun b hb => ?_, fun ds h => ?_⟩
  · cases hb
  · cases h

/-- `get` with `newmem = true`, `pop` and `dump` return caller blocks holding the observation -/
theorem copy_ret {s s1 : State} {a : Act} {r : Ret} (hi : Inv s)
    (ha : (∃ sel part, a = .get sel part true) ∨ (∃ sel part, a = .pop sel part) ∨ a = .dump)
    (h : step s a = .ok (s1, r)) : RetCopy s1 r := by
  rw [step_of_argsOk (argsOk_of_step h)] at h
  rcases ha with ⟨sel, part, rfl⟩ | ⟨sel, part, rfl⟩ | rfl
  · simp only [stepBody, stepLib, select_eq hi] at h
    cases hsel : vselect s.view sel with
    | none =>
      simp only [hsel, Except.ok.injEq, Prod.mk.injEq] at h
      obtain ⟨rfl, rfl⟩ := h
      exact retCopy_none _
    | some i =>
      obtain ⟨e, he, _⟩ := getElem?_of_lt_view (vselect_lt hsel)
      have hr : ∀ r ∈ e.part part, Readable s.heap r := fun r hr =>
        hi.readable (mem_refsOf_of_getElem? he (e.part_subset part r hr))
      simp only [hsel, he, handOut_copy_eq hr, Except.ok.injEq, Prod.mk.injEq] at h
      obtain ⟨rfl, rfl⟩ := h
      exact retCopy_give _ _
  · simp only [stepBody, stepLib, select_eq hi] at h
    cases hsel : vselect s.view sel with
    | none =>
      simp only [hsel, Except.ok.injEq, Prod.mk.injEq] at h
      obtain ⟨rfl, rfl⟩ := h
      exact retCopy_none _
    | some i =>
      obtain ⟨e, he, _⟩ := getElem?_of_lt_view (vselect_lt hsel)
      have hr : ∀ r ∈ e.part part, Readable s.heap r := fun r hr =>
        hi.readable (mem_refsOf_of_getElem? he (e.part_subset part r hr))
      obtain ⟨g1, _, _⟩ := give_spec hi ((e.part part).map s.heap.peek)
      obtain ⟨s2, h1, _, _, h4, _⟩ := removeAt_spec g1 (i := i) (e := e) he
      simp only [hsel, he, handOut_copy_eq hr, h1, Except.ok.injEq, Prod.mk.injEq] at h
      obtain ⟨rfl, rfl⟩ := h
      exact (retCopy_give _ _).frame h4
  · simp only [stepBody, stepLib, dump] at h
    cases hemp : s.owned.isEmpty with
    | true =>
      simp only [hemp, if_true, Except.ok.injEq, Prod.mk.injEq] at h
      obtain ⟨rfl, rfl⟩ := h
      exact retCopy_none _
    | false =>
      have hr : ∀ r ∈ s.owned.map (·.val), Readable s.heap r := by
        intro r hr
        obtain ⟨e, he, rfl⟩ := mem_map.mp hr
        exact hi.readable (mem_refsOf.mpr ⟨e, he, by simp [Entry.refs]⟩)
      simp only [hemp, observe_eq hr, Bool.false_eq_true, if_false, Except.ok.injEq,
        Prod.mk.injEq] at h
      obtain ⟨rfl, rfl⟩ := h
      exact retCopy_give s [_]

/-- `get` with `newmem = false`: nothing changes and the pointers are the entry's own blocks -/
theorem nocopy_ret {s s1 : State} {sel : Sel} {part : Part} {r : Ret} (hi : Inv s)
    (h : step s (.get sel part false) = .ok (s1, r)) :
    s1 = s ∧ ((vselect s.view sel = none ∧ r = ⟨[], none⟩) ∨
      ∃ i e, vselect s.view sel = some i ∧ s.owned[i]? = some e ∧
        r = ⟨(e.part part).map (·.id), some (((e.part part).map s.heap.peek).map sized)⟩) := by
  rw [step_of_argsOk (argsOk_of_step h)] at h
  simp only [stepBody, stepLib, select_eq hi] at h
  cases hsel : vselect s.view sel with
  | none =>
    simp only [hsel, Except.ok.injEq, Prod.mk.injEq] at h
    obtain ⟨rfl, rfl⟩ := h
    exact ⟨rfl, Or.inl ⟨rfl, rfl⟩⟩
  | some i =>
    obtain ⟨e, he, _⟩ := getElem?_of_lt_view (vselect_lt hsel)
    have hr : ∀ r ∈ e.part part, Readable s.heap r := fun r hr =>
      hi.readable (mem_refsOf_of_getElem? he (e.part_subset part r hr))
    simp only [hsel, he, handOut_nocopy_eq hr, Except.ok.injEq, Prod.mk.injEq] at h
    obtain ⟨rfl, rfl⟩ := h
    exact ⟨rfl, Or.inr ⟨i, e, rfl, he, rfl⟩⟩

/-- `remove`: the blocks of the selected entry are dead afterwards -/
theorem remove_kills {s t : State} {sel : Sel} {r : Ret} (hi : Inv s)
    (h : step s (.remove sel) = .ok (t, r)) {i : Nat} {e : Entry}
    (hsel : vselect s.view sel = some i) (he : s.owned[i]? = some e) :
    ∀ x ∈ e.refs, t.heap.isLive x.id = false := by
  rw [step_of_argsOk (argsOk_of_step h)] at h
  obtain ⟨s2, h1, _, _, _, _, _, _, h8, _⟩ := removeAt_spec hi he
  simp only [stepBody, stepLib, select_eq hi, hsel, h1, Except.ok.injEq, Prod.mk.injEq] at h
  obtain ⟨rfl, _⟩ := h
  exact h8

/-- `clear` and `release`: every owned block is dead afterwards, nothing of the caller's changes,
    and whatever is still live belongs to the caller -/
theorem clear_kills {s t : State} {a : Act} {r : Ret} (hi : Inv s) (ha : a = .clear ∨ a = .release)
    (h : step s a = .ok (t, r)) :
    (∀ b ∈ s.ownedIds, t.heap.isLive b = false) ∧ t.owned = [] ∧ t.caller = s.caller ∧
      (∀ b, t.heap.isLive b = true → b ∈ t.caller) ∧ (a = .release → t.released = true) := by
  have hit := (step_post hi h).1
  rw [step_of_argsOk (argsOk_of_step h)] at h
  obtain ⟨s', h1, _, h3, h4, _, _, h7⟩ := clearAll_spec hi
  have hleak : ∀ t : State, Inv t → t.owned = [] → ∀ b, t.heap.isLive b = true → b ∈ t.caller := by
    intro t hit ho b hb
    rcases hit.noLeak b hb with h | h
    · simp [State.ownedIds, idsOf, ho] at h
    · exact h
  rcases ha with rfl | rfl
  · simp only [stepBody, stepLib, h1, Except.ok.injEq, Prod.mk.injEq] at h
    obtain ⟨rfl, _⟩ := h
    exact ⟨h7, h3, h4, hleak _ hit h3, fun h => by cases h⟩
  · simp only [stepBody, stepLib, h1, Except.ok.injEq, Prod.mk.injEq] at h
    obtain ⟨rfl, _⟩ := h
    exact ⟨h7, h3, h4, hleak _ hit h3, fun _ => rfl⟩

/-! ### the value-level round trip -/

theorem vfind_eq_none {k : Bytes} {l : List VEntry} : vfind k l = none ↔ ∀ e ∈ l, e.1 ≠ some k := by
  induction l with
  | nil => simp [vfind]
  | cons e l ih =>
    by_cases hc : e.1 = some k
    · simp [vfind, hc]
    · simp [vfind, hc, ih]

theorem vfind_keys {k : Bytes} {l l' : List VEntry} (h : l.map (·.1) = l'.map (·.1)) :
    vfind k l = vfind k l' := by
  induction l generalizing l' with
  | nil =>
    cases l' with
    | nil => rfl
    | cons _ _ => simp at h
  | cons e l ih =>
    cases l' with
    | nil => simp at h
    | cons e' l' =>
      simp only [map_cons, cons.injEq] at h
      simp only [vfind, h.1, ih h.2]

theorem vfind_spec {k : Bytes} {l : List VEntry} {i : Nat} (h : vfind k l = some i) :
    ∃ e, l[i]? = some e ∧ e.1 = some k := by
  induction l generalizing i with
  | nil => cases h
  | cons e l ih =>
    simp only [vfind] at h
    by_cases hc : e.1 = some k
    · simp only [hc, BEq.rfl, if_true, Option.some.injEq] at h
      subst h
      exact ⟨e, rfl, hc⟩
    · have : (e.1 == some k) = false := by simpa using hc
      simp only [this, Bool.false_eq_true, if_false, Option.map_eq_some_iff] at h
      obtain ⟨j, hj, rfl⟩ := h
      obtain ⟨e', h1, h2⟩ := ih hj
      exact ⟨e', by simpa using h1, h2⟩

theorem vfind_append_none {k : Bytes} {A B : List VEntry} (h : vfind k A = none) :
    vfind k (A ++ B) = (vfind k B).map (· + A.length) := by
  induction A with
  | nil => simp
  | cons e A ih =>
    have h' := vfind_eq_none.mp h
    have hc : (e.1 == some k) = false := by simpa using h' e (by simp)
    have hA : vfind k A = none := vfind_eq_none.mpr fun x hx => h' x (by simp [hx])
    simp only [cons_append, vfind, hc, Bool.false_eq_true, if_false, ih hA, Option.map_map,
      length_cons]
    congr 1

/-- after `put k v` the first entry with key `k` holds `v` (tree/hash-table semantics: either the
    mode replaces the value in place, or the key was not present) -/
theorem vput_get (l : List VEntry) (kd v : Bytes) (m : Mode) (pos : Nat)
    (hm : m = .value ∨ vfind kd l = none) :
    ∃ j, vfind kd (vput l (some kd) v m pos) = some j ∧
      (vput l (some kd) v m pos)[j]? = some (some kd, v) := by
  cases hf : vfind kd l with
  | none =>
    have hv : vput l (some kd) v m pos = insAt pos (some kd, v) l := by
      simp only [vput, vfindKey, hf]
    have ht : vfind kd (l.take pos) = none :=
      vfind_eq_none.mpr fun e he => vfind_eq_none.mp hf e (mem_of_mem_take he)
    refine ⟨(l.take pos).length, ?_, ?_⟩
    · rw [hv, insAt, vfind_append_none ht]
      simp [vfind]
    · rw [hv, insAt]
      simp
  | some i =>
    have hmv : m = .value := by
      rcases hm with h | h
      · exact h
      · rw [hf] at h; cases h
    subst hmv
    obtain ⟨e, he, hek⟩ := vfind_spec hf
    have hv : vput l (some kd) v .value pos = l.set i (e.1, v) := by
      simp only [vput, vfindKey, hf, he]
    have hi := (List.getElem?_eq_some_iff.mp he).1
    refine ⟨i, ?_, ?_⟩
    · rw [hv, ← hf]
      apply vfind_keys
      rw [map_set]
      apply List.ext_getElem?
      intro j
      by_cases hj : i = j
      · subst hj; simp [hi, (List.getElem?_eq_some_iff.mp he).2]
      · simp [hj]
    · rw [hv, hek]
      simp [hi]

/-! ### the `released` flag changes only at `release` -/

theorem handOut_released {s s' : State} {rs : List Ref} {nm : Bool} {r : Ret}
    (h : handOut s rs nm = .ok (s', r)) : s'.released = s.released := by
  unfold handOut at h
  repeat' split at h
  all_goals (cases h <;> rfl)

theorem insertCopy_released {s s' : State} {k v pos}
    (h : insertCopy s k v pos = .ok s') : s'.released = s.released := by
  unfold insertCopy at h
  repeat' split at h
  all_goals (cases h <;> rfl)

theorem removeAt_released {s s' : State} {i}
    (h : removeAt s i = .ok s') : s'.released = s.released := by
  unfold removeAt at h
  repeat' split at h
  all_goals (cases h <;> rfl)

theorem replaceVal_released {s s' : State} {i v}
    (h : replaceVal s i v = .ok s') : s'.released = s.released := by
  unfold replaceVal at h
  repeat' split at h
  all_goals (cases h <;> rfl)

theorem clearAll_released {s s' : State} 
    (h : clearAll s = .ok s') : s'.released = s.released := by
  unfold clearAll at h
  repeat' split at h
  all_goals (cases h <;> rfl)

theorem dump_released {s s' : State} {r}
    (h : dump s = .ok (s', r)) : s'.released = s.released := by
  unfold dump at h
  repeat' split at h
  all_goals (cases h <;> rfl)

theorem putRef_released {s s' : State} {k v m pos}
    (h : putRef s k v m pos = .ok s') : s'.released = s.released := by
  unfold putRef at h
  split at h
  · cases h
  · split at h
    · exact replaceVal_released h
    · split at h
      · cases h
      · rename_i s1 h1; exact (removeAt_released h).trans (insertCopy_released h1)
    · exact insertCopy_released h

theorem stepLib_released {s s' : State} {a : Act} {r : Ret} (h : stepLib s a = .ok (s', r))
    (ha : a ≠ .release) : s'.released = s.released := by
  cases a <;> simp only [stepLib] at h
  case release => exact absurd rfl ha
  case put k v m pos =>
    split at h
    · cases h
    · rename_i s1 h1; cases h; exact putRef_released h1
  case get sel part nm =>
    repeat' split at h
    all_goals first | (cases h; done) | (cases h; rfl) | exact handOut_released h
  case pop sel part =>
    repeat' split at h
    all_goals first
      | (cases h; done)
      | (cases h; rfl)
      | (rename_i h1 _ _ h2; cases h; exact (removeAt_released h2).trans (handOut_released h1))
  case remove sel =>
    repeat' split at h
    all_goals first
      | (cases h; done)
      | (cases h; rfl)
      | (rename_i h2; cases h; exact removeAt_released h2)
  case dump => exact dump_released h
  case clear =>
    split at h
    · cases h
    · rename_i s1 h1; cases h; exact clearAll_released h1
  all_goals (cases h; rfl)

theorem step_released {s s' : State} {a : Act} {r : Ret} (h : step s a = .ok (s', r))
    (ha : a ≠ .release) : s'.released = s.released := by
  rw [step_of_argsOk (argsOk_of_step h)] at h
  unfold stepBody at h
  cases a
  case calloc d => cases h; rfl
  case scribble b d =>
    simp only at h
    repeat' split at h
    all_goals (cases h; rfl)
  case cfree b =>
    simp only at h
    repeat' split at h
    all_goals (cases h; rfl)
  case putv k v m pos =>
    simp only at h
    split at h
    · have := stepLib_released h (by simp)
      exact this
    · have := stepLib_released h (by simp)
      exact this
  all_goals exact stepLib_released h ha

/-! ### no interleaving faults -/

/-- action lists whose library calls satisfy the contract by construction: every library call
    carries its data (`closed`), and only caller actions follow a `release` -/
def wellFormed : Bool → List Act → Bool
  | _, [] => true
  | rel, a :: as =>
    if a.isCaller then wellFormed rel as
    else !rel && a.closed && wellFormed (decide (a = .release)) as

theorem run_total {s : State} (hi : Inv s) (as : List Act)
    (hwf : wellFormed s.released as = true) : ∃ t log, run s as = .ok (t, log) := by
  induction as generalizing s with
  | nil => exact ⟨s, [], rfl⟩
  | cons a as ih =>
    have hok : argsOk s a = true := by
      cases hc : a.isCaller with
      | true => cases a <;> simp_all [Act.isCaller, argsOk]
      | false =>
        simp only [wellFormed, hc, Bool.false_eq_true, if_false, Bool.and_eq_true] at hwf
        cases a <;> simp_all [Act.closed, argsOk]
    obtain ⟨s1, r, h1, hp⟩ := step_spec hi a hok
    have hrel : wellFormed s1.released as = true := by
      cases hc : a.isCaller with
      | true =>
        simp only [wellFormed, hc, if_true] at hwf
        rw [step_released h1 (by intro h; subst h; simp [Act.isCaller] at hc)]
        exact hwf
      | false =>
        simp only [wellFormed, hc, Bool.false_eq_true, if_false, Bool.and_eq_true] at hwf
        by_cases ha : a = .release
        · rw [(clear_kills hi (Or.inr ha) h1).2.2.2.2 ha]
          simpa [ha] using hwf.2
        · rw [step_released h1 ha]
          have := hwf.2
          simp only [ha, decide_false] at this
          have hnr : s.released = false := by simpa using hwf.1.1
          rw [hnr]
          exact this
    obtain ⟨t, log, h2⟩ := ih hp.1 hrel
    simp only [run, h1, h2]
    cases resolve s a with
    | none => exact ⟨_, _, rfl⟩
    | some o => exact ⟨_, _, rfl⟩

/-! ### the caller's side of `putv`, copying accessors -/

/-- accessors that always hand out a fresh block -/
def Act.copying : Act → Bool
  | .get _ _ true => true
  | .pop _ _ => true
  | .dump => true
  | _ => false

theorem copy_ret' {s s1 : State} {a : Act} {r : Ret} (hi : Inv s) (ha : a.copying = true)
    (h : step s a = .ok (s1, r)) : RetCopy s1 r := by
  apply copy_ret hi _ h
  cases a with
  | get sel part nm =>
    cases nm with
    | true => exact Or.inl ⟨sel, part, rfl⟩
    | false => simp [Act.copying] at ha
  | pop sel part => exact Or.inr (Or.inl ⟨sel, part, rfl⟩)
  | dump => exact Or.inr (Or.inr rfl)
  | _ => simp [Act.copying] at ha

/-- the exactly-sized buffers in which `putv` passes its arguments stay with the caller -/
theorem putv_buffers {s s' : State} {k : Option Bytes} {v : Bytes} {m : Mode} {pos : Nat} {r : Ret}
    (hi : Inv s) (h : step s (.putv k v m pos) = .ok (s', r)) :
    ∀ b ∈ (fresh s.heap.next (k.toList ++ [v])).map (·.id), b ∈ s'.caller := by
  have hok := argsOk_of_step h
  have hnr : s.released = false := by simpa [argsOk] using hok
  rw [step_of_argsOk hok] at h
  unfold stepBody at h
  cases k with
  | none =>
    obtain ⟨g1, _, _⟩ := give_spec hi [v]
    have hex := fresh_exact s.heap [v] ⟨s.heap.next, v.length⟩ (by simp [fresh])
    obtain ⟨s'', r'', h1, _, h3, _⟩ := put_spec (k := none) g1 hnr m pos (by simp) hex.readable
    have h' : stepLib (s.give (fresh s.heap.next [v]) (allocAll s.heap [v]))
        (.put none ⟨s.heap.next, v.length⟩ m pos) = .ok (s', r) := h
    rw [h1] at h'
    cases h'
    intro b hb
    exact h3.mem (mem_append_left _ hb)
  | some kd =>
    obtain ⟨g1, _, _⟩ := give_spec hi [kd, v]
    have hexk := fresh_exact s.heap [kd, v] ⟨s.heap.next, kd.length⟩ (by simp [fresh])
    have hexv := fresh_exact s.heap [kd, v] ⟨s.heap.next + 1, v.length⟩ (by simp [fresh])
    obtain ⟨s'', r'', h1, _, h3, _⟩ := put_spec (k := some ⟨s.heap.next, kd.length⟩) g1 hnr m pos
      (by intro kr hkr; cases hkr; exact hexk.readable) hexv.readable
    have h' : stepLib (s.give (fresh s.heap.next [kd, v]) (allocAll s.heap [kd, v]))
        (.put (some ⟨s.heap.next, kd.length⟩) ⟨s.heap.next + 1, v.length⟩ m pos) = .ok (s', r) := by
      simpa [bytesRef, fresh, allocAll] using h
    rw [h1] at h'
    cases h'
    intro b hb
    exact h3.mem (mem_append_left _ hb)

end Qlibc.Mem

/-
  The COPY DISCIPLINE of the qlibc containers, transcribed on the block heap of `Mem/Model.lean`
  (DESIGN.md section 7, C12 item 2).  Definitions only; lemmas are in `Mem/CopyLemmas.lean`
  and `Mem/CopyRun.lean`, the property theorems in `Props/C12Mem.lean`.

  The model is GENERIC: a "container of owned blocks".  It is not tied to the functional models
  of the individual containers (Tree, HashTbl, ListTbl, Seq) — those decide WHICH entry an
  operation denotes (ordering, hashing, cursor position); this file decides WHICH BLOCK is read,
  allocated, handed out or freed once the entry is chosen.  The tie to the C code is the
  correspondence harness of C12 (scribble + free of every caller buffer after every put/add/push,
  retention and re-comparison of every copy handed out, under ASan).

  State        heap; `owned` = the entries of the container, each an optional key block and a
               value block (`Ref` = pointer + the size field stored next to it: `name/namesize`,
               `data/datasize`, `data/size`); `caller` = every block the caller ever held
               (buffers it allocated, arguments it passed, copies it received); `released`.
               Node structs and the container handle are NOT modelled (they are never exposed;
               their accounting is the ledger of C11/C15).  For qvector and qhasharr, whose
               elements live inside one storage block of the container, an owned block stands
               for the element's private slot range of that storage.

  Call sites transcribed (C function → model function)

    qmemdup (utilities/qstring.c), strdup, malloc+memcpy                        → `memdup`
    insertion: qtreetbl.c new_obj (qmemdup name, qmemdup data); qhashtbl.c put (strdup name,
      malloc+memcpy data); qlisttbl.c newobj (strdup, malloc+memcpy); qlist.c addat
      (malloc+memcpy); qvector.c addat (memcpy into the private slot); qhasharr.c put_data
      (memcpy of name and data into private slots)                              → `newEntry`, `insertCopy`
    replacement: qtreetbl.c put_obj, cmp == 0 (qmemdup data; free(obj->data); key block kept)
                                                                                → `replaceVal` (`Mode.value`)
      qhashtbl.c put, "replace" (dup both first, then free(obj->name), free(obj->data));
      qlisttbl.c put with the unique option (new object, old ones removed); qhasharr.c put_data
      (remove_data of the old pair)                                             → `Mode.both`
      qlisttbl.c put without unique, qlist/qvector add                          → `Mode.insert`
    accessors with the `newmem` flag: qtreetbl.c getobj→qtreetbl_get_by_obj (value),
      qtreetbl_getnext (name+data), qtreetbl_find_nearest (name+data); qhashtbl.c qhashtbl_get
      (value), qhashtbl_getnext (name+data); qlisttbl.c qlisttbl_get (value), qlisttbl_getnext /
      getmulti (name+data); qlist.c get_at (value), qlist_getnext; qvector.c get_at,
      qvector_getnext                                                           → `handOut … newmem`
    always-copying accessors: qtreetbl_find_min / find_max (qmemdup of the NAME); qhasharr.c
      get_data / qhasharr_get / getnext (malloc + memcpy)                       → `handOut … true`
    pop: qlist.c get_at(newmem = true, remove = true) = popat/popfirst/poplast; qvector.c popat
      (get_at(newmem = true) then remove_at)                                    → `Act.pop`
    dump: qlist.c toarray / tostring, qvector.c toarray (one malloc, memcpy of every element)
                                                                                → `dump`
    removal: qtreetbl.c remove_obj / remove_min leaf case (free(obj->name); free(obj->data));
      qhashtbl.c remove; qlisttbl.c removeobj (free(name); free(data)); qlist.c remove_obj
      (free(obj->data)); qvector.c remove_at                                    → `removeAt`
    clear / free: qtreetbl.c free_objs, qhashtbl.c clear, qlisttbl.c clear, qlist.c clear,
      qvector.c clear; *_free = clear + free(handle)                            → `clearAll`, `Act.release`

  Caller actions (`calloc`, `scribble`, `cfree`) act on CALLER blocks only and never fault: an
  action that names a block the caller does not hold, or one it already freed, is the caller's own
  error and is a no-op here.  Blocks handed out with `newmem = false` are NOT caller blocks: the
  documented contract is that they are the container's storage.

  Every library operation first checks the contract on the caller's arguments (`argsOk`: the
  container has not been released, the buffers passed to `put` are readable for the sizes
  passed).  `C12Mem.lib_never_faults` shows this check is the ONLY way `step` can fail.
-/
import QlibcModel.Mem.Model

namespace Qlibc.Mem
open Qlibc

/-- a pointer together with the size that travels with it -/
structure Ref where
  id : BlockId
  size : Nat
  deriving DecidableEq, Repr

/-- one element of a container: `name`/`data` blocks (no key block for qlist/qvector) -/
structure Entry where
  key : Option Ref
  val : Ref
  deriving DecidableEq, Repr

def Entry.refs (e : Entry) : List Ref := e.key.toList ++ [e.val]

structure State where
  heap : Heap
  owned : List Entry
  caller : List BlockId
  released : Bool
  deriving Repr

def State.init : State := ⟨Heap.empty, [], [], false⟩

def refsOf (es : List Entry) : List Ref := es.flatMap Entry.refs
def idsOf (es : List Entry) : List BlockId := (refsOf es).map (·.id)
def State.ownedRefs (s : State) : List Ref := refsOf s.owned
def State.ownedIds (s : State) : List BlockId := idsOf s.owned

/-! ### heap-level pieces of the discipline -/

/-- `r` can be the source of a `memcpy` of `r.size` bytes -/
def Readable (h : Heap) (r : Ref) : Prop := ∃ d, h.LiveAt r.id d ∧ r.size ≤ d.length

def readableB (h : Heap) (r : Ref) : Bool :=
  match h.readN r.id r.size with
  | .ok _ => true
  | .error _ => false

/-- what is visible through `r` (total; used in specifications only) -/
def Heap.peek (h : Heap) (r : Ref) : Bytes :=
  (match h.get? r.id with
   | some c => c.data
   | none => []).take r.size

/-- `qmemdup(r.id, r.size)`: malloc(size) + memcpy -/
def memdup (h : Heap) (r : Ref) : Except Fault (Ref × Heap) :=
  match h.readN r.id r.size with
  | .ok d => .ok (⟨h.next, r.size⟩, (h.alloc d).2)
  | .error f => .error f

def memdupAll (h : Heap) : List Ref → Except Fault (List Ref × Heap)
  | [] => .ok ([], h)
  | r :: rs =>
    match memdup h r with
    | .error f => .error f
    | .ok (c, h1) =>
      match memdupAll h1 rs with
      | .error f => .error f
      | .ok (cs, h2) => .ok (c :: cs, h2)

def freeAll (h : Heap) : List BlockId → Except Fault Heap
  | [] => .ok h
  | b :: bs =>
    match h.free b with
    | .error f => .error f
    | .ok h1 => freeAll h1 bs

/-- what the caller reads through the pointers it was given, with the reported sizes -/
def observe (h : Heap) : List Ref → Except Fault (List (Bytes × Nat))
  | [] => .ok []
  | r :: rs =>
    match h.readN r.id r.size with
    | .error f => .error f
    | .ok d =>
      match observe h rs with
      | .error f => .error f
      | .ok ds => .ok ((d, r.size) :: ds)

/-- `new_obj`: duplicate the key (if the container has keys) and the value -/
def newEntry (h : Heap) (k : Option Ref) (v : Ref) : Except Fault (Entry × Heap) :=
  match k with
  | none =>
    match memdup h v with
    | .error f => .error f
    | .ok (v', h1) => .ok (⟨none, v'⟩, h1)
  | some kr =>
    match memdup h kr with
    | .error f => .error f
    | .ok (k', h1) =>
      match memdup h1 v with
      | .error f => .error f
      | .ok (v', h2) => .ok (⟨some k', v'⟩, h2)

def insAt {α : Type} (n : Nat) (a : α) (l : List α) : List α := l.take n ++ a :: l.drop n

/-! ### selection of an entry -/

inductive Sel where
  | at (i : Nat)       -- position chosen by the container's own logic (index, cursor, min, max, nearest)
  | key (k : Bytes)    -- first entry whose stored key equals the lookup key (read only, never kept)
  deriving DecidableEq, Repr

def keyMatches (h : Heap) (k : Bytes) (e : Entry) : Except Fault Bool :=
  match e.key with
  | none => .ok false
  | some r =>
    match h.readN r.id r.size with
    | .ok d => .ok (d == k)
    | .error f => .error f

def findKey (h : Heap) (k : Bytes) : List Entry → Except Fault (Option Nat)
  | [] => .ok none
  | e :: es =>
    match keyMatches h k e with
    | .error f => .error f
    | .ok true => .ok (some 0)
    | .ok false =>
      match findKey h k es with
      | .error f => .error f
      | .ok r => .ok (r.map (· + 1))

def select (s : State) : Sel → Except Fault (Option Nat)
  | .at i => .ok (if i < s.owned.length then some i else none)
  | .key k => findKey s.heap k s.owned

/-! ### operations -/

inductive Part where
  | key | val | both
  deriving DecidableEq, Repr

/-- what `put` does when the key is already present -/
inductive Mode where
  | insert   -- always a new element
  | value    -- keep the key block, replace the value block (qtreetbl)
  | both     -- replace key and value blocks (qhashtbl, qlisttbl unique, qhasharr)
  deriving DecidableEq, Repr

def Entry.part (e : Entry) : Part → List Ref
  | .key => e.key.toList
  | .val => [e.val]
  | .both => e.refs

abbrev Obs := Option (List (Bytes × Nat))

/-- result of a call: the pointers returned and what is visible through them (`none`: not found) -/
structure Ret where
  ptrs : List BlockId
  obs : Obs
  deriving Repr

/-- the caller obtains fresh blocks with the given contents (its own malloc, or copies made for it) -/
def State.give (s : State) (cs : List Ref) (h' : Heap) : State :=
  { s with heap := h', caller := cs.map (·.id) ++ s.caller }

/-- hand the blocks `rs` of an entry to the caller: copies (`newmem`) or the stored blocks -/
def handOut (s : State) (rs : List Ref) (newmem : Bool) : Except Fault (State × Ret) :=
  if newmem then
    match memdupAll s.heap rs with
    | .error f => .error f
    | .ok (cs, h') =>
      match observe h' cs with
      | .error f => .error f
      | .ok ds => .ok (s.give cs h', ⟨cs.map (·.id), some ds⟩)
  else
    match observe s.heap rs with
    | .error f => .error f
    | .ok ds => .ok (s, ⟨rs.map (·.id), some ds⟩)

/-- new element: private copies of the caller's key and value, placed at `pos` -/
def insertCopy (s : State) (k : Option Ref) (v : Ref) (pos : Nat) : Except Fault State :=
  match newEntry s.heap k v with
  | .error f => .error f
  | .ok (e, h') => .ok { s with heap := h', owned := insAt pos e s.owned }

/-- remove element `i`: free its key and value blocks -/
def removeAt (s : State) (i : Nat) : Except Fault State :=
  match s.owned[i]? with
  | none => .error .assertFail
  | some e =>
    match freeAll s.heap (e.refs.map (·.id)) with
    | .error f => .error f
    | .ok h' => .ok { s with heap := h', owned := s.owned.eraseIdx i }

/-- `put_obj`, existing key: duplicate the new value FIRST, then free the old value block -/
def replaceVal (s : State) (i : Nat) (v : Ref) : Except Fault State :=
  match s.owned[i]? with
  | none => .error .assertFail
  | some e =>
    match memdup s.heap v with
    | .error f => .error f
    | .ok (v', h1) =>
      match h1.free e.val.id with
      | .error f => .error f
      | .ok h2 => .ok { s with heap := h2, owned := s.owned.set i { e with val := v' } }

/-- does the key in the caller's buffer already exist? (the buffer is only compared, never kept) -/
def findArgKey (s : State) : Option Ref → Except Fault (Option Nat)
  | none => .ok none
  | some kr =>
    match s.heap.readN kr.id kr.size with
    | .error f => .error f
    | .ok kd => findKey s.heap kd s.owned

def putRef (s : State) (k : Option Ref) (v : Ref) (m : Mode) (pos : Nat) : Except Fault State :=
  match findArgKey s k with
  | .error f => .error f
  | .ok found =>
    match found, m with
    | some i, .value => replaceVal s i v
    | some i, .both =>
      match insertCopy s k v pos with
      | .error f => .error f
      | .ok s1 => removeAt s1 (if pos ≤ i then i + 1 else i)
    | _, _ => insertCopy s k v pos

def clearAll (s : State) : Except Fault State :=
  match freeAll s.heap s.ownedIds with
  | .error f => .error f
  | .ok h' => .ok { s with heap := h', owned := [] }

/-- toarray / tostring: one fresh block holding all the values -/
def dump (s : State) : Except Fault (State × Ret) :=
  if s.owned.isEmpty then .ok (s, ⟨[], none⟩) else
  match observe s.heap (s.owned.map (·.val)) with
  | .error f => .error f
  | .ok ds =>
    let d := (ds.map (·.1)).flatten
    .ok (s.give [⟨s.heap.next, d.length⟩] (s.heap.alloc d).2, ⟨[s.heap.next], some [(d, d.length)]⟩)

inductive Act where
  -- the caller
  | calloc (d : Bytes)                   -- malloc + fill one of its own buffers
  | scribble (b : BlockId) (d : Bytes)   -- overwrite a block it holds
  | cfree (b : BlockId)                  -- free a block it holds
  -- the library
  | put (k : Option Ref) (v : Ref) (m : Mode) (pos : Nat)      -- arguments in existing buffers
  | putv (k : Option Bytes) (v : Bytes) (m : Mode) (pos : Nat) -- arguments in fresh exactly-sized buffers
  | get (sel : Sel) (part : Part) (newmem : Bool)
  | pop (sel : Sel) (part : Part)
  | remove (sel : Sel)
  | dump
  | clear
  | release
  deriving DecidableEq, Repr

def Act.isCaller : Act → Bool
  | .calloc _ | .scribble _ _ | .cfree _ => true
  | _ => false

/-- the caller blocks an action writes or frees -/
def Act.touched : Act → List Nat
  | .scribble b _ => [b]
  | .cfree b => [b]
  | _ => []

/-- the contract on the caller's side of a call -/
def argsOk (s : State) : Act → Bool
  | .calloc _ | .scribble _ _ | .cfree _ => true
  | .put k v _ _ =>
    !s.released && (match k with | none => true | some kr => readableB s.heap kr) && readableB s.heap v
  | _ => !s.released

def bytesRef (b : BlockId) (d : Bytes) : Ref := ⟨b, d.length⟩

def stepLib (s : State) : Act → Except Fault (State × Ret)
  | .put k v m pos =>
    match putRef s k v m pos with
    | .error f => .error f
    | .ok s' => .ok (s', ⟨[], some []⟩)
  | .get sel part newmem =>
    match select s sel with
    | .error f => .error f
    | .ok none => .ok (s, ⟨[], none⟩)
    | .ok (some i) =>
      match s.owned[i]? with
      | none => .error .assertFail
      | some e => handOut s (e.part part) newmem
  | .pop sel part =>
    match select s sel with
    | .error f => .error f
    | .ok none => .ok (s, ⟨[], none⟩)
    | .ok (some i) =>
      match s.owned[i]? with
      | none => .error .assertFail
      | some e =>
        match handOut s (e.part part) true with
        | .error f => .error f
        | .ok (s1, r) =>
          match removeAt s1 i with
          | .error f => .error f
          | .ok s2 => .ok (s2, r)
  | .remove sel =>
    match select s sel with
    | .error f => .error f
    | .ok none => .ok (s, ⟨[], none⟩)
    | .ok (some i) =>
      match removeAt s i with
      | .error f => .error f
      | .ok s' => .ok (s', ⟨[], some []⟩)
  | .dump => dump s
  | .clear =>
    match clearAll s with
    | .error f => .error f
    | .ok s' => .ok (s', ⟨[], some []⟩)
  | .release =>
    match clearAll s with
    | .error f => .error f
    | .ok s' => .ok ({ s' with released := true }, ⟨[], some []⟩)
  | _ => .ok (s, ⟨[], none⟩)

def stepBody (s : State) (a : Act) : Except Fault (State × Ret) :=
  match a with
  | .calloc d => .ok (s.give [bytesRef s.heap.next d] (s.heap.alloc d).2, ⟨[s.heap.next], none⟩)
  | .scribble b d =>
    if b ∈ s.caller then
      match s.heap.write b d with
      | .ok h' => .ok ({ s with heap := h' }, ⟨[], none⟩)
      | .error _ => .ok (s, ⟨[], none⟩)
    else .ok (s, ⟨[], none⟩)
  | .cfree b =>
    if b ∈ s.caller then
      match s.heap.free b with
      | .ok h' => .ok ({ s with heap := h' }, ⟨[], none⟩)
      | .error _ => .ok (s, ⟨[], none⟩)
    else .ok (s, ⟨[], none⟩)
  | .putv k v m pos =>
    match k with
    | none =>
      let s1 := s.give [bytesRef s.heap.next v] (s.heap.alloc v).2
      stepLib s1 (.put none (bytesRef s.heap.next v) m pos)
    | some kd =>
      let h1 := (s.heap.alloc kd).2
      let s1 := s.give [bytesRef s.heap.next kd, bytesRef h1.next v] (h1.alloc v).2
      stepLib s1 (.put (some (bytesRef s.heap.next kd)) (bytesRef h1.next v) m pos)
  | a => stepLib s a

/-- one action: the contract check on the caller's arguments, then the operation -/
def step (s : State) (a : Act) : Except Fault (State × Ret) :=
  if argsOk s a = false then .error .dangling else stepBody s a

/-! ### the value-semantic shadow: what the container means, without addresses -/

abbrev VEntry := Option Bytes × Bytes

def Heap.viewE (h : Heap) (e : Entry) : VEntry := (e.key.map h.peek, h.peek e.val)
def viewOf (h : Heap) (es : List Entry) : List VEntry := es.map h.viewE
def State.view (s : State) : List VEntry := viewOf s.heap s.owned

def sized (d : Bytes) : Bytes × Nat := (d, d.length)

def VEntry.part (e : VEntry) : Part → List (Bytes × Nat)
  | .key => e.1.toList.map sized
  | .val => [sized e.2]
  | .both => (e.1.toList ++ [e.2]).map sized

def vfind (k : Bytes) : List VEntry → Option Nat
  | [] => none
  | e :: es => if e.1 == some k then some 0 else (vfind k es).map (· + 1)

def vselect (l : List VEntry) : Sel → Option Nat
  | .at i => if i < l.length then some i else none
  | .key k => vfind k l

/-- a library call with the bytes its arguments held AT THE TIME of the call -/
inductive VOp where
  | put (k : Option Bytes) (v : Bytes) (m : Mode) (pos : Nat)
  | get (sel : Sel) (part : Part)
  | pop (sel : Sel) (part : Part)
  | remove (sel : Sel)
  | dump
  | clear
  | release
  deriving DecidableEq, Repr

def vfindKey (l : List VEntry) : Option Bytes → Option Nat
  | none => none
  | some kd => vfind kd l

def vput (l : List VEntry) (k : Option Bytes) (v : Bytes) (m : Mode) (pos : Nat) : List VEntry :=
  match vfindKey l k, m with
  | some i, .value =>
    match l[i]? with
    | some e => l.set i (e.1, v)
    | none => l
  | some i, .both => (insAt pos (k, v) l).eraseIdx (if pos ≤ i then i + 1 else i)
  | _, _ => insAt pos (k, v) l

def vstep (l : List VEntry) : VOp → List VEntry × Obs
  | .put k v m pos => (vput l k v m pos, some [])
  | .get sel part =>
    match vselect l sel with
    | none => (l, none)
    | some i => (l, (l[i]?).map (·.part part))
  | .pop sel part =>
    match vselect l sel with
    | none => (l, none)
    | some i => (l.eraseIdx i, (l[i]?).map (·.part part))
  | .remove sel =>
    match vselect l sel with
    | none => (l, none)
    | some i => (l.eraseIdx i, some [])
  | .dump =>
    if l.isEmpty then (l, none) else
    (l, some [sized (l.map (·.2)).flatten])
  | .clear => ([], some [])
  | .release => ([], some [])

def vrun (l : List VEntry) : List VOp → List VEntry × List Obs
  | [] => (l, [])
  | o :: os =>
    let (l1, ob) := vstep l o
    let (l2, obs) := vrun l1 os
    (l2, ob :: obs)

/-- the value-level reading of an action in a state (`none` for caller actions) -/
def resolve (s : State) : Act → Option VOp
  | .calloc _ | .scribble _ _ | .cfree _ => none
  | .put k v m pos => some (.put (k.map s.heap.peek) (s.heap.peek v) m pos)
  | .putv k v m pos => some (.put k v m pos)
  | .get sel part _ => some (.get sel part)
  | .pop sel part => some (.pop sel part)
  | .remove sel => some (.remove sel)
  | .dump => some .dump
  | .clear => some .clear
  | .release => some .release

/-- log of a run: per library call, its value-level reading and what the caller observed -/
abbrev Log := List (VOp × Obs)

def run (s : State) : List Act → Except Fault (State × Log)
  | [] => .ok (s, [])
  | a :: as =>
    match step s a with
    | .error f => .error f
    | .ok (s1, r) =>
      match run s1 as with
      | .error f => .error f
      | .ok (s2, log) =>
        match resolve s a with
        | none => .ok (s2, log)
        | some o => .ok (s2, (o, r.obs) :: log)

/-! ### the invariant -/

structure Inv (s : State) : Prop where
  /-- owned blocks are live and exactly as large as the size stored next to the pointer -/
  ownedLive : ∀ r ∈ s.ownedRefs, ∃ d, s.heap.LiveAt r.id d ∧ d.length = r.size
  /-- owned blocks are pairwise distinct -/
  nodup : s.ownedIds.Nodup
  /-- no block the caller ever held is owned -/
  disjoint : ∀ b ∈ s.caller, b ∉ s.ownedIds
  callerScoped : ∀ b ∈ s.caller, b < s.heap.next
  /-- every live block is accounted for -/
  noLeak : ∀ b, s.heap.isLive b = true → b ∈ s.ownedIds ∨ b ∈ s.caller
  releasedEmpty : s.released = true → s.owned = []

end Qlibc.Mem

/-
  Lemmas about the copy discipline of `Mem/Copy.lean`: closed forms of the heap-level pieces
  under their preconditions, preservation of the invariant `Inv` by every state transformer,
  and the simulation of `step` by the value-semantic shadow `vstep`.
  The C12 property theorems built on them are in `Props/C12Mem.lean`.
-/
import QlibcModel.Mem.Copy

namespace Qlibc.Mem
open Qlibc List

/-! ### lists -/

theorem insAt_perm {α : Type} (n : Nat) (a : α) (l : List α) : insAt n a l ~ a :: l := by
  unfold insAt
  refine perm_middle.trans ?_
  rw [take_append_drop]

@[simp] theorem length_insAt {α : Type} (n : Nat) (a : α) (l : List α) :
    (insAt n a l).length = l.length + 1 := by
  have := (insAt_perm n a l).length_eq
  simpa using this

theorem map_insAt {α β : Type} (f : α → β) (n : Nat) (a : α) (l : List α) :
    (insAt n a l).map f = insAt n (f a) (l.map f) := by
  simp [insAt, map_take, map_drop]

theorem perm_eraseIdx {α : Type} {l : List α} {i : Nat} {a : α} (h : l[i]? = some a) :
    l ~ a :: l.eraseIdx i := by
  obtain ⟨hi, rfl⟩ := List.getElem?_eq_some_iff.mp h
  rw [eraseIdx_eq_take_drop_succ]
  have : l = l.take i ++ l[i] :: l.drop (i + 1) := by
    rw [← List.drop_eq_getElem_cons hi, take_append_drop]
  exact (Perm.of_eq this).trans perm_middle

theorem set_perm {α : Type} {l : List α} {i : Nat} {a : α} (b : α) (h : l[i]? = some a) :
    l.set i b ~ b :: l.eraseIdx i := by
  have hi := (List.getElem?_eq_some_iff.mp h).1
  have h1 : (l.set i b)[i]? = some b := by simp [hi]
  have := perm_eraseIdx h1
  rwa [eraseIdx_set_eq] at this

theorem refsOf_perm {l l' : List Entry} (h : l ~ l') : refsOf l ~ refsOf l' :=
  Perm.flatMap_right _ h

@[simp] theorem refsOf_cons (e : Entry) (l : List Entry) : refsOf (e :: l) = e.refs ++ refsOf l := by
  simp [refsOf]

@[simp] theorem refsOf_nil : refsOf [] = [] := rfl

theorem refsOf_insAt (n : Nat) (e : Entry) (l : List Entry) :
    refsOf (insAt n e l) ~ e.refs ++ refsOf l := by
  simpa using refsOf_perm (insAt_perm n e l)

theorem refsOf_eraseIdx {l : List Entry} {i : Nat} {e : Entry} (h : l[i]? = some e) :
    refsOf l ~ e.refs ++ refsOf (l.eraseIdx i) := by
  simpa using refsOf_perm (perm_eraseIdx h)

theorem refsOf_set {l : List Entry} {i : Nat} {e : Entry} (e' : Entry) (h : l[i]? = some e) :
    refsOf (l.set i e') ~ e'.refs ++ refsOf (l.eraseIdx i) := by
  simpa using refsOf_perm (set_perm e' h)

theorem mem_refsOf {l : List Entry} {r : Ref} : r ∈ refsOf l ↔ ∃ e ∈ l, r ∈ e.refs := by
  simp [refsOf]

theorem Entry.part_subset (e : Entry) (p : Part) : ∀ r ∈ e.part p, r ∈ e.refs := by
  intro r hr
  cases p <;> simp only [Entry.part, Entry.refs] at * <;> simp_all

theorem mem_refsOf_of_getElem? {l : List Entry} {i : Nat} {e : Entry} (h : l[i]? = some e)
    {r : Ref} (hr : r ∈ e.refs) : r ∈ refsOf l :=
  mem_refsOf.mpr ⟨e, mem_of_getElem? h, hr⟩

/-! ### reading -/

theorem Heap.peek_congr {h h' : Heap} {r : Ref} (hg : h'.get? r.id = h.get? r.id) :
    h'.peek r = h.peek r := by
  simp [Heap.peek, hg]

theorem Heap.LiveAt.peek {h : Heap} {r : Ref} {d : Bytes} (hd : h.LiveAt r.id d) :
    h.peek r = d.take r.size := by
  unfold Heap.LiveAt at hd
  simp [Heap.peek, hd]

/-- an owned block: live and exactly as large as the stored size -/
def Exact (h : Heap) (r : Ref) : Prop := ∃ d, h.LiveAt r.id d ∧ d.length = r.size

theorem Exact.readable {h : Heap} {r : Ref} (he : Exact h r) : Readable h r := by
  obtain ⟨d, hd, hl⟩ := he
  exact ⟨d, hd, Nat.le_of_eq hl.symm⟩

theorem Exact.peek {h : Heap} {r : Ref} {d : Bytes} (hd : h.LiveAt r.id d) (hl : d.length = r.size) :
    h.peek r = d := by
  rw [hd.peek, ← hl, take_length]

theorem Readable.readN {h : Heap} {r : Ref} (hr : Readable h r) :
    h.readN r.id r.size = .ok (h.peek r) := by
  obtain ⟨d, hd, hl⟩ := hr
  exact Heap.readN_eq_ok.mpr ⟨d, hd, hl, hd.peek⟩

theorem Readable.length_peek {h : Heap} {r : Ref} (hr : Readable h r) :
    (h.peek r).length = r.size := by
  obtain ⟨d, hd, hl⟩ := hr
  rw [hd.peek, length_take, Nat.min_eq_left hl]

theorem readableB_iff {h : Heap} {r : Ref} : readableB h r = true ↔ Readable h r := by
  unfold readableB
  cases hx : h.readN r.id r.size with
  | ok d =>
    obtain ⟨d', hd', hl, _⟩ := Heap.readN_eq_ok.mp hx
    simp only [true_iff]
    exact ⟨d', hd', hl⟩
  | error f =>
    simp only [Bool.false_eq_true, false_iff]
    intro hr
    rw [hr.readN] at hx
    cases hx

theorem Readable.congr {h h' : Heap} {r : Ref} (hg : h'.get? r.id = h.get? r.id)
    (hr : Readable h r) : Readable h' r := by
  obtain ⟨d, hd, hl⟩ := hr
  exact ⟨d, by unfold Heap.LiveAt at *; rw [hg, hd], hl⟩

theorem Readable.lt_next {h : Heap} {r : Ref} (hr : Readable h r) : r.id < h.next := by
  obtain ⟨d, hd, _⟩ := hr
  exact hd.lt_next

theorem observe_congr {h h' : Heap} {rs : List Ref}
    (hg : ∀ r ∈ rs, h'.get? r.id = h.get? r.id) : observe h' rs = observe h rs := by
  induction rs with
  | nil => rfl
  | cons r rs ih =>
    have h1 : h'.readN r.id r.size = h.readN r.id r.size := by
      simp [Heap.readN, Heap.read, hg r (by simp)]
    simp only [observe, h1, ih (fun r hr => hg r (by simp [hr]))]

theorem observe_eq {h : Heap} {rs : List Ref} (hr : ∀ r ∈ rs, Readable h r) :
    observe h rs = .ok (rs.map fun r => (h.peek r, r.size)) := by
  induction rs with
  | nil => rfl
  | cons r rs ih =>
    simp only [observe, (hr r (by simp)).readN, ih (fun r h' => hr r (by simp [h'])), map_cons]

/-! ### allocation of several blocks -/

def allocAll (h : Heap) : List Bytes → Heap
  | [] => h
  | d :: ds => allocAll (h.alloc d).2 ds

/-- the pointers `allocAll` produces -/
def fresh (n : Nat) : List Bytes → List Ref
  | [] => []
  | d :: ds => ⟨n, d.length⟩ :: fresh (n + 1) ds

@[simp] theorem next_allocAll (h : Heap) (ds : List Bytes) :
    (allocAll h ds).next = h.next + ds.length := by
  induction ds generalizing h with
  | nil => simp [allocAll]
  | cons d ds ih => simp [allocAll, ih]; omega

theorem get?_allocAll_old (h : Heap) (ds : List Bytes) {b : BlockId} (hb : b < h.next) :
    (allocAll h ds).get? b = h.get? b := by
  induction ds generalizing h with
  | nil => rfl
  | cons d ds ih =>
    simp only [allocAll]
    rw [ih _ (by simp; omega), Heap.get?_alloc_old h d hb]

theorem fresh_ids (n : Nat) (ds : List Bytes) : (fresh n ds).map (·.id) = range' n ds.length := by
  induction ds generalizing n with
  | nil => rfl
  | cons d ds ih => simp [fresh, ih, range'_succ]

theorem mem_fresh_ids {n : Nat} {ds : List Bytes} {b : BlockId} :
    b ∈ (fresh n ds).map (·.id) ↔ n ≤ b ∧ b < n + ds.length := by
  rw [fresh_ids, mem_range'_1]

theorem fresh_exact (h : Heap) (ds : List Bytes) :
    ∀ r ∈ fresh h.next ds, Exact (allocAll h ds) r := by
  induction ds generalizing h with
  | nil => intro r hr; cases hr
  | cons d ds ih =>
    intro r hr
    simp only [fresh, mem_cons] at hr
    rcases hr with rfl | hr
    · refine ⟨d, ?_, rfl⟩
      unfold Heap.LiveAt
      simp only [allocAll]
      rw [get?_allocAll_old _ _ (by simp)]
      simp
    · simp only [allocAll]
      exact ih (h.alloc d).2 r (by simpa using hr)

theorem fresh_peek (h : Heap) (ds : List Bytes) :
    (fresh h.next ds).map (allocAll h ds).peek = ds := by
  induction ds generalizing h with
  | nil => rfl
  | cons d ds ih =>
    simp only [fresh, map_cons, allocAll]
    congr 1
    · have : (allocAll (h.alloc d).2 ds).LiveAt h.next d := by
        unfold Heap.LiveAt
        rw [get?_allocAll_old _ _ (by simp)]
        simp
      exact Exact.peek (r := ⟨h.next, d.length⟩) this rfl
    · simpa using ih (h.alloc d).2

theorem isLive_allocAll {h : Heap} {ds : List Bytes} {b : BlockId}
    (hl : (allocAll h ds).isLive b = true) :
    h.isLive b = true ∨ (h.next ≤ b ∧ b < h.next + ds.length) := by
  induction ds generalizing h with
  | nil => exact Or.inl hl
  | cons d ds ih =>
    simp only [allocAll] at hl
    rcases ih hl with h1 | ⟨h1, h2⟩
    · by_cases hb : b = h.next
      · right; subst hb; simp
      · left
        simpa [Heap.isLive, Heap.get?_alloc, hb] using h1
    · right
      simp at h1 h2 ⊢
      omega

theorem LiveAt_allocAll {h : Heap} {b : BlockId} {d : Bytes} (ds : List Bytes)
    (hd : h.LiveAt b d) : (allocAll h ds).LiveAt b d := by
  unfold Heap.LiveAt at *
  rw [get?_allocAll_old _ _ (Heap.lt_next_of_get? hd), hd]

theorem allocAll_append (h : Heap) (ds es : List Bytes) :
    allocAll h (ds ++ es) = allocAll (allocAll h ds) es := by
  induction ds generalizing h with
  | nil => rfl
  | cons d ds ih => simp [allocAll, ih]

theorem fresh_append (n : Nat) (ds es : List Bytes) :
    fresh n (ds ++ es) = fresh n ds ++ fresh (n + ds.length) es := by
  induction ds generalizing n with
  | nil => rfl
  | cons d ds ih =>
    simp only [cons_append, fresh, ih, length_cons]
    rw [show n + 1 + ds.length = n + (ds.length + 1) by omega]

/-! ### memdup -/

theorem memdup_eq {h : Heap} {r : Ref} (hr : Readable h r) :
    memdup h r = .ok (⟨h.next, (h.peek r).length⟩, (h.alloc (h.peek r)).2) := by
  simp [memdup, hr.readN, hr.length_peek]

theorem memdupAll_eq {h : Heap} {rs : List Ref} (hr : ∀ r ∈ rs, Readable h r) :
    memdupAll h rs = .ok (fresh h.next (rs.map h.peek), allocAll h (rs.map h.peek)) := by
  induction rs generalizing h with
  | nil => rfl
  | cons r rs ih =>
    have h1 : ∀ r' ∈ rs, (h.alloc (h.peek r)).2.get? r'.id = h.get? r'.id := fun r' hr' =>
      Heap.get?_alloc_old _ _ (hr r' (by simp [hr'])).lt_next
    have h2 : ∀ r' ∈ rs, Readable (h.alloc (h.peek r)).2 r' := fun r' hr' =>
      (hr r' (by simp [hr'])).congr (h1 r' hr')
    have h3 : rs.map (h.alloc (h.peek r)).2.peek = rs.map h.peek :=
      map_congr_left fun r' hr' => Heap.peek_congr (h1 r' hr')
    simp only [memdupAll, memdup_eq (hr r (by simp)), ih h2, h3, map_cons, fresh, allocAll,
      Heap.next_alloc]

/-! ### freeing several blocks -/

theorem freeAll_spec {h : Heap} {bs : List BlockId} (hl : ∀ b ∈ bs, h.isLive b = true)
    (hn : bs.Nodup) :
    ∃ h', freeAll h bs = .ok h' ∧ h'.next = h.next ∧
      (∀ b, b ∉ bs → h'.get? b = h.get? b) ∧ (∀ b ∈ bs, h'.isLive b = false) := by
  induction bs generalizing h with
  | nil => exact ⟨h, rfl, rfl, fun _ _ => rfl, fun _ hb => by cases hb⟩
  | cons b bs ih =>
    obtain ⟨d, hd⟩ := Heap.isLive_iff.mp (hl b (by simp))
    rw [nodup_cons] at hn
    have hf := hd.free
    generalize hh1 : (⟨h.cells.set b ⟨d, false⟩⟩ : Heap) = h1 at hf
    have hl1 : ∀ c ∈ bs, h1.isLive c = true := by
      intro c hc
      have hne : c ≠ b := fun e => hn.1 (e ▸ hc)
      have := hl c (by simp [hc])
      simpa [Heap.isLive, Heap.get?_free_ne hf hne] using this
    obtain ⟨h', hfa, hnx, hsame, hdead⟩ := ih hl1 hn.2
    refine ⟨h', by simp [freeAll, hf, hfa], by rw [hnx, Heap.next_free hf], ?_, ?_⟩
    · intro c hc
      simp only [mem_cons, not_or] at hc
      rw [hsame c hc.2, Heap.get?_free_ne hf hc.1]
    · intro c hc
      simp only [mem_cons] at hc
      rcases hc with rfl | hc
      · have := Heap.isLive_free_self hf
        simpa [Heap.isLive, hsame c hn.1] using this
      · exact hdead c hc

/-! ### views -/

theorem viewE_congr {h h' : Heap} {e : Entry}
    (hg : ∀ r ∈ e.refs, h'.get? r.id = h.get? r.id) : h'.viewE e = h.viewE e := by
  obtain ⟨k, v⟩ := e
  have hv : h'.peek v = h.peek v := Heap.peek_congr (hg v (by simp [Entry.refs]))
  cases k with
  | none => simp [Heap.viewE, hv]
  | some kr =>
    have hk : h'.peek kr = h.peek kr := Heap.peek_congr (hg kr (by simp [Entry.refs]))
    simp [Heap.viewE, hv, hk]

theorem viewOf_congr {h h' : Heap} {es : List Entry}
    (hg : ∀ r ∈ refsOf es, h'.get? r.id = h.get? r.id) : viewOf h' es = viewOf h es := by
  unfold viewOf
  exact map_congr_left fun e he => viewE_congr fun r hr => hg r (mem_refsOf.mpr ⟨e, he, hr⟩)

@[simp] theorem length_viewOf (h : Heap) (es : List Entry) : (viewOf h es).length = es.length := by
  simp [viewOf]

theorem viewOf_getElem? (h : Heap) (es : List Entry) (i : Nat) :
    (viewOf h es)[i]? = (es[i]?).map h.viewE := by
  simp [viewOf]

/-! ### the invariant under the three kinds of heap change -/

/-- new blocks are allocated; each goes either to the container (`NO`) or to the caller (`NC`) -/
theorem Inv.grow {s : State} (hi : Inv s) (ds : List Bytes) (o' : List Entry) (NO NC : List Ref)
    (hperm : refsOf o' ~ NO ++ refsOf s.owned)
    (hnew : NO ++ NC ~ fresh s.heap.next ds)
    (hrel : s.released = true → o' = []) :
    Inv ⟨allocAll s.heap ds, o', NC.map (·.id) ++ s.caller, s.released⟩ := by
  have hids : NO.map (·.id) ++ NC.map (·.id) ~ range' s.heap.next ds.length := by
    have := hnew.map (·.id)
    rwa [map_append, fresh_ids] at this
  have hndN : (NO.map (·.id) ++ NC.map (·.id)).Nodup := hids.nodup_iff.mpr nodup_range'
  have hrange : ∀ b, b ∈ NO.map (·.id) ∨ b ∈ NC.map (·.id) ↔
      s.heap.next ≤ b ∧ b < s.heap.next + ds.length := by
    intro b
    rw [← mem_append, hids.mem_iff, mem_range'_1]
  have holdlt : ∀ b ∈ s.ownedIds, b < s.heap.next := by
    intro b hb
    obtain ⟨r, hr, rfl⟩ := mem_map.mp hb
    obtain ⟨d, hd, _⟩ := hi.ownedLive r hr
    exact hd.lt_next
  have hidsO : idsOf o' ~ NO.map (·.id) ++ s.ownedIds := by
    have := hperm.map (·.id)
    rwa [map_append] at this
  refine ⟨?_, ?_, ?_, ?_, ?_, hrel⟩
  · intro r hr
    rcases mem_append.mp (hperm.mem_iff.mp hr) with h1 | h1
    · exact fresh_exact _ _ r (hnew.mem_iff.mp (mem_append_left _ h1))
    · obtain ⟨d, hd, hl⟩ := hi.ownedLive r h1
      exact ⟨d, LiveAt_allocAll ds hd, hl⟩
  · show (idsOf o').Nodup
    rw [hidsO.nodup_iff, nodup_append]
    refine ⟨(nodup_append.mp hndN).1, hi.nodup, ?_⟩
    intro a ha b hb hab
    have h1 := ((hrange a).mp (Or.inl ha)).1
    have h2 := holdlt b hb
    omega
  · intro b hb hbo
    change b ∈ NC.map (·.id) ++ s.caller at hb
    change b ∈ idsOf o' at hbo
    rcases mem_append.mp (hidsO.mem_iff.mp hbo) with h1 | h1
    · rcases mem_append.mp hb with h2 | h2
      · exact (nodup_append.mp hndN).2.2 b h1 b h2 rfl
      · have := ((hrange b).mp (Or.inl h1)).1
        have := hi.callerScoped b h2
        omega
    · rcases mem_append.mp hb with h2 | h2
      · have := ((hrange b).mp (Or.inr h2)).1
        have := holdlt b h1
        omega
      · exact hi.disjoint b h2 h1
  · intro b hb
    change b ∈ NC.map (·.id) ++ s.caller at hb
    show b < (allocAll s.heap ds).next
    rw [next_allocAll]
    rcases mem_append.mp hb with h2 | h2
    · exact ((hrange b).mp (Or.inr h2)).2
    · have := hi.callerScoped b h2
      omega
  · intro b hb
    change (allocAll s.heap ds).isLive b = true at hb
    show b ∈ idsOf o' ∨ b ∈ NC.map (·.id) ++ s.caller
    rcases isLive_allocAll hb with h1 | h1
    · rcases hi.noLeak b h1 with h2 | h2
      · exact Or.inl (hidsO.mem_iff.mpr (mem_append_right _ h2))
      · exact Or.inr (mem_append_right _ h2)
    · rcases (hrange b).mpr h1 with h2 | h2
      · exact Or.inl (hidsO.mem_iff.mpr (mem_append_left _ h2))
      · exact Or.inr (mem_append_left _ h2)

/-- owned blocks `dead` are freed and dropped from the container -/
theorem Inv.shrink {s : State} (hi : Inv s) (h' : Heap) (o' : List Entry) (dead : List Ref)
    (hperm : refsOf s.owned ~ dead ++ refsOf o')
    (hnext : h'.next = s.heap.next)
    (hsame : ∀ b, b ∉ dead.map (·.id) → h'.get? b = s.heap.get? b)
    (hdead : ∀ b ∈ dead.map (·.id), h'.isLive b = false)
    (hrel : s.released = true → o' = []) :
    Inv ⟨h', o', s.caller, s.released⟩ := by
  have hidsO : s.ownedIds ~ dead.map (·.id) ++ idsOf o' := by
    have := hperm.map (·.id)
    rwa [map_append] at this
  have hnd := hidsO.nodup_iff.mp hi.nodup
  rw [nodup_append] at hnd
  have hnotdead : ∀ b ∈ idsOf o', b ∉ dead.map (·.id) := fun b hb hd => hnd.2.2 b hd b hb rfl
  refine ⟨?_, hnd.2.1, ?_, ?_, ?_, hrel⟩
  · intro r hr
    change r ∈ refsOf o' at hr
    obtain ⟨d, hd, hl⟩ := hi.ownedLive r (hperm.mem_iff.mpr (mem_append_right _ hr))
    refine ⟨d, ?_, hl⟩
    unfold Heap.LiveAt at *
    show h'.get? r.id = _
    rw [hsame _ (hnotdead _ (mem_map_of_mem hr)), hd]
  · intro b hb hbo
    exact hi.disjoint b hb (hidsO.mem_iff.mpr (mem_append_right _ hbo))
  · intro b hb
    show b < h'.next
    rw [hnext]
    exact hi.callerScoped b hb
  · intro b hb
    change h'.isLive b = true at hb
    show b ∈ idsOf o' ∨ b ∈ s.caller
    by_cases hbd : b ∈ dead.map (·.id)
    · rw [hdead b hbd] at hb
      cases hb
    · have : s.heap.isLive b = true := by simpa [Heap.isLive, hsame b hbd] using hb
      rcases hi.noLeak b this with h1 | h1
      · rcases mem_append.mp (hidsO.mem_iff.mp h1) with h2 | h2
        · exact absurd h2 hbd
        · exact Or.inl h2
      · exact Or.inr h1

/-- the caller overwrites or frees one of ITS blocks -/
theorem Inv.callerTouch {s : State} (hi : Inv s) (h' : Heap) (b : Nat) (hb : b ∈ s.caller)
    (hnext : h'.next = s.heap.next) (hsame : ∀ c, c ≠ b → h'.get? c = s.heap.get? c) :
    Inv { s with heap := h' } := by
  have hne : ∀ c ∈ s.ownedIds, c ≠ b := fun c hc e => hi.disjoint b hb (e ▸ hc)
  refine ⟨?_, hi.nodup, hi.disjoint, ?_, ?_, hi.releasedEmpty⟩
  · intro r hr
    obtain ⟨d, hd, hl⟩ := hi.ownedLive r hr
    refine ⟨d, ?_, hl⟩
    unfold Heap.LiveAt at *
    show h'.get? r.id = _
    rw [hsame _ (hne _ (mem_map_of_mem hr)), hd]
  · intro c hc
    show c < h'.next
    rw [hnext]
    exact hi.callerScoped c hc
  · intro c hc
    change h'.isLive c = true at hc
    show c ∈ s.ownedIds ∨ c ∈ s.caller
    by_cases hcb : c = b
    · exact Or.inr (hcb ▸ hb)
    · exact hi.noLeak c (by simpa [Heap.isLive, hsame c hcb] using hc)

theorem Inv.exact {s : State} (hi : Inv s) {r : Ref} (hr : r ∈ s.ownedRefs) : Exact s.heap r :=
  hi.ownedLive r hr

theorem Inv.owned_lt {s : State} (hi : Inv s) {r : Ref} (hr : r ∈ s.ownedRefs) :
    r.id < s.heap.next := (hi.exact hr).readable.lt_next

theorem Inv.init : Inv State.init := by
  refine ⟨?_, ?_, ?_, ?_, ?_, ?_⟩ <;> simp [State.init, State.ownedRefs, State.ownedIds, idsOf, Heap.isLive,
    Heap.get?, Heap.empty]

/-! ### frame: what an operation may do to the caller's side -/

/-- the caller keeps every block it held (possibly receiving new ones), and every caller block
    outside `touched` is untouched -/
structure Frame (s s' : State) (touched : List Nat) : Prop where
  caller : ∃ new, s'.caller = new ++ s.caller
  same : ∀ b ∈ s.caller, b ∉ touched → s'.heap.get? b = s.heap.get? b

theorem Frame.refl (s : State) (t : List Nat) : Frame s s t := ⟨⟨[], rfl⟩, fun _ _ _ => rfl⟩

theorem Frame.mem {s s' : State} {t : List Nat} (hf : Frame s s' t) {b : Nat} (hb : b ∈ s.caller) :
    b ∈ s'.caller := by
  obtain ⟨new, hn⟩ := hf.caller
  rw [hn]
  exact mem_append_right _ hb

theorem Frame.trans {s s' s'' : State} {t : List Nat} (h1 : Frame s s' t) (h2 : Frame s' s'' t) :
    Frame s s'' t := by
  obtain ⟨n1, e1⟩ := h1.caller
  obtain ⟨n2, e2⟩ := h2.caller
  refine ⟨⟨n2 ++ n1, by rw [e2, e1, append_assoc]⟩, ?_⟩
  intro b hb ht
  rw [h2.same b (h1.mem hb) ht, h1.same b hb ht]

theorem Frame.mono {s s' : State} {t t' : List Nat} (h : Frame s s' t) (ht : ∀ b ∈ t, b ∈ t') :
    Frame s s' t' :=
  ⟨h.caller, fun b hb hn => h.same b hb (fun hbt => hn (ht b hbt))⟩

/-! ### specifications of the state transformers -/

theorem map_eraseIdx' {α β : Type} (f : α → β) (l : List α) (i : Nat) :
    (l.eraseIdx i).map f = (l.map f).eraseIdx i := by
  induction l generalizing i with
  | nil => rfl
  | cons a l ih => cases i <;> simp [ih]

theorem map_set_congr {α β : Type} {f g : α → β} {l : List α} {i : Nat} (a : β)
    (h : ∀ x ∈ l.eraseIdx i, f x = g x) : (l.map f).set i a = (l.map g).set i a := by
  induction l generalizing i with
  | nil => rfl
  | cons x l ih =>
    cases i with
    | zero =>
      simp only [eraseIdx_zero, tail_cons] at h
      simp only [map_cons, set_cons_zero]
      rw [map_congr_left h]
    | succ i =>
      simp only [eraseIdx_cons_succ, mem_cons, forall_eq_or_imp] at h
      simp only [map_cons, set_cons_succ, h.1, ih h.2]

theorem give_spec {s : State} (hi : Inv s) (ds : List Bytes) :
    Inv (s.give (fresh s.heap.next ds) (allocAll s.heap ds)) ∧
    (s.give (fresh s.heap.next ds) (allocAll s.heap ds)).view = s.view ∧
    Frame s (s.give (fresh s.heap.next ds) (allocAll s.heap ds)) [] := by
  refine ⟨?_, ?_, ⟨⟨_, rfl⟩, ?_⟩⟩
  · exact hi.grow ds s.owned [] (fresh s.heap.next ds) (by simp) (by simp) hi.releasedEmpty
  · exact viewOf_congr fun r hr => get?_allocAll_old _ _ (hi.owned_lt hr)
  · intro b hb _
    exact get?_allocAll_old _ _ (hi.callerScoped b hb)

theorem fresh_observe (h : Heap) (ds : List Bytes) :
    (fresh h.next ds).map (fun r => ((allocAll h ds).peek r, r.size)) = ds.map sized := by
  induction ds generalizing h with
  | nil => rfl
  | cons d ds ih =>
    simp only [fresh, map_cons, allocAll]
    congr 1
    · have : (allocAll (h.alloc d).2 ds).LiveAt h.next d := by
        unfold Heap.LiveAt
        rw [get?_allocAll_old _ _ (by simp)]
        simp
      rw [Exact.peek (r := ⟨h.next, d.length⟩) this rfl]
      rfl
    · simpa using ih (h.alloc d).2

theorem handOut_copy_eq {s : State} {rs : List Ref} (hr : ∀ r ∈ rs, Readable s.heap r) :
    handOut s rs true =
      .ok (s.give (fresh s.heap.next (rs.map s.heap.peek)) (allocAll s.heap (rs.map s.heap.peek)),
           ⟨(fresh s.heap.next (rs.map s.heap.peek)).map (·.id),
            some ((rs.map s.heap.peek).map sized)⟩) := by
  have hro : ∀ r ∈ fresh s.heap.next (rs.map s.heap.peek),
      Readable (allocAll s.heap (rs.map s.heap.peek)) r :=
    fun r hr' => (fresh_exact _ _ r hr').readable
  simp only [handOut, if_true, memdupAll_eq hr, observe_eq hro, fresh_observe]

theorem handOut_nocopy_eq {s : State} {rs : List Ref} (hr : ∀ r ∈ rs, Readable s.heap r) :
    handOut s rs false = .ok (s, ⟨rs.map (·.id), some ((rs.map s.heap.peek).map sized)⟩) := by
  have : (rs.map fun r => (s.heap.peek r, r.size)) = (rs.map s.heap.peek).map sized := by
    rw [map_map]
    exact map_congr_left fun r hr' => by simp [sized, (hr r hr').length_peek]
  simp [handOut, observe_eq hr, this]

theorem newEntry_spec {h : Heap} {k : Option Ref} {v : Ref}
    (hk : ∀ kr, k = some kr → Readable h kr) (hv : Readable h v) :
    ∃ e, newEntry h k v = .ok (e, allocAll h ((k.toList ++ [v]).map h.peek)) ∧
      e.refs = fresh h.next ((k.toList ++ [v]).map h.peek) ∧
      (allocAll h ((k.toList ++ [v]).map h.peek)).viewE e = (k.map h.peek, h.peek v) := by
  cases k with
  | none =>
    refine ⟨⟨none, ⟨h.next, (h.peek v).length⟩⟩, ?_, ?_, ?_⟩
    · simp [newEntry, memdup_eq hv, allocAll]
    · simp [Entry.refs, fresh]
    · have := fresh_peek h [h.peek v]
      simp only [fresh, map_cons, map_nil, cons.injEq, and_true] at this
      simp [Heap.viewE, this]
  | some kr =>
    have hkr := hk kr rfl
    have h1 : (h.alloc (h.peek kr)).2.get? v.id = h.get? v.id := Heap.get?_alloc_old _ _ hv.lt_next
    have hv1 : Readable (h.alloc (h.peek kr)).2 v := hv.congr h1
    have hp1 : (h.alloc (h.peek kr)).2.peek v = h.peek v := Heap.peek_congr h1
    refine ⟨⟨some ⟨h.next, (h.peek kr).length⟩, ⟨h.next + 1, (h.peek v).length⟩⟩, ?_, ?_, ?_⟩
    · simp [newEntry, memdup_eq hkr, memdup_eq hv1, hp1, allocAll]
    · simp [Entry.refs, fresh]
    · have := fresh_peek h [h.peek kr, h.peek v]
      simp only [fresh, map_cons, map_nil, cons.injEq, and_true] at this
      simp [Heap.viewE, this.1, this.2]

theorem insertCopy_spec {s : State} (hi : Inv s) (hnr : s.released = false)
    {k : Option Ref} {v : Ref} (pos : Nat)
    (hk : ∀ kr, k = some kr → Readable s.heap kr) (hv : Readable s.heap v) :
    ∃ s', insertCopy s k v pos = .ok s' ∧ Inv s' ∧
      s'.view = insAt pos (k.map s.heap.peek, s.heap.peek v) s.view ∧ Frame s s' [] ∧
      s'.owned.length = s.owned.length + 1 := by
  obtain ⟨e, hne, hrefs, hview⟩ := newEntry_spec hk hv
  refine ⟨⟨allocAll s.heap ((k.toList ++ [v]).map s.heap.peek), insAt pos e s.owned, s.caller,
    s.released⟩, by simp only [insertCopy, hne], ?_, ?_, ⟨⟨[], rfl⟩, ?_⟩, by simp⟩
  · exact hi.grow _ (insAt pos e s.owned) e.refs [] (refsOf_insAt pos e s.owned)
      (by rw [append_nil, hrefs]) (fun hr => by rw [hnr] at hr; cases hr)
  · show viewOf _ (insAt pos e s.owned) = _
    unfold viewOf
    rw [map_insAt, hview]
    congr 1
    exact viewOf_congr fun r hr => get?_allocAll_old _ _ (hi.owned_lt hr)
  · intro b hb _
    exact get?_allocAll_old _ _ (hi.callerScoped b hb)

theorem Inv.not_released {s : State} (hi : Inv s) {i : Nat} {e : Entry} (he : s.owned[i]? = some e) :
    s.released = false := by
  cases hr : s.released with
  | false => rfl
  | true => rw [hi.releasedEmpty hr] at he; cases he

theorem removeAt_spec {s : State} (hi : Inv s) {i : Nat} {e : Entry} (he : s.owned[i]? = some e) :
    ∃ s', removeAt s i = .ok s' ∧ Inv s' ∧ s'.view = s.view.eraseIdx i ∧ Frame s s' [] ∧
      s'.owned = s.owned.eraseIdx i ∧ s'.caller = s.caller ∧ s'.released = s.released ∧
      (∀ r ∈ e.refs, s'.heap.isLive r.id = false) ∧
      (∀ b, b ∉ e.refs.map (·.id) → s'.heap.get? b = s.heap.get? b) := by
  have hperm := refsOf_eraseIdx he
  have hidsO : s.ownedIds ~ e.refs.map (·.id) ++ idsOf (s.owned.eraseIdx i) := by
    have := hperm.map (·.id)
    rwa [map_append] at this
  have hnd := hidsO.nodup_iff.mp hi.nodup
  rw [nodup_append] at hnd
  have hlive : ∀ b ∈ e.refs.map (·.id), s.heap.isLive b = true := by
    intro b hb
    obtain ⟨r, hr, rfl⟩ := mem_map.mp hb
    obtain ⟨d, hd, _⟩ := hi.ownedLive r (mem_refsOf_of_getElem? he hr)
    exact Heap.isLive_iff.mpr ⟨d, hd⟩
  obtain ⟨h', hfa, hnx, hsame, hdead⟩ := freeAll_spec hlive hnd.1
  have hnr := hi.not_released he
  refine ⟨⟨h', s.owned.eraseIdx i, s.caller, s.released⟩, by simp only [removeAt, he, hfa], ?_, ?_,
    ⟨⟨[], rfl⟩, ?_⟩, rfl, rfl, rfl, ?_, hsame⟩
  · exact hi.shrink h' _ e.refs hperm hnx hsame hdead (fun hr => by rw [hnr] at hr; cases hr)
  · show viewOf h' (s.owned.eraseIdx i) = (viewOf s.heap s.owned).eraseIdx i
    rw [viewOf_congr (h := s.heap)]
    · exact map_eraseIdx' _ _ _
    · intro r hr
      exact hsame _ fun hd => hnd.2.2 _ hd _ (mem_map_of_mem hr) rfl
  · intro b hb _
    exact hsame b fun hd => hi.disjoint b hb (hidsO.mem_iff.mpr (mem_append_left _ hd))
  · intro r hr
    exact hdead _ (mem_map_of_mem hr)

theorem clearAll_spec {s : State} (hi : Inv s) :
    ∃ s', clearAll s = .ok s' ∧ Inv s' ∧ s'.owned = [] ∧ s'.caller = s.caller ∧
      s'.released = s.released ∧ Frame s s' [] ∧ (∀ b ∈ s.ownedIds, s'.heap.isLive b = false) := by
  have hlive : ∀ b ∈ s.ownedIds, s.heap.isLive b = true := by
    intro b hb
    obtain ⟨r, hr, rfl⟩ := mem_map.mp hb
    obtain ⟨d, hd, _⟩ := hi.ownedLive r hr
    exact Heap.isLive_iff.mpr ⟨d, hd⟩
  obtain ⟨h', hfa, hnx, hsame, hdead⟩ := freeAll_spec hlive hi.nodup
  refine ⟨⟨h', [], s.caller, s.released⟩, by simp only [clearAll, hfa], ?_, rfl, rfl, rfl,
    ⟨⟨[], rfl⟩, ?_⟩, hdead⟩
  · exact hi.shrink h' [] (refsOf s.owned) (by simp) hnx hsame hdead (fun _ => rfl)
  · intro b hb _
    exact hsame b (hi.disjoint b hb)

theorem Inv.release {s : State} (hi : Inv s) (ho : s.owned = []) : Inv { s with released := true } :=
  ⟨hi.ownedLive, hi.nodup, hi.disjoint, hi.callerScoped, hi.noLeak, fun _ => ho⟩

theorem replaceVal_spec {s : State} (hi : Inv s) {i : Nat} {e : Entry} (he : s.owned[i]? = some e)
    {v : Ref} (hv : Readable s.heap v) :
    ∃ s', replaceVal s i v = .ok s' ∧ Inv s' ∧
      s'.view = s.view.set i ((s.heap.viewE e).1, s.heap.peek v) ∧ Frame s s' [] := by
  have hnr := hi.not_released he
  -- the fresh copy, owned by a fictitious extra entry until the old block is freed
  let v' : Ref := ⟨s.heap.next, (s.heap.peek v).length⟩
  have hi1 : Inv ⟨allocAll s.heap [s.heap.peek v], ⟨none, v'⟩ :: s.owned, s.caller, s.released⟩ :=
    hi.grow [s.heap.peek v] _ [v'] [] (by simp [Entry.refs]) (by simp [fresh, v'])
      (fun hr => by rw [hnr] at hr; cases hr)
  have hvalmem : e.val ∈ s.ownedRefs := mem_refsOf_of_getElem? he (by simp [Entry.refs])
  obtain ⟨d0, hd0, _⟩ := hi1.ownedLive e.val (by
    show e.val ∈ refsOf (⟨none, v'⟩ :: s.owned)
    simp only [refsOf_cons, mem_append]
    exact Or.inr hvalmem)
  have hf := hd0.free
  generalize hh2 : (⟨(allocAll s.heap [s.heap.peek v]).cells.set e.val.id ⟨d0, false⟩⟩ : Heap) = h2 at hf
  change (allocAll s.heap [s.heap.peek v]).free e.val.id = .ok h2 at hf
  have hp1 := refsOf_eraseIdx he
  have hp2 := refsOf_set { e with val := v' } he
  have hperm : refsOf (⟨none, v'⟩ :: s.owned) ~
      [e.val] ++ refsOf (s.owned.set i { e with val := v' }) := by
    apply perm_iff_count.mpr
    intro a
    simp only [refsOf_cons, count_append, hp1.count_eq, hp2.count_eq, Entry.refs, Option.toList_none,
      nil_append, count_cons, count_nil]
    omega
  have hidsO : s.ownedIds ~ e.refs.map (·.id) ++ idsOf (s.owned.eraseIdx i) := by
    have := hp1.map (·.id)
    rwa [map_append] at this
  have hnd := hidsO.nodup_iff.mp hi.nodup
  rw [nodup_append] at hnd
  have hvalid : e.val.id ∈ e.refs.map (·.id) := mem_map_of_mem (by simp [Entry.refs])
  have hsame : ∀ b, b ≠ e.val.id → b < s.heap.next → h2.get? b = s.heap.get? b := by
    intro b hb hlt
    rw [Heap.get?_free_ne hf hb, get?_allocAll_old _ _ hlt]
  have hvallt : e.val.id < s.heap.next := hi.owned_lt hvalmem
  refine ⟨⟨h2, s.owned.set i { e with val := v' }, s.caller, s.released⟩, ?_, ?_, ?_, ⟨⟨[], rfl⟩, ?_⟩⟩
  · have : memdup s.heap v = .ok (v', allocAll s.heap [s.heap.peek v]) := memdup_eq hv
    simp only [replaceVal, he, this, hf]
  · exact hi1.shrink h2 _ [e.val] hperm (Heap.next_free hf)
      (fun b hb => Heap.get?_free_ne hf (by simpa using hb))
      (fun b hb => by
        simp only [map_cons, map_nil, mem_singleton] at hb
        subst hb
        exact Heap.isLive_free_self hf)
      (fun hr => by rw [hnr] at hr; cases hr)
  · show viewOf h2 (s.owned.set i { e with val := v' }) = (viewOf s.heap s.owned).set i _
    unfold viewOf
    rw [map_set]
    have hE : h2.viewE { e with val := v' } = ((s.heap.viewE e).1, s.heap.peek v) := by
      have hpv : h2.peek v' = s.heap.peek v := by
        have hl : h2.LiveAt v'.id (s.heap.peek v) := by
          unfold Heap.LiveAt
          rw [Heap.get?_free_ne hf (by simp only [v']; omega)]
          simp [allocAll, v']
        exact Exact.peek hl rfl
      have hpk : ∀ kr, e.key = some kr → h2.peek kr = s.heap.peek kr := by
        intro kr hkr
        have hkmem : kr ∈ e.refs := by simp [Entry.refs, hkr]
        apply Heap.peek_congr
        apply hsame _ _ (hi.owned_lt (mem_refsOf_of_getElem? he hkmem))
        intro heq
        have hnde := hnd.1
        simp only [Entry.refs, hkr, Option.toList_some, cons_append, nil_append, map_cons, map_nil,
          nodup_cons, mem_singleton] at hnde
        exact hnde.1 heq
      cases hk : e.key with
      | none => simp [Heap.viewE, hk, hpv]
      | some kr => simp [Heap.viewE, hk, hpv, hpk kr hk]
    rw [hE]
    apply map_set_congr
    intro x hx
    apply viewE_congr
    intro r hr
    have hrm : r ∈ refsOf (s.owned.eraseIdx i) := mem_refsOf.mpr ⟨x, hx, hr⟩
    have hro : r ∈ s.ownedRefs := hp1.mem_iff.mpr (mem_append_right _ hrm)
    exact hsame _ (fun heq => hnd.2.2 _ hvalid _ (mem_map_of_mem hrm) heq.symm) (hi.owned_lt hro)
  · intro b hb _
    exact hsame b (fun heq => hi.disjoint b hb (heq ▸ mem_map_of_mem hvalmem)) (hi.callerScoped b hb)

/-! ### selection -/

theorem keyMatches_eq {h : Heap} {k : Bytes} {e : Entry} (hr : ∀ r ∈ e.refs, Readable h r) :
    keyMatches h k e = .ok ((h.viewE e).1 == some k) := by
  obtain ⟨key, v⟩ := e
  cases key with
  | none => simp [keyMatches, Heap.viewE]
  | some kr =>
    have := (hr kr (by simp [Entry.refs])).readN
    simp [keyMatches, Heap.viewE, this]

theorem findKey_eq {h : Heap} {k : Bytes} {es : List Entry} (hr : ∀ r ∈ refsOf es, Readable h r) :
    findKey h k es = .ok (vfind k (viewOf h es)) := by
  induction es with
  | nil => rfl
  | cons e es ih =>
    have h1 : ∀ r ∈ e.refs, Readable h r := fun r hr' => hr r (by simp [hr'])
    have h2 : ∀ r ∈ refsOf es, Readable h r := fun r hr' => hr r (by simp [hr'])
    simp only [findKey, keyMatches_eq h1, ih h2, viewOf, map_cons, vfind]
    cases ((h.viewE e).1 == some k) <;> simp

theorem vfind_lt {k : Bytes} {l : List VEntry} {i : Nat} (h : vfind k l = some i) : i < l.length := by
  induction l generalizing i with
  | nil => cases h
  | cons e l ih =>
    simp only [vfind] at h
    by_cases hc : (e.1 == some k) = true
    · simp only [hc, if_true, Option.some.injEq] at h
      subst h; simp
    · simp only [hc, Bool.false_eq_true, if_false, Option.map_eq_some_iff] at h
      obtain ⟨j, hj, rfl⟩ := h
      have := ih hj
      simp; omega

theorem vselect_lt {l : List VEntry} {sel : Sel} {i : Nat} (h : vselect l sel = some i) :
    i < l.length := by
  cases sel with
  | «at» j =>
    simp only [vselect] at h
    by_cases hj : j < l.length
    · simp only [hj, if_true, Option.some.injEq] at h; omega
    · simp [hj] at h
  | key k => exact vfind_lt h

theorem Inv.readable {s : State} (hi : Inv s) {r : Ref} (hr : r ∈ s.ownedRefs) :
    Readable s.heap r := (hi.exact hr).readable

theorem select_eq {s : State} (hi : Inv s) (sel : Sel) : select s sel = .ok (vselect s.view sel) := by
  cases sel with
  | «at» j => simp [select, vselect, State.view]
  | key k => exact findKey_eq fun r hr => hi.readable hr

theorem getElem?_of_lt_view {s : State} {i : Nat} (h : i < s.view.length) :
    ∃ e, s.owned[i]? = some e ∧ s.view[i]? = some (s.heap.viewE e) := by
  have h' : i < s.owned.length := by simpa [State.view] using h
  refine ⟨s.owned[i], by simp [h'], ?_⟩
  simp [State.view, viewOf, h']

theorem viewE_part (h : Heap) (e : Entry) (p : Part) :
    (h.viewE e).part p = ((e.part p).map h.peek).map sized := by
  obtain ⟨k, v⟩ := e
  cases p <;> cases k <;> simp [Heap.viewE, VEntry.part, Entry.part, Entry.refs]

/-! ### put -/

theorem findArgKey_eq {s : State} (hi : Inv s) {k : Option Ref}
    (hk : ∀ kr, k = some kr → Readable s.heap kr) :
    findArgKey s k = .ok (vfindKey s.view (k.map s.heap.peek)) := by
  cases k with
  | none => rfl
  | some kr =>
    simp only [findArgKey, (hk kr rfl).readN, Option.map_some, vfindKey]
    exact findKey_eq fun r hr => hi.readable hr

theorem putRef_spec {s : State} (hi : Inv s) (hnr : s.released = false) {k : Option Ref} {v : Ref}
    (m : Mode) (pos : Nat) (hk : ∀ kr, k = some kr → Readable s.heap kr) (hv : Readable s.heap v) :
    ∃ s', putRef s k v m pos = .ok s' ∧ Inv s' ∧
      s'.view = vput s.view (k.map s.heap.peek) (s.heap.peek v) m pos ∧ Frame s s' [] := by
  obtain ⟨s1, hs1, hi1, hv1, hf1, hl1⟩ := insertCopy_spec hi hnr pos hk hv
  have hfound : ∀ i, vfindKey s.view (k.map s.heap.peek) = some i → i < s.view.length := by
    intro i hfi
    cases k with
    | none => simp [vfindKey] at hfi
    | some kr => exact vfind_lt hfi
  simp only [putRef, findArgKey_eq hi hk, vput]
  generalize vfindKey s.view (k.map s.heap.peek) = found at *
  cases found with
  | none => cases m <;> exact ⟨s1, hs1, hi1, hv1, hf1⟩
  | some i =>
    have hlt := hfound i rfl
    cases m with
    | insert => exact ⟨s1, hs1, hi1, hv1, hf1⟩
    | value =>
      obtain ⟨e, he, hve⟩ := getElem?_of_lt_view hlt
      obtain ⟨s', h1, h2, h3, h4⟩ := replaceVal_spec hi he hv
      refine ⟨s', h1, h2, ?_, h4⟩
      simp only [hve]
      exact h3
    | both =>
      simp only [hs1]
      have hj : (if pos ≤ i then i + 1 else i) < s1.owned.length := by
        rw [hl1]
        have : i < s.owned.length := by simpa [State.view] using hlt
        split <;> omega
      obtain ⟨e1, he1⟩ : ∃ e1, s1.owned[if pos ≤ i then i + 1 else i]? = some e1 :=
        ⟨s1.owned[if pos ≤ i then i + 1 else i], by simp [hj]⟩
      obtain ⟨s2, h1, h2, h3, h4, _⟩ := removeAt_spec hi1 he1
      exact ⟨s2, h1, h2, by rw [h3, hv1], hf1.trans h4⟩

/-! ### the library operations -/

theorem get_spec {s : State} (hi : Inv s) (sel : Sel) (part : Part) (nm : Bool) :
    ∃ s' r, stepLib s (.get sel part nm) = .ok (s', r) ∧ Inv s' ∧ Frame s s' [] ∧
      vstep s.view (.get sel part) = (s'.view, r.obs) := by
  simp only [stepLib, select_eq hi, vstep]
  cases hsel : vselect s.view sel with
  | none => exact ⟨s, _, rfl, hi, Frame.refl _ _, rfl⟩
  | some i =>
    obtain ⟨e, he, hve⟩ := getElem?_of_lt_view (vselect_lt hsel)
    have hr : ∀ r ∈ e.part part, Readable s.heap r := fun r hr =>
      hi.readable (mem_refsOf_of_getElem? he (e.part_subset part r hr))
    simp only [he, hve, Option.map_some, viewE_part]
    cases nm with
    | true =>
      rw [handOut_copy_eq hr]
      obtain ⟨g1, g2, g3⟩ := give_spec hi ((e.part part).map s.heap.peek)
      exact ⟨_, _, rfl, g1, g3, by rw [g2]⟩
    | false =>
      rw [handOut_nocopy_eq hr]
      exact ⟨s, _, rfl, hi, Frame.refl _ _, rfl⟩

theorem pop_spec {s : State} (hi : Inv s) (sel : Sel) (part : Part) :
    ∃ s' r, stepLib s (.pop sel part) = .ok (s', r) ∧ Inv s' ∧ Frame s s' [] ∧
      vstep s.view (.pop sel part) = (s'.view, r.obs) := by
  simp only [stepLib, select_eq hi, vstep]
  cases hsel : vselect s.view sel with
  | none => exact ⟨s, _, rfl, hi, Frame.refl _ _, rfl⟩
  | some i =>
    obtain ⟨e, he, hve⟩ := getElem?_of_lt_view (vselect_lt hsel)
    have hr : ∀ r ∈ e.part part, Readable s.heap r := fun r hr =>
      hi.readable (mem_refsOf_of_getElem? he (e.part_subset part r hr))
    simp only [he, hve, Option.map_some, viewE_part, handOut_copy_eq hr]
    obtain ⟨g1, g2, g3⟩ := give_spec hi ((e.part part).map s.heap.peek)
    obtain ⟨s2, h1, h2, h3, h4, _⟩ := removeAt_spec g1 (i := i) (e := e) he
    simp only [h1]
    exact ⟨_, _, rfl, h2, g3.trans h4, by rw [h3, g2]⟩

theorem remove_spec {s : State} (hi : Inv s) (sel : Sel) :
    ∃ s' r, stepLib s (.remove sel) = .ok (s', r) ∧ Inv s' ∧ Frame s s' [] ∧
      vstep s.view (.remove sel) = (s'.view, r.obs) := by
  simp only [stepLib, select_eq hi, vstep]
  cases hsel : vselect s.view sel with
  | none => exact ⟨s, _, rfl, hi, Frame.refl _ _, rfl⟩
  | some i =>
    obtain ⟨e, he, _⟩ := getElem?_of_lt_view (vselect_lt hsel)
    obtain ⟨s2, h1, h2, h3, h4, _⟩ := removeAt_spec hi he
    simp only [h1]
    exact ⟨_, _, rfl, h2, h4, by rw [h3]⟩

theorem dump_spec {s : State} (hi : Inv s) :
    ∃ s' r, stepLib s .dump = .ok (s', r) ∧ Inv s' ∧ Frame s s' [] ∧
      vstep s.view .dump = (s'.view, r.obs) := by
  simp only [stepLib, dump, vstep]
  have hemp : s.view.isEmpty = s.owned.isEmpty := by
    cases h : s.owned <;> simp [State.view, viewOf, h]
  rw [hemp]
  cases hemp' : s.owned.isEmpty with
  | true => exact ⟨s, _, rfl, hi, Frame.refl _ _, rfl⟩
  | false =>
    have hr : ∀ r ∈ s.owned.map (·.val), Readable s.heap r := by
      intro r hr
      obtain ⟨e, he, rfl⟩ := mem_map.mp hr
      exact hi.readable (mem_refsOf.mpr ⟨e, he, by simp [Entry.refs]⟩)
    have hd : (map (·.1) (map (fun r => (s.heap.peek r, r.size)) (map (·.val) s.owned))).flatten
        = (s.view.map (·.2)).flatten := by
      simp [State.view, viewOf, Heap.viewE, Function.comp_def]
    simp only [observe_eq hr, hd, Bool.false_eq_true, if_false]
    obtain ⟨g1, g2, g3⟩ := give_spec hi [(s.view.map (·.2)).flatten]
    exact ⟨_, _, rfl, g1, g3, (congrArg (fun x => (x, some [sized (s.view.map (·.2)).flatten])) g2).symm⟩

theorem clear_spec {s : State} (hi : Inv s) :
    ∃ s' r, stepLib s .clear = .ok (s', r) ∧ Inv s' ∧ Frame s s' [] ∧
      vstep s.view .clear = (s'.view, r.obs) := by
  obtain ⟨s', h1, h2, h3, _, _, h6, _⟩ := clearAll_spec hi
  simp only [stepLib, h1, vstep]
  exact ⟨_, _, rfl, h2, h6, by simp [State.view, h3, viewOf]⟩

theorem release_spec {s : State} (hi : Inv s) :
    ∃ s' r, stepLib s .release = .ok (s', r) ∧ Inv s' ∧ Frame s s' [] ∧
      vstep s.view .release = (s'.view, r.obs) := by
  obtain ⟨s', h1, h2, h3, _, _, h6, _⟩ := clearAll_spec hi
  simp only [stepLib, h1, vstep]
  exact ⟨_, _, rfl, h2.release h3, ⟨h6.caller, h6.same⟩, by simp [State.view, h3, viewOf]⟩

theorem put_spec {s : State} (hi : Inv s) (hnr : s.released = false) {k : Option Ref} {v : Ref}
    (m : Mode) (pos : Nat) (hk : ∀ kr, k = some kr → Readable s.heap kr) (hv : Readable s.heap v) :
    ∃ s' r, stepLib s (.put k v m pos) = .ok (s', r) ∧ Inv s' ∧ Frame s s' [] ∧
      vstep s.view (.put (k.map s.heap.peek) (s.heap.peek v) m pos) = (s'.view, r.obs) := by
  obtain ⟨s', h1, h2, h3, h4⟩ := putRef_spec hi hnr m pos hk hv
  simp only [stepLib, h1, vstep]
  exact ⟨_, _, rfl, h2, h4, by rw [h3]⟩

/-! ### every action -/

/-- what `step` guarantees about its result -/
def StepPost (s : State) (a : Act) (s' : State) (r : Ret) : Prop :=
  Inv s' ∧ Frame s s' a.touched ∧
    match resolve s a with
    | none => s'.view = s.view
    | some o => vstep s.view o = (s'.view, r.obs)

theorem step_of_argsOk {s : State} {a : Act} (hok : argsOk s a = true) :
    step s a = stepBody s a := by
  unfold step
  rw [if_neg (by simp [hok])]

theorem callerTouch_post {s : State} (hi : Inv s) {h' : Heap} {b : Nat} (hb : b ∈ s.caller)
    (hnext : h'.next = s.heap.next) (hsame : ∀ c, c ≠ b → h'.get? c = s.heap.get? c) :
    Inv { s with heap := h' } ∧ Frame s { s with heap := h' } [b] ∧
      ({ s with heap := h' } : State).view = s.view := by
  refine ⟨hi.callerTouch h' b hb hnext hsame, ⟨⟨[], rfl⟩, ?_⟩, ?_⟩
  · intro c _ hc
    exact hsame c (by simpa using hc)
  · exact viewOf_congr fun r hr =>
      hsame _ fun heq => hi.disjoint b hb (heq ▸ mem_map_of_mem hr)

theorem step_spec {s : State} (hi : Inv s) (a : Act) (hok : argsOk s a = true) :
    ∃ s' r, step s a = .ok (s', r) ∧ StepPost s a s' r := by
  rw [step_of_argsOk hok]
  unfold StepPost stepBody
  cases a with
  | calloc d =>
    obtain ⟨g1, g2, g3⟩ := give_spec hi [d]
    exact ⟨_, _, rfl, g1, g3, g2⟩
  | scribble b d =>
    simp only [resolve, Act.touched]
    by_cases hb : b ∈ s.caller
    · simp only [hb, if_true]
      cases hw : s.heap.write b d with
      | error f => exact ⟨s, _, rfl, hi, Frame.refl _ _, rfl⟩
      | ok h' =>
        obtain ⟨g1, g2, g3⟩ := callerTouch_post hi hb (Heap.next_write hw)
          (fun c hc => by rw [Heap.get?_write hw, if_neg hc])
        exact ⟨_, _, rfl, g1, g2, g3⟩
    · simp only [hb, if_false]
      exact ⟨s, _, rfl, hi, Frame.refl _ _, rfl⟩
  | cfree b =>
    simp only [resolve, Act.touched]
    by_cases hb : b ∈ s.caller
    · simp only [hb, if_true]
      cases hw : s.heap.free b with
      | error f => exact ⟨s, _, rfl, hi, Frame.refl _ _, rfl⟩
      | ok h' =>
        obtain ⟨g1, g2, g3⟩ := callerTouch_post hi hb (Heap.next_free hw)
          (fun c hc => Heap.get?_free_ne hw hc)
        exact ⟨_, _, rfl, g1, g2, g3⟩
    · simp only [hb, if_false]
      exact ⟨s, _, rfl, hi, Frame.refl _ _, rfl⟩
  | put k v m pos =>
    simp only [argsOk, Bool.and_eq_true, Bool.not_eq_eq_eq_not, Bool.not_true] at hok
    obtain ⟨⟨hnr, hk⟩, hv⟩ := hok
    have hk' : ∀ kr, k = some kr → Readable s.heap kr := by
      intro kr hkr
      subst hkr
      exact readableB_iff.mp hk
    exact put_spec hi hnr m pos hk' (readableB_iff.mp hv)
  | putv k v m pos =>
    have hnr : s.released = false := by simpa [argsOk] using hok
    cases k with
    | none =>
      obtain ⟨g1, g2, g3⟩ := give_spec hi [v]
      have hex := fresh_exact s.heap [v] ⟨s.heap.next, v.length⟩ (by simp [fresh])
      have hpk := fresh_peek s.heap [v]
      simp only [fresh, map_cons, map_nil, cons.injEq, and_true] at hpk
      obtain ⟨s', r, h1, h2, h3, h4⟩ := put_spec (k := none) g1 hnr m pos (by simp) hex.readable
      refine ⟨s', r, h1, h2, g3.trans h3, ?_⟩
      simp only [resolve]
      rw [← h4]
      show vstep s.view _ = vstep (State.view (s.give _ _)) (.put none ((allocAll s.heap [v]).peek _) m pos)
      rw [g2, hpk]
    | some kd =>
      obtain ⟨g1, g2, g3⟩ := give_spec hi [kd, v]
      have hexk := fresh_exact s.heap [kd, v] ⟨s.heap.next, kd.length⟩ (by simp [fresh])
      have hexv := fresh_exact s.heap [kd, v] ⟨s.heap.next + 1, v.length⟩ (by simp [fresh])
      have hpk := fresh_peek s.heap [kd, v]
      simp only [fresh, map_cons, map_nil, cons.injEq, and_true] at hpk
      obtain ⟨s', r, h1, h2, h3, h4⟩ := put_spec (k := some ⟨s.heap.next, kd.length⟩) g1 hnr m pos
        (by intro kr hkr; cases hkr; exact hexk.readable) hexv.readable
      refine ⟨s', r, by simpa [bytesRef, fresh, allocAll] using h1, h2, g3.trans h3, ?_⟩
      simp only [resolve]
      rw [← h4]
      show vstep s.view _ = vstep (State.view (s.give _ _))
        (.put (Option.map (allocAll s.heap [kd, v]).peek (some _)) ((allocAll s.heap [kd, v]).peek _) m pos)
      rw [g2, Option.map_some, hpk.1, hpk.2]
  | get sel part nm => exact get_spec hi sel part nm
  | pop sel part => exact pop_spec hi sel part
  | remove sel => exact remove_spec hi sel
  | dump => exact dump_spec hi
  | clear => exact clear_spec hi
  | release => exact release_spec hi

end Qlibc.Mem

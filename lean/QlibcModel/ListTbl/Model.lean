/-
  Executable model of src/containers/qlisttbl.c at mechanism level (property C08).

  * The doubly linked list `first … last` is `nodes : List Node`; `prev`/`next` of a node are its
    neighbours in that list. `num` is the separate counter the C code keeps.
  * A node carries an `id` from the allocation counter `fresh`; the caller's cursor of
    `qlisttbl_getnext` is a *copy* of the node struct, so its `prev`/`next` are ids. Following a
    copied pointer is a lookup by id: `Fault.dangling` if that node was freed meanwhile.
    `qlisttbl_removeobj` relinks through the copied neighbour pointers; when they no longer agree
    with the real neighbours of the node it finds (a stale cursor) the C code corrupts the list —
    the model reports `Fault.assertFail` for that case instead of inventing a list.
  * The name's hash is an argument (the C code computes `qhashmurmur3_32(name, strlen(name))`
    before using it); `load` takes the hash function as a parameter.
  * `strcasecmp` is ASCII case folding (C locale; the harness never calls `setlocale`).
-/
import QlibcModel.Base.Fault
import QlibcModel.HashTbl.Dec
import QlibcModel.Str.Spec
import QlibcModel.Encode.Model

namespace Qlibc.ListTbl
open Qlibc Qlibc.Dec

structure Node where
  id   : Nat
  hash : UInt32
  name : Bytes
  data : Bytes
  deriving Repr, DecidableEq, Inhabited

structure Opts where
  unique     : Bool
  caseInsens : Bool
  insertTop  : Bool
  lookupFwd  : Bool
  deriving Repr, DecidableEq

structure Tbl where
  opts  : Opts
  nodes : List Node
  num   : Nat
  fresh : Nat
  deriving Repr, DecidableEq

/-- `qlisttbl(options)` -/
def init (o : Opts) : Tbl := { opts := o, nodes := [], num := 0, fresh := 0 }

/-! ### name comparison -/

/-- `tolower` in the C locale -/
def toLower (c : UInt8) : UInt8 := if 65 ≤ c && c ≤ 90 then c + 32 else c

/-- the sign of `strcmp` (`f = id`) / `strcasecmp` (`f = toLower`) on C strings (names are
    NUL-free byte lists, the terminator is the end of the list): lexicographic comparison of the
    folded bytes as `unsigned char`, a proper prefix being smaller. The C code only ever tests the
    result for `== 0` (match) and `> 0` (sort). -/
def strcmpC (f : UInt8 → UInt8) : Bytes → Bytes → Ordering
  | [], [] => .eq
  | [], _ :: _ => .lt
  | _ :: _, [] => .gt
  | a :: as, b :: bs => if f a = f b then strcmpC f as bs else if f a < f b then .lt else .gt

def fold (o : Opts) : UInt8 → UInt8 := if o.caseInsens then toLower else id

/-- `tbl->namecmp(a, b)` -/
def namecmp (o : Opts) (a b : Bytes) : Ordering := strcmpC (fold o) a b

/-- `tbl->namematch(obj, name, hash)`: `namematch` compares the hash first, `namecasematch`
    ignores it -/
def nameMatch (o : Opts) (n : Node) (name : Bytes) (hash : UInt32) : Bool :=
  if o.caseInsens then strcmpC toLower n.name name == .eq
  else n.hash == hash && strcmpC id n.name name == .eq

/-! ### links -/

/-- nodes in lookup direction: from `first` through `next`, or from `last` through `prev` -/
def view (t : Tbl) : List Node := if t.opts.lookupFwd then t.nodes else t.nodes.reverse

def headId (l : List Node) : Option Nat := l.head?.map (·.id)

/-- `(obj->prev, obj->next)` of the node with this id; `none` = no such (live) node -/
def linksOf : (prev : Option Nat) → List Node → Nat → Option (Option Nat × Option Nat)
  | _, [], _ => none
  | p, n :: rest, id => if n.id = id then some (p, headId rest) else linksOf (some n.id) rest id

/-- the part of a direction view that starts at the node with this id -/
def suffixFrom : List Node → Nat → Option (List Node)
  | [], _ => none
  | n :: rest, id => if n.id = id then some (n :: rest) else suffixFrom rest id

/-! ### put -/

/-- `findobj(tbl, name, NULL)` seen as the rest of the view starting at the found node -/
def findFrom (t : Tbl) (name : Bytes) (hash : UInt32) : List Node :=
  if t.num = 0 then [] else (view t).dropWhile (fun n => !nameMatch t.opts n name hash)

/-- `findobj`: first match in lookup direction -/
def findobj (t : Tbl) (name : Bytes) (hash : UInt32) : Option Node := (findFrom t name hash).head?

/-- the caller's `qlisttbl_obj_t`; "first call" ⇔ `size == 0` -/
structure Cursor where
  size : Nat
  hash : UInt32
  name : Bytes
  data : Bytes
  prev : Option Nat
  next : Option Nat
  deriving Repr, DecidableEq

def Cursor.zero : Cursor := { size := 0, hash := 0, name := [], data := [], prev := none, next := none }

/-- the continuation pointer of a started cursor: `lookupforward ? obj->next : obj->prev` -/
def Cursor.cont (o : Opts) (cur : Cursor) : Option Nat := if o.lookupFwd then cur.next else cur.prev

/-- where `qlisttbl_getnext` starts looking: the rest of the direction view beginning at `cont` -/
def startOf (t : Tbl) (cur : Cursor) (key : Option (Bytes × UInt32)) : Except Fault (List Node) :=
  if cur.size = 0 then
    match key with
    | none => .ok (view t)                                  -- tbl->first / tbl->last
    | some (name, hash) => .ok (findFrom t name hash)       -- findobj(tbl, name, NULL)
  else
    match cur.cont t.opts with
    | none => .ok []
    | some id =>
      match suffixFrom (view t) id with
      | some l => .ok l
      | none => .error .dangling

/-- the `while (cont != NULL)` search: first node that matches (every node when `name == NULL`) -/
def hitOf (o : Opts) (key : Option (Bytes × UInt32)) (start : List Node) : Option Node :=
  match key with
  | none => start.head?
  | some (name, hash) => start.find? (fun n => nameMatch o n name hash)

/-- the copy-out of node `n` into the caller's struct, including its `prev`/`next` pointers -/
def fillNode (t : Tbl) (n : Node) : Except Fault Cursor :=
  match linksOf none t.nodes n.id with
  | some (p, x) => .ok { size := n.data.length, hash := n.hash, name := n.name, data := n.data, prev := p, next := x }
  | none => .error .dangling

/-- `qlisttbl_getnext(tbl, obj, name, newmem)`; `key = none` is `name == NULL`. `.ok none` is
    false/ENOENT (the cursor is left unchanged). -/
def getnext (t : Tbl) (cur : Cursor) (key : Option (Bytes × UInt32)) : Except Fault (Option Cursor) :=
  match startOf t cur key with
  | .error f => .error f
  | .ok start =>
    match hitOf t.opts key start with
    | none => .ok none
    | some n =>
      match fillNode t n with
      | .ok c => .ok (some c)
      | .error f => .error f

/-- the node `qlisttbl_removeobj` identifies as "this": `prev->next`, else `next->prev`, else
    `tbl->first` -/
def thisOf (t : Tbl) (cur : Cursor) : Except Fault (Option Nat) :=
  match cur.prev with
  | some p =>
    match linksOf none t.nodes p with
    | some (_, nx) => .ok nx
    | none => .error .dangling
  | none =>
    match cur.next with
    | some n =>
      match linksOf none t.nodes n with
      | some (pv, _) => .ok pv
      | none => .error .dangling
    | none => .ok (headId t.nodes)

/-- `qlisttbl_removeobj(tbl, obj)`; `.ok (false, t)` is "Can't verify object"/ENOENT -/
def removeobj (t : Tbl) (cur : Cursor) : Except Fault (Bool × Tbl) :=
  match thisOf t cur with
  | .error f => .error f
  | .ok none => .ok (false, t)
  | .ok (some x) =>
    match linksOf none t.nodes x with
    | none => .error .dangling
    | some (p, n) =>
      if p = cur.prev ∧ n = cur.next then
        .ok (true, { t with nodes := t.nodes.filter (·.id != x), num := t.num - 1 })
      else .error .assertFail                    -- stale cursor: relinking would corrupt the list

/-- the loop of `qlisttbl_remove`: `(numremoved, tbl')`; the result of removeobj is ignored -/
def removeLoop : (fuel : Nat) → Tbl → Cursor → Bytes → UInt32 → Nat → Except Fault (Nat × Tbl)
  | 0, _, _, _, _, _ => .error .outOfFuel
  | fuel + 1, t, cur, name, hash, cnt =>
    match getnext t cur (some (name, hash)) with
    | .error f => .error f
    | .ok none => .ok (cnt, t)
    | .ok (some cur') =>
      match removeobj t cur' with
      | .error f => .error f
      | .ok (_, t') => removeLoop fuel t' cur' name hash (cnt + 1)

/-- `qlisttbl_remove(tbl, name)` -/
def remove (t : Tbl) (name : Bytes) (hash : UInt32) : Except Fault (Nat × Tbl) :=
  removeLoop (t.nodes.length + 1) t Cursor.zero name hash 0

/-- linking of the new node: `num == 0` ⇒ only node; else at the bottom, or at the top -/
def link (t : Tbl) (obj : Node) : Tbl :=
  { t with nodes := if t.num = 0 then [obj]
                    else if t.opts.insertTop then obj :: t.nodes else t.nodes ++ [obj],
           num := t.num + 1 }

/-- `qlisttbl_put(tbl, name, data, size)` for non-NULL name/data: `.ok (false, t)` is EINVAL
    (`size <= 0`). The new node is allocated (id drawn) before the unique-removal. -/
def put (t : Tbl) (name : Bytes) (hash : UInt32) (data : Bytes) : Except Fault (Bool × Tbl) :=
  if data.length = 0 then .ok (false, t)
  else
    let obj : Node := { id := t.fresh, hash := hash, name := name, data := data }
    let t1 := { t with fresh := t.fresh + 1 }
    if t1.opts.unique then
      match remove t1 name hash with
      | .error f => .error f
      | .ok (_, t2) => .ok (true, link t2 obj)
    else .ok (true, link t1 obj)

def putstr (t : Tbl) (name : Bytes) (hash : UInt32) (str : Bytes) : Except Fault (Bool × Tbl) :=
  put t name hash (str ++ [0])

def putint (t : Tbl) (name : Bytes) (hash : UInt32) (n : Int) : Except Fault (Bool × Tbl) :=
  putstr t name hash (intToDec n)

/-! ### get -/

/-- `qlisttbl_get`: bytes (and length) of the first match in lookup direction -/
def get (t : Tbl) (name : Bytes) (hash : UInt32) : Option Bytes := (findobj t name hash).map (·.data)

def getint (t : Tbl) (name : Bytes) (hash : UInt32) : Except Fault Int :=
  match get t name hash with
  | none => .ok 0
  | some d => atoll d

/-- the `while (getnext(tbl, &obj, name, newmem))` loop of getmulti and of a caller's walk -/
def walkLoop : (fuel : Nat) → Tbl → Cursor → Option (Bytes × UInt32) → Except Fault (List Cursor)
  | 0, _, _, _ => .error .outOfFuel
  | fuel + 1, t, cur, key =>
    match getnext t cur key with
    | .error f => .error f
    | .ok none => .ok []
    | .ok (some cur') =>
      match walkLoop fuel t cur' key with
      | .error f => .error f
      | .ok rest => .ok (cur' :: rest)

def walk (t : Tbl) (key : Option (Bytes × UInt32)) : Except Fault (List Cursor) :=
  walkLoop (t.nodes.length + 1) t Cursor.zero key

/-- `qlisttbl_getmulti`: the data of all matches in lookup order (`[]` = NULL/ENOENT) -/
def getmulti (t : Tbl) (name : Bytes) (hash : UInt32) : Except Fault (List Bytes) :=
  (walk t (some (name, hash))).map (·.map (·.data))

/-- walk with removal: the caller removes the i-th returned entry (through the cursor) when
    `rm i` and continues with the same cursor. Returns the visited cursors with the result of
    `removeobj` where it was called. -/
def walkRmLoop : (fuel : Nat) → Tbl → Cursor → Option (Bytes × UInt32) → (rm : Nat → Bool) → Nat →
    Except Fault (List (Cursor × Option Bool) × Tbl)
  | 0, _, _, _, _, _ => .error .outOfFuel
  | fuel + 1, t, cur, key, rm, i =>
    match getnext t cur key with
    | .error f => .error f
    | .ok none => .ok ([], t)
    | .ok (some cur') =>
      if rm i then
        match removeobj t cur' with
        | .error f => .error f
        | .ok (r, t') =>
          match walkRmLoop fuel t' cur' key rm (i + 1) with
          | .error f => .error f
          | .ok (rest, t'') => .ok ((cur', some r) :: rest, t'')
      else
        match walkRmLoop fuel t cur' key rm (i + 1) with
        | .error f => .error f
        | .ok (rest, t'') => .ok ((cur', none) :: rest, t'')

def walkRm (t : Tbl) (key : Option (Bytes × UInt32)) (rm : Nat → Bool) :
    Except Fault (List (Cursor × Option Bool) × Tbl) :=
  walkRmLoop (t.nodes.length + 1) t Cursor.zero key rm 0

def size (t : Tbl) : Nat := t.num

def clear (t : Tbl) : Tbl := { t with nodes := [], num := 0 }

/-! ### sort: the bubble sort of the source, swapping payloads (ids stay in place) -/

/-- the inner `for (i = 0; i < n - 1; i++)` loop: `k` comparisons left, `i` = index of `obj1`,
    returns the list and `n2` -/
def bubblePass (gt : Node → Node → Bool) : (k i : Nat) → List Node → (n2 : Nat) → List Node × Nat
  | k + 1, i, a :: b :: rest, n2 =>
    if gt a b then
      let (l, m) := bubblePass gt k (i + 1) (a :: rest) (i + 1)
      (b :: l, m)
    else
      let (l, m) := bubblePass gt k (i + 1) (b :: rest) n2
      (a :: l, m)
  | _, _, l, n2 => (l, n2)

/-- the outer `for (n = num; n > 0;) { …; n = n2; }` loop -/
def bubbleLoop (gt : Node → Node → Bool) : (fuel n : Nat) → List Node → Except Fault (List Node)
  | 0, _, _ => .error .outOfFuel
  | fuel + 1, n, l =>
    if n = 0 then .ok l
    else
      let (l', n2) := bubblePass gt (n - 1) 0 l 0
      bubbleLoop gt fuel n2 l'

/-- put the ids back in list position order (payloads were swapped, nodes stayed) -/
def reId : List Node → List Node → List Node
  | n :: ns, p :: ps => { p with id := n.id } :: reId ns ps
  | _, _ => []

/-- `qlisttbl_sort`. `obj2 = obj1->next; // this can't be null` holds when `num` does not exceed
    the real length; otherwise the first pass dereferences NULL. -/
def sort (t : Tbl) : Except Fault Tbl :=
  if t.num > t.nodes.length ∧ t.num ≥ 2 then .error .nullDeref
  else do
    let l ← bubbleLoop (fun a b => namecmp t.opts a.name b.name == .gt) (t.num + 1) t.num t.nodes
    pure { t with nodes := reId t.nodes l }

/-! ### save / load -/

/-- `%s` of a value: the bytes before the first NUL; running off the block is an over-read -/
def cstrOf (d : Bytes) : Except Fault Bytes :=
  if d.contains 0 then .ok (d.takeWhile (· != 0)) else .error .oob

/-- the value as written: `qurl_encode(obj->data, obj->size)` or the C string `obj->data` -/
def saveVal (enc : Bool) (d : Bytes) : Except Fault Bytes :=
  if enc then .ok (Encode.urlEncode d) else cstrOf d

/-- one `"%s%c%s\n"` line of `qlisttbl_save` -/
def saveLine (sep : UInt8) (enc : Bool) (n : Node) : Except Fault Bytes :=
  match saveVal enc n.data with
  | .ok v => .ok (n.name ++ [sep] ++ v ++ [10])
  | .error f => .error f

def saveLines (sep : UInt8) (enc : Bool) : List Node → Except Fault Bytes
  | [] => .ok []
  | n :: rest =>
    match saveLine sep enc n with
    | .error f => .error f
    | .ok l =>
      match saveLines sep enc rest with
      | .error f => .error f
      | .ok r => .ok (l ++ r)

/-- the entry lines `qlisttbl_save` writes after the `# path time` comment line -/
def saveBody (t : Tbl) (sep : UInt8) (enc : Bool) : Except Fault Bytes := saveLines sep enc t.nodes

/-- the whole file: comment line with an arbitrary text (path and time stamp), then the entries -/
def saveFile (hdr : Bytes) (t : Tbl) (sep : UInt8) (enc : Bool) : Except Fault Bytes :=
  match saveBody t sep enc with
  | .ok b => .ok ([35, 32] ++ hdr ++ [10] ++ b)
  | .error f => .error f

/-- `if (decode) qurl_decode(data);` followed by `strlen(data)` -/
def decodeVal (dec : Bool) (data : Bytes) : Except Fault Bytes :=
  if dec then
    match Encode.urlDecodeRaw (data ++ [0]) with
    | .ok r => .ok (r.1.takeWhile (· != 0))
    | .error f => .error f
  else .ok data

/-- one line of `qlisttbl_load` after the split: `none` = skipped (blank or comment), otherwise
    the name and the value (with its terminator) that are put -/
def parseLine (line : Bytes) (sep : UInt8) (dec : Bool) : Except Fault (Option (Bytes × Bytes)) :=
  match Str.trim line with
  | [] => .ok none
  | c :: rest =>
    if c = 35 then .ok none
    else
      let w := Encode.makeword (c :: rest) sep
      match decodeVal dec (Str.trim w.2) with
      | .ok d => .ok (some (Str.trim w.1, d ++ [0]))
      | .error f => .error f

/-- the line loop of `qlisttbl_load` over the C string `str`; returns `(cnt, tbl')` -/
def loadLoop (h : Bytes → UInt32) (sep : UInt8) (dec : Bool) :
    (fuel : Nat) → Bytes → Tbl → Nat → Except Fault (Nat × Tbl)
  | 0, _, _, _ => .error .outOfFuel
  | fuel + 1, str, t, cnt =>
    if str = [] then .ok (cnt, t)
    else
      let line := str.takeWhile (· != 10)
      let rest := (str.drop line.length).drop 1
      match parseLine line sep dec with
      | .error f => .error f
      | .ok none => loadLoop h sep dec fuel rest t cnt
      | .ok (some (name, data)) =>
        match put t name (h name) data with
        | .error f => .error f
        | .ok (ok, t') => loadLoop h sep dec fuel rest t' (if ok then cnt + 1 else cnt)

/-- `qlisttbl_load(tbl, file, sepchar, decode)` on the file content (`qfile_load` appends the
    terminator, so the C string ends at the first NUL byte of the file) -/
def load (h : Bytes → UInt32) (t : Tbl) (file : Bytes) (sep : UInt8) (dec : Bool) : Except Fault (Nat × Tbl) :=
  let str := file.takeWhile (· != 0)
  loadLoop h sep dec (str.length + 1) str t 0

end Qlibc.ListTbl

/-
  Histories of list table operations against the ideal ordered multimap.
-/
import QlibcModel.ListTbl.Sort

namespace Qlibc.ListTbl
open Qlibc Qlibc.Dec

inductive Op where
  | put (k v : Bytes)
  | putstr (k s : Bytes)
  | putint (k : Bytes) (n : Int)
  | get (k : Bytes)
  | getint (k : Bytes)
  | getmulti (k : Bytes)
  | remove (k : Bytes)
  | size
  | clear
  | sort
  | walk (k : Option Bytes)          -- complete getnext loop, unnamed or name-filtered
  deriving Repr

inductive Res where
  | bool (b : Bool)
  | data (d : Option Bytes)
  | int (r : Except Fault Int)
  | multi (l : List Bytes)
  | nat (n : Nat)
  | unit
  | entries (l : List KV)
  | fault (f : Fault)
  deriving Repr

def putRes (t : Tbl) (r : Except Fault (Bool × Tbl)) : Tbl × Res :=
  match r with
  | .ok (b, t') => (t', .bool b)
  | .error f => (t, .fault f)

/-- one operation on the model -/
def step (h : Bytes → UInt32) (t : Tbl) : Op → Tbl × Res
  | .put k v => putRes t (put t k (h k) v)
  | .putstr k s => putRes t (putstr t k (h k) s)
  | .putint k n => putRes t (putint t k (h k) n)
  | .get k => (t, .data (get t k (h k)))
  | .getint k => (t, .int (getint t k (h k)))
  | .getmulti k => (t, match getmulti t k (h k) with | .ok l => .multi l | .error f => .fault f)
  | .remove k => match remove t k (h k) with | .ok (n, t') => (t', .nat n) | .error f => (t, .fault f)
  | .size => (t, .nat (size t))
  | .clear => (clear t, .unit)
  | .sort => match sort t with | .ok t' => (t', .unit) | .error f => (t, .fault f)
  | .walk k => (t, match walk t (k.map fun k => (k, h k)) with
      | .ok cs => .entries (cs.map Cursor.kv) | .error f => .fault f)

def run (h : Bytes → UInt32) : Tbl → List Op → List Res
  | _, [] => []
  | t, op :: ops => (step h t op).2 :: run h (step h t op).1 ops

/-- put on the ideal multimap -/
def specPut (o : Opts) (k v : Bytes) (m : List KV) : List KV :=
  if o.insertTop
    then (k, v) :: (if o.unique then m.filter (fun e => !keyIs o k e) else m)
    else (if o.unique then m.filter (fun e => !keyIs o k e) else m) ++ [(k, v)]

def specGet (o : Opts) (k : Bytes) (m : List KV) : Option Bytes := ((dir o m).find? (keyIs o k)).map (·.2)

/-- one operation on the ideal ordered multimap (a relation: the order among entries with equal
    keys after a sort is fixed by stability, which is stated, not computed) -/
def SpecStep (o : Opts) (m : List KV) (op : Op) (m' : List KV) (r : Res) : Prop :=
  match op with
  | .put k v => if v = [] then m' = m ∧ r = .bool false else m' = specPut o k v m ∧ r = .bool true
  | .putstr k s => m' = specPut o k (s ++ [0]) m ∧ r = .bool true
  | .putint k n => m' = specPut o k (intToDec n ++ [0]) m ∧ r = .bool true
  | .get k => m' = m ∧ r = .data (specGet o k m)
  | .getint k => m' = m ∧ r = .int (match specGet o k m with | none => .ok 0 | some d => atoll d)
  | .getmulti k => m' = m ∧ r = .multi (((dir o m).filter (keyIs o k)).map (·.2))
  | .remove k => m' = m.filter (fun e => !keyIs o k e) ∧ r = .nat (m.filter (keyIs o k)).length
  | .size => m' = m ∧ r = .nat m.length
  | .clear => m' = [] ∧ r = .unit
  | .sort => r = .unit ∧ List.Pairwise (fun a b : KV => namecmp o a.1 b.1 ≠ .gt) m' ∧ m'.Perm m ∧
      ∀ k, m'.filter (keyIs o k) = m.filter (keyIs o k)
  | .walk none => m' = m ∧ r = .entries (dir o m)
  | .walk (some k) => m' = m ∧ r = .entries ((dir o m).filter (keyIs o k))

/-- a trace of results is one the ideal multimap can produce -/
inductive SpecRun (o : Opts) : List KV → List Op → List Res → Prop where
  | nil (m : List KV) : SpecRun o m [] []
  | cons {m m' : List KV} {op : Op} {r : Res} {ops : List Op} {rs : List Res} :
      SpecStep o m op m' r → SpecRun o m' ops rs → SpecRun o m (op :: ops) (r :: rs)

local macro "tr" : term => `(by first | rfl | trivial)

variable (h : Bytes → UInt32)

theorem put_step {t : Tbl} (I : Inv h t) (k v : Bytes) (hv : v ≠ []) :
    Inv h (putRes t (put t k (h k) v)).1 ∧ (putRes t (put t k (h k) v)).1.opts = t.opts ∧
      entries (putRes t (put t k (h k) v)).1 = specPut t.opts k v (entries t) ∧
      (putRes t (put t k (h k) v)).2 = .bool true := by
  obtain ⟨t', hp, I', ho, he⟩ := put_eq h I k v hv
  rw [hp]
  exact ⟨I', ho, he, rfl⟩

theorem step_spec {t : Tbl} (I : Inv h t) (op : Op) :
    Inv h (step h t op).1 ∧ (step h t op).1.opts = t.opts ∧
      SpecStep t.opts (entries t) op (entries (step h t op).1) (step h t op).2 := by
  cases op with
  | put k v =>
    by_cases hv : v = []
    · subst hv
      have : put t k (h k) [] = .ok (false, t) := by simp [put]
      simp only [step, this, putRes, SpecStep, if_true]
      exact ⟨I, tr, tr, tr⟩
    · obtain ⟨h1, h2, h3, h4⟩ := put_step h I k v hv
      simp only [step, SpecStep, hv, if_false]
      exact ⟨h1, h2, h3, h4⟩
  | putstr k s =>
    obtain ⟨h1, h2, h3, h4⟩ := put_step h I k (s ++ [0]) (by simp)
    exact ⟨h1, h2, h3, h4⟩
  | putint k n =>
    obtain ⟨h1, h2, h3, h4⟩ := put_step h I k (intToDec n ++ [0]) (by simp)
    exact ⟨h1, h2, h3, h4⟩
  | get k => exact ⟨I, rfl, rfl, by simp only [step, specGet, get_eq h I k]⟩
  | getint k =>
    refine ⟨I, rfl, rfl, ?_⟩
    simp only [step, getint, specGet, get_eq h I k]
    rfl
  | getmulti k => exact ⟨I, rfl, rfl, by simp only [step, getmulti_eq h I k]⟩
  | remove k =>
    obtain ⟨t', hr, I', ho, _, hn⟩ := remove_eq h I k
    simp only [step, hr, SpecStep]
    refine ⟨I', ho, ?_, tr⟩
    unfold entries
    rw [hn, List.filter_map]
    rfl
  | size => exact ⟨I, rfl, rfl, by simp only [step, size_eq h I]⟩
  | clear => exact ⟨inv_clear h, rfl, rfl, rfl⟩
  | sort =>
    obtain ⟨t', hs, I', ho, h1, h2, h3, _⟩ := sort_eq h I
    simp only [step, hs, SpecStep]
    exact ⟨I', ho, tr, h1, h2, h3⟩
  | walk k =>
    cases k with
    | none =>
      obtain ⟨cs, hw, hc⟩ := walk_all h I
      simp only [step, Option.map_none, hw, SpecStep, hc]
      exact ⟨I, tr, tr, tr⟩
    | some k =>
      obtain ⟨cs, hw, hc⟩ := walk_named h I k
      simp only [step, Option.map_some, hw, SpecStep, hc]
      exact ⟨I, tr, tr, tr⟩

theorem run_spec {t : Tbl} (I : Inv h t) (ops : List Op) : SpecRun t.opts (entries t) ops (run h t ops) := by
  induction ops generalizing t with
  | nil => exact SpecRun.nil _
  | cons op ops ih =>
    obtain ⟨I', ho, hs⟩ := step_spec h I op
    have := ih I'
    rw [ho] at this
    exact SpecRun.cons hs this

/-- the state after a history, and its invariant -/
def runState (h : Bytes → UInt32) : Tbl → List Op → Tbl
  | t, [] => t
  | t, op :: ops => runState h (step h t op).1 ops

theorem runState_inv {t : Tbl} (I : Inv h t) (ops : List Op) : Inv h (runState h t ops) := by
  induction ops generalizing t with
  | nil => exact I
  | cons op ops ih => exact ih (step_spec h I op).1

end Qlibc.ListTbl

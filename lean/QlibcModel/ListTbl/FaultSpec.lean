/-
  Allocation failure in the list table is reported and leaves the table unchanged and valid;
  the allocation ledger is a function of the contents.
-/
import QlibcModel.ListTbl.Fault
import QlibcModel.ListTbl.History

namespace Qlibc.ListTbl
open Qlibc Qlibc.Dec Qlibc.MapFault

variable (h : Bytes → UInt32)

/-! ### put -/

/-- whatever allocation fails, `qlisttbl_put` on a valid table returns (no fault); when it reports
    failure (EINVAL for an empty value, ENOMEM) the state is the one it was given — every node,
    the counter, the id counter; when it reports success it is the plain put -/
theorem putF_spec {t : Tbl} (I : Inv h t) (plan : Plan) (k v : Bytes) :
    ∃ o t' n, putF plan t k (h k) v = .ok (o, t', n) ∧ Inv h t' ∧
      (o ≠ .ok → t' = t) ∧ (o = .ok → put t k (h k) v = .ok (true, t')) ∧
      (o = .einval ↔ v = []) ∧ (o = .enomem → newobjFails plan 0 = true) := by
  unfold putF
  by_cases hv : v = []
  · subst hv
    refine ⟨.einval, t, 0, by simp, I, fun _ => rfl, ?_, by simp, ?_⟩
    · intro h0; cases h0
    · intro h0; cases h0
  · have hlen : ¬ v.length = 0 := fun h0 => hv (List.eq_nil_of_length_eq_zero h0)
    rw [if_neg hlen]
    by_cases hf : newobjFails plan 0 = true
    · rw [if_pos hf]
      refine ⟨.enomem, t, 3, rfl, I, fun _ => rfl, ?_, ?_, fun _ => hf⟩
      · intro h0; cases h0
      · constructor
        · intro h0; cases h0
        · intro h0; exact absurd h0 hv
    · rw [if_neg hf]
      obtain ⟨t', hp, I', _, _⟩ := put_eq h I k v hv
      rw [hp]
      refine ⟨.ok, t', 3, rfl, I', fun h0 => absurd rfl h0, fun _ => rfl, ?_, ?_⟩
      · constructor
        · intro h0; cases h0
        · intro h0; exact absurd h0 hv
      · intro h0; cases h0

/-- `putstrf`: a failure while formatting, or inside the put, leaves the state as it was -/
theorem putstrfF_spec {t : Tbl} (I : Inv h t) (plan : Plan) (k str : Bytes) :
    ∃ o t' n, putstrfF plan t k (h k) str = .ok (o, t', n) ∧ Inv h t' ∧
      (o ≠ .ok → t' = t) ∧ (o = .ok → putstr t k (h k) str = .ok (true, t')) := by
  unfold putstrfF
  cases hp : printfF plan (vsAttempts str.length) 0 with
  | mk ok a =>
    cases ok with
    | false =>
      refine ⟨.enomem, t, a, rfl, I, fun _ => rfl, ?_⟩
      intro h0; cases h0
    | true =>
      obtain ⟨o, t', n, hF, I', h1, h2, _⟩ := putF_spec h I (plan.shift a) k (str ++ [0])
      simp only [putstrF, hF]
      exact ⟨o, t', a + n, rfl, I', h1, fun h0 => by simpa [putstr] using h2 h0⟩

theorem putF_noFail (t : Tbl) (k : Bytes) (hh : UInt32) (v : Bytes) (hv : v ≠ []) :
    (putF noFail t k hh v).map (fun r => r.2.1) = (put t k hh v).map (fun r => r.2) := by
  have hlen : ¬ v.length = 0 := fun h0 => hv (List.eq_nil_of_length_eq_zero h0)
  unfold putF
  rw [if_neg hlen]
  simp only [newobjFails, noFail_apply, Bool.or_self, Bool.false_eq_true, if_false]
  cases put t k hh v with
  | error f => rfl
  | ok r => rfl

/-! ### the copying accessors return values only -/

theorem getF_cases (plan : Plan) (t : Tbl) (k : Bytes) (hh : UInt32) (newmem : Bool) :
    ((getF plan t k hh newmem).1 = .enomem ∧ newmem = true ∧ plan 1 = true ∧ (get t k hh).isSome) ∨
    (getF plan t k hh newmem).1 = (match get t k hh with | some d => .data d | none => .enoent) := by
  unfold getF
  cases get t k hh with
  | none => simp
  | some d =>
    cases newmem with
    | false => simp
    | true =>
      by_cases h1 : plan 1 = true
      · simp [h1]
      · simp [h1]

/-- the walk step looks at the position fields of the caller's object only -/
theorem getnext_congr (t : Tbl) (c cur : Cursor) (key : Option (Bytes × UInt32))
    (h1 : c.size = cur.size) (h2 : c.prev = cur.prev) (h3 : c.next = cur.next) :
    getnext t c key = getnext t cur key := by
  unfold getnext startOf Cursor.cont
  rw [h1, h2, h3]

/-- `getnext` with `newmem` under any plan: a fault of the plain step, the plain result, or a
    reported ENOMEM — then the position fields of the caller's object are unchanged, so repeating
    the call is the plain step again -/
theorem getnextF_cases (plan : Plan) (a : Nat) (t : Tbl) (cur : Cursor) (key : Option (Bytes × UInt32)) (newmem : Bool) :
    (∃ f, getnext t cur key = .error f ∧ getnextF plan a t cur key newmem = .error f) ∨
    (∃ c n, getnextF plan a t cur key newmem = .ok (.enomem c, n) ∧ newmem = true ∧ (plan (a + 1) || plan (a + 2)) = true ∧
        c.size = cur.size ∧ c.prev = cur.prev ∧ c.next = cur.next) ∨
    (getnext t cur key = .ok none ∧ getnextF plan a t cur key newmem = .ok (.done, a)) ∨
    (∃ c a1, getnext t cur key = .ok (some c) ∧ getnextF plan a t cur key newmem = .ok (.item c, a1)) := by
  unfold getnextF
  cases getnext t cur key with
  | error f => exact .inl ⟨f, rfl, rfl⟩
  | ok r =>
    cases r with
    | none => exact .inr (.inr (.inl ⟨rfl, rfl⟩))
    | some c =>
      cases newmem with
      | false => exact .inr (.inr (.inr ⟨c, a, rfl, rfl⟩))
      | true =>
        by_cases h12 : (plan (a + 1) || plan (a + 2)) = true
        · exact .inr (.inl ⟨{ cur with name := [], data := [] }, a + 2, by simp [h12], rfl, h12, rfl, rfl, rfl⟩)
        · exact .inr (.inr (.inr ⟨c, a + 2, rfl, by simp [h12]⟩))

/-! ### getmulti -/

/-- the loop of `getmulti` under a plan against the plain `getnext` loop: when it delivers an
    array, that is the data of exactly the entries the plain loop returns; a fault of it is a
    fault of the plain loop -/
theorem multiLoop_some (plan : Plan) (newmem : Bool) (key : Option (Bytes × UInt32)) :
    ∀ (fuel : Nat) (t : Tbl) (cur : Cursor) (nf al a : Nat) (ds : List Bytes) (n : Nat),
      multiLoop plan newmem key fuel t cur nf al a = .ok (some ds, n) →
      ∃ cs, walkLoop fuel t cur key = .ok cs ∧ ds = cs.map (·.data) := by
  intro fuel
  induction fuel with
  | zero => intro t cur nf al a ds n hm; simp [multiLoop] at hm
  | succ fuel ih =>
    intro t cur nf al a ds n hm
    unfold multiLoop at hm
    unfold walkLoop
    rcases getnextF_cases plan a t cur key newmem with ⟨f, _, hF⟩ | ⟨c, m, hF, _⟩ | ⟨hg, hF⟩ | ⟨c, a1, hg, hF⟩
    · rw [hF] at hm; cases hm
    · rw [hF] at hm; cases hm
    · rw [hF] at hm
      simp only [Except.ok.injEq, Prod.mk.injEq, Option.some.injEq] at hm
      rw [hg]
      exact ⟨[], rfl, by rw [← hm.1]; rfl⟩
    · rw [hF] at hm
      rw [hg]
      simp only at hm
      split at hm
      · cases hm
      · split at hm
        · cases hm
        · rename_i rest n' hrec
          simp only [Except.ok.injEq, Prod.mk.injEq, Option.some.injEq] at hm
          obtain ⟨cs, hw, hds⟩ := ih _ _ _ _ _ _ _ hrec
          simp only [hw]
          exact ⟨c :: cs, rfl, by rw [← hm.1, hds]; rfl⟩
        · cases hm

theorem multiLoop_error (plan : Plan) (newmem : Bool) (key : Option (Bytes × UInt32)) :
    ∀ (fuel : Nat) (t : Tbl) (cur : Cursor) (nf al a : Nat) (f : Fault),
      multiLoop plan newmem key fuel t cur nf al a = .error f →
      ∃ f', walkLoop fuel t cur key = .error f' := by
  intro fuel
  induction fuel with
  | zero => intro t cur nf al a f _; exact ⟨_, rfl⟩
  | succ fuel ih =>
    intro t cur nf al a f hm
    unfold multiLoop at hm
    unfold walkLoop
    rcases getnextF_cases plan a t cur key newmem with ⟨f', hg, _⟩ | ⟨c, m, hF, _⟩ | ⟨hg, hF⟩ | ⟨c, a1, hg, hF⟩
    · rw [hg]; exact ⟨f', rfl⟩
    · rw [hF] at hm; cases hm
    · rw [hF] at hm; cases hm
    · rw [hF] at hm
      rw [hg]
      simp only at hm
      split at hm
      · cases hm
      · split at hm
        · rename_i f2 hrec
          obtain ⟨f', hw⟩ := ih _ _ _ _ _ _ hrec
          simp only [hw]; exact ⟨f', rfl⟩
        · cases hm
        · cases hm

theorem multiLoop_noFail (newmem : Bool) (key : Option (Bytes × UInt32)) :
    ∀ (fuel : Nat) (t : Tbl) (cur : Cursor) (nf al a : Nat) (cs : List Cursor),
      walkLoop fuel t cur key = .ok cs →
      ∃ n, multiLoop noFail newmem key fuel t cur nf al a = .ok (some (cs.map (·.data)), n) := by
  intro fuel
  induction fuel with
  | zero => intro t cur nf al a cs hw; simp [walkLoop] at hw
  | succ fuel ih =>
    intro t cur nf al a cs hw
    unfold walkLoop at hw
    unfold multiLoop
    rcases getnextF_cases noFail a t cur key newmem with ⟨f, hg, _⟩ | ⟨c, m, _, _, h12, _⟩ | ⟨hg, hF⟩ | ⟨c, a1, hg, hF⟩
    · rw [hg] at hw; cases hw
    · simp at h12
    · rw [hg] at hw
      cases hw
      rw [hF]
      exact ⟨a, rfl⟩
    · rw [hg] at hw
      rw [hF]
      simp only [noFail_apply, Bool.and_false, Bool.false_eq_true, if_false]
      cases hrec : walkLoop fuel t c key with
      | error f => simp only [hrec] at hw; cases hw
      | ok rest =>
        simp only [hrec] at hw
        cases hw
        obtain ⟨n, hn⟩ := ih t c (nf + 1) (newCap nf al) (afterGrow nf al a1) rest hrec
        rw [hn]
        exact ⟨n, rfl⟩

/-- `getmulti` under ANY allocation plan returns (when the plain loop is fault-free, which it is
    on every valid table) either NULL/ENOMEM or exactly the matches of the plain getmulti — never
    a truncated list -/
theorem getmultiF_cases (plan : Plan) (t : Tbl) (k : Bytes) (hh : UInt32) (newmem : Bool) (ds : List Bytes)
    (hg : getmulti t k hh = .ok ds) :
    ∃ n, getmultiF plan t k hh newmem = .ok (none, n) ∨ getmultiF plan t k hh newmem = .ok (some ds, n) := by
  unfold getmulti walk at hg
  unfold getmultiF
  cases hw : walkLoop (t.nodes.length + 1) t Cursor.zero (some (k, hh)) with
  | error f => rw [hw] at hg; cases hg
  | ok cs =>
    rw [hw] at hg
    cases hm : multiLoop plan newmem (some (k, hh)) (t.nodes.length + 1) t Cursor.zero 0 0 0 with
    | error f =>
      obtain ⟨f', hf⟩ := multiLoop_error plan newmem _ _ _ _ _ _ _ f hm
      rw [hw] at hf; cases hf
    | ok r =>
      obtain ⟨o, n⟩ := r
      cases o with
      | none => exact ⟨n, .inl rfl⟩
      | some ds' =>
        obtain ⟨cs', hw', hds⟩ := multiLoop_some plan newmem _ _ _ _ _ _ _ ds' n hm
        rw [hw] at hw'
        cases hw'
        refine ⟨n, .inr ?_⟩
        rw [hds]
        simp only [Except.map, Except.ok.injEq] at hg
        rw [← hg]

theorem getmultiF_noFail (t : Tbl) (k : Bytes) (hh : UInt32) (newmem : Bool) (ds : List Bytes)
    (hg : getmulti t k hh = .ok ds) : ∃ n, getmultiF noFail t k hh newmem = .ok (some ds, n) := by
  unfold getmulti walk at hg
  unfold getmultiF
  cases hw : walkLoop (t.nodes.length + 1) t Cursor.zero (some (k, hh)) with
  | error f => rw [hw] at hg; cases hg
  | ok cs =>
    rw [hw] at hg
    obtain ⟨n, hn⟩ := multiLoop_noFail newmem _ _ t Cursor.zero 0 0 0 cs hw
    simp only [Except.map, Except.ok.injEq] at hg
    exact ⟨n, by rw [hn, hg]⟩

/-! ### save -/

theorem printfF_noFail (k a : Nat) : printfF noFail k a = (true, a + k) := by
  induction k generalizing a with
  | zero => rfl
  | succ k ih => simp only [printfF, noFail_apply, Bool.false_eq_true, if_false, ih]; congr 1; omega

/-- the entry loop of save under any plan: when it reports success the text is what the plain
    loop writes -/
theorem saveLinesF_some (plan : Plan) (sep : UInt8) (enc : Bool) :
    ∀ (ns : List Node) (a : Nat) (b : Bytes) (n : Nat),
      saveLinesF plan sep enc ns a = .ok (some b, n) → saveLines sep enc ns = .ok b := by
  intro ns
  induction ns with
  | nil => intro a b n hs; simp only [saveLinesF, Except.ok.injEq, Prod.mk.injEq, Option.some.injEq] at hs; rw [← hs.1]; rfl
  | cons x rest ih =>
    intro a b n hs
    unfold saveLinesF at hs
    unfold saveLines
    split at hs
    · cases hs
    · cases hl : saveLine sep enc x with
      | error f => rw [hl] at hs; cases hs
      | ok l =>
        rw [hl] at hs
        simp only at hs
        split at hs
        · cases hs
        · split at hs
          · cases hs
          · rename_i r a3 hrec
            simp only [Except.ok.injEq, Prod.mk.injEq, Option.some.injEq] at hs
            rw [ih _ _ _ hrec, ← hs.1]
          · cases hs

theorem saveLinesF_noFail (sep : UInt8) (enc : Bool) :
    ∀ (ns : List Node) (a : Nat) (b : Bytes), saveLines sep enc ns = .ok b →
      ∃ n, saveLinesF noFail sep enc ns a = .ok (some b, n) := by
  intro ns
  induction ns with
  | nil => intro a b hs; cases hs; exact ⟨a, rfl⟩
  | cons x rest ih =>
    intro a b hs
    unfold saveLines at hs
    unfold saveLinesF
    simp only [noFail_apply, Bool.and_false, Bool.false_eq_true, if_false]
    cases hl : saveLine sep enc x with
    | error f => rw [hl] at hs; cases hs
    | ok l =>
      rw [hl] at hs
      simp only at hs ⊢
      rw [printfF_noFail]
      simp only
      cases hr : saveLines sep enc rest with
      | error f => rw [hr] at hs; cases hs
      | ok r =>
        rw [hr] at hs
        cases hs
        obtain ⟨n, hn⟩ := ih (encCnt enc a + vsAttempts l.length) r hr
        rw [hn]
        exact ⟨n, rfl⟩

/-- `save` under ANY plan: when it reports success the entry lines are exactly those of the plain
    save (nothing dropped, nothing replaced) -/
theorem saveF_some (plan : Plan) (t : Tbl) (sep : UInt8) (enc : Bool) (hdrLen : Nat) (b : Bytes) (n : Nat)
    (hs : saveF plan t sep enc hdrLen = .ok (some b, n)) : saveBody t sep enc = .ok b := by
  unfold saveF at hs
  split at hs
  · cases hs
  · split at hs
    · cases hs
    · exact saveLinesF_some plan sep enc _ _ _ _ hs

theorem saveF_noFail (t : Tbl) (sep : UInt8) (enc : Bool) (hdrLen : Nat) (b : Bytes)
    (hs : saveBody t sep enc = .ok b) : ∃ n, saveF noFail t sep enc hdrLen = .ok (some b, n) := by
  unfold saveF
  simp only [noFail_apply, Bool.false_eq_true, if_false, printfF_noFail]
  exact saveLinesF_noFail sep enc _ _ _ hs

/-! ### load: all entries or none -/

theorem parseLine_data_ne_nil {line : Bytes} {sep : UInt8} {dec : Bool} {name data : Bytes}
    (hp : parseLine line sep dec = .ok (some (name, data))) : data ≠ [] := by
  unfold parseLine at hp
  split at hp
  · cases hp
  · split at hp
    · cases hp
    · simp only at hp
      split at hp
      · simp only [Except.ok.injEq, Option.some.injEq, Prod.mk.injEq] at hp
        rw [← hp.2]
        simp
      · cases hp

theorem put_ok_true {t t' : Tbl} {k : Bytes} {hh : UInt32} {v : Bytes} {b : Bool}
    (hp : put t k hh v = .ok (b, t')) (hv : v ≠ []) : b = true := by
  have hlen : ¬ v.length = 0 := fun h0 => hv (List.eq_nil_of_length_eq_zero h0)
  unfold put at hp
  rw [if_neg hlen] at hp
  simp only at hp
  split at hp
  · split at hp
    · cases hp
    · simp only [Except.ok.injEq, Prod.mk.injEq] at hp; exact hp.1.symm
  · simp only [Except.ok.injEq, Prod.mk.injEq] at hp; exact hp.1.symm

/-- when the first phase of `load` succeeds (under whatever plan), committing the objects it
    built is exactly the line-by-line loop of the plain `load` -/
theorem loadParse_commit (plan : Plan) (sep : UInt8) (dec : Bool) :
    ∀ (fuel : Nat) (str : Bytes) (a : Nat) (l : List (Bytes × Bytes)) (n : Nat),
      loadParse plan sep dec fuel str a = .ok (some l, n) →
      ∀ (t : Tbl) (cnt : Nat), loadCommit h l t cnt = loadLoop h sep dec fuel str t cnt := by
  intro fuel
  induction fuel with
  | zero => intro str a l n hp; simp [loadParse] at hp
  | succ fuel ih =>
    intro str a l n hp t cnt
    unfold loadParse at hp
    unfold loadLoop
    by_cases hs : str = []
    · rw [if_pos hs] at hp ⊢
      simp only [Except.ok.injEq, Prod.mk.injEq, Option.some.injEq] at hp
      rw [← hp.1]; rfl
    · rw [if_neg hs] at hp ⊢
      simp only at hp ⊢
      cases hl : parseLine (str.takeWhile (· != 10)) sep dec with
      | error f => rw [hl] at hp; cases hp
      | ok r =>
        rw [hl] at hp
        cases r with
        | none => exact ih _ _ _ _ hp t cnt
        | some e =>
          obtain ⟨name, data⟩ := e
          simp only at hp ⊢
          split at hp
          · cases hp
          · split at hp
            · cases hp
            · split at hp
              · cases hp
              · split at hp
                · cases hp
                · rename_i l' n' hrec
                  simp only [Except.ok.injEq, Prod.mk.injEq, Option.some.injEq] at hp
                  rw [← hp.1]
                  unfold loadCommit
                  cases hput : put t name (h name) data with
                  | error f => rfl
                  | ok r =>
                    obtain ⟨b, t'⟩ := r
                    have hb := put_ok_true hput (parseLine_data_ne_nil hl)
                    subst hb
                    simp only [if_true]
                    exact ih _ _ _ _ hrec t' (cnt + 1)
                · cases hp

theorem loadParse_noFail (sep : UInt8) (dec : Bool) :
    ∀ (fuel : Nat) (str : Bytes) (a : Nat) (t : Tbl) (cnt : Nat) (r : Nat × Tbl),
      loadLoop h sep dec fuel str t cnt = .ok r →
      ∃ l n, loadParse noFail sep dec fuel str a = .ok (some l, n) := by
  intro fuel
  induction fuel with
  | zero => intro str a t cnt r hl; simp [loadLoop] at hl
  | succ fuel ih =>
    intro str a t cnt r hl
    unfold loadLoop at hl
    unfold loadParse
    by_cases hs : str = []
    · rw [if_pos hs]; exact ⟨[], a, rfl⟩
    · rw [if_neg hs] at hl ⊢
      simp only at hl ⊢
      cases hp : parseLine (str.takeWhile (· != 10)) sep dec with
      | error f => rw [hp] at hl; cases hl
      | ok o =>
        rw [hp] at hl
        cases o with
        | none => exact ih _ _ _ _ _ hl
        | some e =>
          obtain ⟨name, data⟩ := e
          simp only [newobjFails, noFail_apply, Bool.or_self, Bool.false_eq_true, if_false] at hl ⊢
          cases hput : put t name (h name) data with
          | error f => rw [hput] at hl; cases hl
          | ok pr =>
            rw [hput] at hl
            obtain ⟨l, n, hrec⟩ := ih _ (a + 5) _ _ _ hl
            rw [hrec]
            exact ⟨_, n, rfl⟩

/-- **load is all-or-nothing**: under ANY allocation plan `qlisttbl_load` either reports -1 and
    returns the state it was given, or it is the plain load of the whole file -/
theorem loadF_cases (plan : Plan) (t : Tbl) (file : Bytes) (sep : UInt8) (dec : Bool)
    (r : Option Nat) (t' : Tbl) (n : Nat) (hl : loadF plan h t file sep dec = .ok (r, t', n)) :
    (r = none ∧ t' = t) ∨ (∃ cnt, r = some cnt ∧ load h t file sep dec = .ok (cnt, t')) := by
  unfold loadF at hl
  split at hl
  · simp only [Except.ok.injEq, Prod.mk.injEq] at hl
    exact .inl ⟨hl.1.symm, hl.2.1.symm⟩
  · simp only at hl
    split at hl
    · cases hl
    · simp only [Except.ok.injEq, Prod.mk.injEq] at hl
      exact .inl ⟨hl.1.symm, hl.2.1.symm⟩
    · rename_i l n' hparse
      have hc := loadParse_commit h plan sep dec _ _ _ _ _ hparse t 0
      split at hl
      · cases hl
      · rename_i cnt t'' hcommit
        simp only [Except.ok.injEq, Prod.mk.injEq] at hl
        refine .inr ⟨cnt, hl.1.symm, ?_⟩
        unfold load
        rw [← hc, hcommit, hl.2.1]

theorem loadF_noFail (t : Tbl) (file : Bytes) (sep : UInt8) (dec : Bool) (cnt : Nat) (t' : Tbl)
    (hl : load h t file sep dec = .ok (cnt, t')) : ∃ n, loadF noFail h t file sep dec = .ok (some cnt, t', n) := by
  unfold load at hl
  unfold loadF
  simp only [noFail_apply, Bool.false_eq_true, if_false]
  obtain ⟨l, n, hp⟩ := loadParse_noFail h sep dec _ _ 1 _ _ _ hl
  rw [hp]
  simp only
  rw [loadParse_commit h noFail sep dec _ _ _ _ _ hp t 0, hl]
  exact ⟨n, rfl⟩

/-! ### the constructor and the ledger -/

theorem initF_spec (plan : Plan) (o : Opts) (ts : Bool) :
    ((initF plan o ts).1 = none ∧ (initF plan o ts).2.2 = 0) ∨
    ((initF plan o ts).1 = some (init o) ∧ (initF plan o ts).2.2 = live ts (init o)) := by
  unfold initF
  by_cases h1 : plan 1 = true
  · simp [h1]
  · cases ts with
    | false => simp [h1, live, init]
    | true =>
      by_cases h2 : plan 2 = true
      · simp [h1, h2]
      · simp [h1, h2, live, init]

/-- the blocks the table owns are determined by the number of entries of the ideal multimap -/
theorem live_entries (ts : Bool) (t : Tbl) : live ts t = 1 + (if ts then 1 else 0) + 3 * (entries t).length := by
  simp [live, entries]

theorem live_clear (ts : Bool) (t : Tbl) : live ts (clear t) = 1 + (if ts then 1 else 0) := by
  simp [live, clear]

/-! ### histories with allocation failures -/

/-- one operation of a history under an allocation plan: the result, and whether the call
    reported an allocation failure -/
def stepF (plan : Plan) (t : Tbl) : Op → Tbl × Res × Bool
  | .put k v => match putF plan t k (h k) v with
    | .ok (.ok, t', _) => (t', .bool true, false)
    | .ok (.einval, t', _) => (t', .bool false, false)
    | .ok (.enomem, t', _) => (t', .bool false, true)
    | .error f => (t, .fault f, false)
  | .putstr k v => match putstrF plan t k (h k) v with
    | .ok (.ok, t', _) => (t', .bool true, false)
    | .ok (.einval, t', _) => (t', .bool false, false)
    | .ok (.enomem, t', _) => (t', .bool false, true)
    | .error f => (t, .fault f, false)
  | .putint k n => match putintF plan t k (h k) n with
    | .ok (.ok, t', _) => (t', .bool true, false)
    | .ok (.einval, t', _) => (t', .bool false, false)
    | .ok (.enomem, t', _) => (t', .bool false, true)
    | .error f => (t, .fault f, false)
  | op => let r := step h t op; (r.1, r.2, false)

def runStateF : Tbl → List (Plan × Op) → Tbl
  | t, [] => t
  | t, (plan, op) :: ops => runStateF (stepF h plan t op).1 ops

/-- the operations of a history that did not report an allocation failure -/
def completedOps : Tbl → List (Plan × Op) → List Op
  | _, [] => []
  | t, (plan, op) :: ops =>
    let r := stepF h plan t op
    if r.2.2 then completedOps r.1 ops else op :: completedOps r.1 ops

theorem putF_step (plan : Plan) (t : Tbl) (k v : Bytes) :
    (∃ n, putF plan t k (h k) v = .ok (.enomem, t, n)) ∨
    (match putF plan t k (h k) v with
      | .ok (.ok, t', _) => put t k (h k) v = .ok (true, t')
      | .ok (.einval, t', _) => put t k (h k) v = .ok (false, t')
      | .ok (.enomem, _, _) => False
      | .error f => put t k (h k) v = .error f) := by
  unfold putF
  by_cases hv : v.length = 0
  · rw [if_pos hv]
    refine .inr ?_
    simp only [put, hv, if_true]
  · rw [if_neg hv]
    by_cases hf : newobjFails plan 0 = true
    · rw [if_pos hf]; exact .inl ⟨3, rfl⟩
    · rw [if_neg hf]
      refine .inr ?_
      cases hp : put t k (h k) v with
      | error f => rfl
      | ok r =>
        obtain ⟨b, t'⟩ := r
        have hb := put_ok_true hp (fun h0 => hv (by rw [h0]; rfl))
        subst hb
        rfl

/-- a step that reports an allocation failure returns the state it was given; any other step is
    the plain step -/
theorem stepF_cases (plan : Plan) (t : Tbl) (op : Op) :
    ((stepF h plan t op).2.2 = true ∧ (stepF h plan t op).1 = t ∧ (stepF h plan t op).2.1 = .bool false) ∨
    ((stepF h plan t op).2.2 = false ∧ (stepF h plan t op).1 = (step h t op).1 ∧ (stepF h plan t op).2.1 = (step h t op).2) := by
  have key : ∀ k v,
      ((match putF plan t k (h k) v with
        | .ok (.ok, t', _) => (t', Res.bool true, false)
        | .ok (.einval, t', _) => (t', Res.bool false, false)
        | .ok (.enomem, t', _) => (t', Res.bool false, true)
        | .error f => (t, Res.fault f, false)) = (t, Res.bool false, true)) ∨
      ((match putF plan t k (h k) v with
        | .ok (.ok, t', _) => (t', Res.bool true, false)
        | .ok (.einval, t', _) => (t', Res.bool false, false)
        | .ok (.enomem, t', _) => (t', Res.bool false, true)
        | .error f => (t, Res.fault f, false)) =
        ((putRes t (put t k (h k) v)).1, (putRes t (put t k (h k) v)).2, false)) := by
    intro k v
    rcases putF_step h plan t k v with ⟨n, hn⟩ | hm
    · rw [hn]; exact .inl rfl
    · refine .inr ?_
      cases hp : putF plan t k (h k) v with
      | error f => rw [hp] at hm; simp only at hm; rw [hm]; rfl
      | ok r =>
        obtain ⟨o, t', n⟩ := r
        rw [hp] at hm
        cases o with
        | ok => simp only at hm; rw [hm]; rfl
        | einval => simp only at hm; rw [hm]; rfl
        | enomem => simp only at hm
  cases op with
  | put k v =>
    rcases key k v with h1 | h1
    · exact .inl ⟨by simp only [stepF]; rw [h1], by simp only [stepF]; rw [h1], by simp only [stepF]; rw [h1]⟩
    · exact .inr ⟨by simp only [stepF]; rw [h1], by simp only [stepF, step]; rw [h1], by simp only [stepF, step]; rw [h1]⟩
  | putstr k v =>
    rcases key k (v ++ [0]) with h1 | h1
    · exact .inl ⟨by simp only [stepF, putstrF]; rw [h1], by simp only [stepF, putstrF]; rw [h1], by simp only [stepF, putstrF]; rw [h1]⟩
    · exact .inr ⟨by simp only [stepF, putstrF]; rw [h1], by simp only [stepF, step, putstrF, putstr]; rw [h1],
        by simp only [stepF, step, putstrF, putstr]; rw [h1]⟩
  | putint k n =>
    rcases key k (intToDec n ++ [0]) with h1 | h1
    · exact .inl ⟨by simp only [stepF, putintF, putstrF]; rw [h1], by simp only [stepF, putintF, putstrF]; rw [h1],
        by simp only [stepF, putintF, putstrF]; rw [h1]⟩
    · exact .inr ⟨by simp only [stepF, putintF, putstrF]; rw [h1], by simp only [stepF, step, putintF, putstrF, putint, putstr]; rw [h1],
        by simp only [stepF, step, putintF, putstrF, putint, putstr]; rw [h1]⟩
  | get k => exact .inr ⟨rfl, rfl, rfl⟩
  | getint k => exact .inr ⟨rfl, rfl, rfl⟩
  | getmulti k => exact .inr ⟨rfl, rfl, rfl⟩
  | remove k => exact .inr ⟨rfl, rfl, rfl⟩
  | size => exact .inr ⟨rfl, rfl, rfl⟩
  | clear => exact .inr ⟨rfl, rfl, rfl⟩
  | sort => exact .inr ⟨rfl, rfl, rfl⟩
  | walk k => exact .inr ⟨rfl, rfl, rfl⟩

/-- **failures are invisible afterwards**: the state after a history with arbitrary allocation
    failures is exactly the state after the history of the operations that did not report one -/
theorem runStateF_eq (t : Tbl) (ops : List (Plan × Op)) :
    runStateF h t ops = runState h t (completedOps h t ops) := by
  induction ops generalizing t with
  | nil => rfl
  | cons po ops ih =>
    obtain ⟨plan, op⟩ := po
    simp only [runStateF, completedOps]
    rcases stepF_cases h plan t op with ⟨hf, hs, _⟩ | ⟨hf, hs, _⟩
    · simp only [hf, if_true]
      rw [ih, hs]
    · simp only [hf, Bool.false_eq_true, if_false, runState]
      rw [ih, hs]

theorem completedOps_sublist (t : Tbl) (ops : List (Plan × Op)) : (completedOps h t ops).Sublist (ops.map (·.2)) := by
  induction ops generalizing t with
  | nil => exact List.Sublist.slnil
  | cons po ops ih =>
    obtain ⟨plan, op⟩ := po
    simp only [completedOps, List.map_cons]
    split
    · exact (ih _).cons _
    · exact (ih _).cons₂ _

end Qlibc.ListTbl

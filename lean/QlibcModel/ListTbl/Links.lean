/-
  Pointer-level lemmas of the list table model: what the copied prev/next pointers of a cursor
  denote when node ids are distinct, one `getnext` step, one `removeobj` step.
-/
import QlibcModel.ListTbl.Spec

namespace Qlibc.ListTbl
open Qlibc

/-- id of the last node of `l`, or `p` when `l` is empty: the `prev` pointer after passing `l` -/
def lastIdOr (p : Option Nat) : List Node → Option Nat
  | [] => p
  | x :: l => lastIdOr (some x.id) l

theorem lastIdOr_append_single (p : Option Nat) (l : List Node) (x : Node) :
    lastIdOr p (l ++ [x]) = some x.id := by
  induction l generalizing p with
  | nil => rfl
  | cons y l ih => exact ih _

theorem lastIdOr_reverse (l : List Node) : lastIdOr none l.reverse = headId l := by
  cases l with
  | nil => rfl
  | cons x l => simp [lastIdOr_append_single, headId]

theorem headId_reverse (l : List Node) : headId l.reverse = lastIdOr none l := by
  have := lastIdOr_reverse l.reverse
  rw [List.reverse_reverse] at this
  exact this.symm

theorem linksOf_split (p : Option Nat) (pre post : List Node) (n : Node) (hn : n.id ∉ pre.map (·.id)) :
    linksOf p (pre ++ n :: post) n.id = some (lastIdOr p pre, headId post) := by
  induction pre generalizing p with
  | nil => simp [linksOf, lastIdOr]
  | cons x pre ih =>
    simp only [List.map_cons, List.mem_cons, not_or] at hn
    simp only [List.cons_append, linksOf, lastIdOr]
    rw [if_neg (fun h3 => hn.1 h3.symm)]
    exact ih _ hn.2

theorem suffixFrom_split (V1 V2 : List Node) (n : Node) (hn : n.id ∉ V1.map (·.id)) :
    suffixFrom (V1 ++ n :: V2) n.id = some (n :: V2) := by
  induction V1 with
  | nil => simp [suffixFrom]
  | cons x V1 ih =>
    simp only [List.map_cons, List.mem_cons, not_or] at hn
    simp only [List.cons_append, suffixFrom]
    rw [if_neg (fun h3 => hn.1 h3.symm)]
    exact ih hn.2

theorem nodup_split {pre post : List Node} {n : Node} (nd : ((pre ++ n :: post).map (·.id)).Nodup) :
    n.id ∉ pre.map (·.id) ∧ n.id ∉ post.map (·.id) := by
  rw [List.map_append, List.map_cons] at nd
  have h1 := List.nodup_append.1 nd
  refine ⟨fun hm => h1.2.2 _ hm _ (List.mem_cons_self ..) rfl, ?_⟩
  exact (List.nodup_cons.1 h1.2.1).1

theorem filter_id_split {pre post : List Node} {n : Node} (nd : ((pre ++ n :: post).map (·.id)).Nodup) :
    (pre ++ n :: post).filter (·.id != n.id) = pre ++ post := by
  obtain ⟨h1, h2⟩ := nodup_split nd
  have hf : ∀ (l : List Node), n.id ∉ l.map (·.id) → l.filter (·.id != n.id) = l := by
    intro l hl
    apply List.filter_eq_self.2
    intro x hx
    have : x.id ≠ n.id := fun h3 => hl (h3 ▸ List.mem_map_of_mem hx)
    simp [this]
  rw [List.filter_append, List.filter_cons_of_neg (p := fun x : Node => x.id != n.id) (a := n) (by simp), hf _ h1, hf _ h2]

/-- the cursor contents after copying out node `n` that sits between `pre` and `post` -/
def curOf (pre : List Node) (n : Node) (post : List Node) : Cursor :=
  { size := n.data.length, hash := n.hash, name := n.name, data := n.data,
    prev := lastIdOr none pre, next := headId post }

theorem fillNode_split {t : Tbl} {pre post : List Node} {n : Node} (hs : t.nodes = pre ++ n :: post)
    (nd : (t.nodes.map (·.id)).Nodup) : fillNode t n = .ok (curOf pre n post) := by
  unfold fillNode
  rw [hs] at nd ⊢
  rw [linksOf_split none pre post n (nodup_split nd).1]
  rfl

/-- a node of the direction view, seen in the underlying list: its cursor continues with the
    rest of the view, and unlinking it removes it from the view -/
theorem view_split {t : Tbl} {A B : List Node} {n : Node} (hv : view t = A ++ n :: B) :
    ∃ pre post, t.nodes = pre ++ n :: post ∧ (curOf pre n post).cont t.opts = headId B ∧
      (∀ (m f : Nat), view { t with nodes := pre ++ post, num := m, fresh := f } = A ++ B) := by
  unfold view at hv
  cases hf : t.opts.lookupFwd with
  | true =>
    simp only [hf, if_true] at hv
    refine ⟨A, B, hv, by simp [Cursor.cont, curOf, hf], ?_⟩
    intro m f; simp [view, hf]
  | false =>
    simp only [hf, Bool.false_eq_true, if_false] at hv
    have hn : t.nodes = B.reverse ++ n :: A.reverse := by
      have := List.reverse_eq_iff.1 hv
      rw [this]; simp
    refine ⟨B.reverse, A.reverse, hn, ?_, ?_⟩
    · simp [Cursor.cont, curOf, hf, lastIdOr_reverse]
    · intro m f; simp [view, hf]

/-- `removeobj` through the cursor that was filled from `n` unlinks exactly `n` -/
theorem removeobj_curOf {t : Tbl} {pre post : List Node} {n : Node} (hs : t.nodes = pre ++ n :: post)
    (nd : (t.nodes.map (·.id)).Nodup) :
    removeobj t (curOf pre n post) = .ok (true, { t with nodes := pre ++ post, num := t.num - 1 }) := by
  have nd' := nd
  rw [hs] at nd'
  have hthis : thisOf t (curOf pre n post) = .ok (some n.id) := by
    unfold thisOf
    rcases List.eq_nil_or_concat pre with hp | ⟨pre', p, hp⟩
    · subst hp
      cases post with
      | nil => simp [curOf, lastIdOr, headId, hs]
      | cons q post' =>
        have hq : q.id ≠ n.id := by
          intro h3
          have := (nodup_split nd').2
          exact this (by simp [h3])
        have : linksOf none t.nodes q.id = some (some n.id, headId post') := by
          rw [hs]
          simp only [List.nil_append, linksOf]
          rw [if_neg (fun h3 => hq h3.symm)]
          simp
        simp [curOf, lastIdOr, headId, this]
    · rw [List.concat_eq_append] at hp
      subst hp
      have hp1 : p.id ∉ pre'.map (·.id) := by
        have : ((pre' ++ p :: (n :: post)).map (·.id)).Nodup := by simpa using nd'
        exact (nodup_split this).1
      have : linksOf none t.nodes p.id = some (lastIdOr none pre', some n.id) := by
        rw [hs]
        have := linksOf_split none pre' (n :: post) p hp1
        simpa [headId] using this
      simp [curOf, lastIdOr_append_single, this]
  unfold removeobj
  rw [hthis]
  simp only []
  rw [hs, linksOf_split none pre post n (nodup_split nd').1]
  simp only [curOf, and_self, if_true]
  rw [filter_id_split nd']

end Qlibc.ListTbl

/-
  `qurl_decode (qurl_encode x) = x` on the in-place decoder model, in the form the list table's
  save/load theorem needs (`UrlRoundTrip`).
-/
import QlibcModel.ListTbl.SaveLoad

namespace Qlibc.ListTbl
open Qlibc Qlibc.Encode

/-- per-byte facts about the encoder/decoder pair, checked for all 256 bytes -/
def byteOk (c : UInt8) : Bool :=
  if tbl Generated.urlCharTbl c.toNat != 0 then c != 0 && c != 37 && c != 43
  else hexl (c >>> 4) != 0 && hexl (c &&& 15) != 0 && x2c (hexl (c >>> 4)) (hexl (c &&& 15)) == c

theorem byteOk_nat : ∀ n, n < 256 → byteOk (UInt8.ofNat n) = true := by decide +kernel

theorem byteOk_all (c : UInt8) : byteOk c = true := by
  have := byteOk_nat c.toNat c.toNat_lt
  simpa using this

theorem rd_at (A B : Bytes) (x : UInt8) : rd (A ++ x :: B) A.length = .ok x := by
  simp [rd]

theorem wr_at (A B : Bytes) (y c : UInt8) : wr (A ++ y :: B) A.length c = .ok (A ++ c :: B) := by
  simp [wr]

/-- after overwriting the first byte of `G ++ w ++ T` (`w` non-empty) the rest still ends with `T` -/
theorem tail_split (G w T : Bytes) (hw : w ≠ []) :
    ∃ y G', G ++ w ++ T = y :: (G' ++ T) ∧ G'.length + 1 = G.length + w.length := by
  cases G with
  | nil =>
    cases w with
    | nil => exact absurd rfl hw
    | cons y w' => exact ⟨y, w', by simp, by simp⟩
  | cons g G1 => exact ⟨g, G1 ++ w, by simp, by simp; omega⟩

/-- the decoder loop on `D ++ G ++ urlEncode rest ++ [0]` with the write cursor after `D` and the
    read cursor after `G` -/
theorem urlDecLoop_enc : ∀ (rest D G : Bytes) (fuel : Nat), rest.length < fuel →
    ∃ buf', urlDecLoop fuel (D ++ G ++ urlEncode rest ++ [0]) D.length (D.length + G.length) =
        .ok (buf', D.length + rest.length) ∧ buf'.take (D.length + rest.length) = D ++ rest := by
  intro rest
  induction rest with
  | nil =>
    intro D G fuel hf
    cases fuel with
    | zero => omega
    | succ fuel =>
      have hbuf : D ++ G ++ urlEncode [] ++ [0] = (D ++ G) ++ 0 :: [] := by simp [urlEncode]
      have hrd : rd (D ++ G ++ urlEncode [] ++ [0]) (D.length + G.length) = .ok 0 := by
        rw [hbuf, ← List.length_append]; exact rd_at _ _ _
      obtain ⟨y, Z, hsplit⟩ : ∃ y Z, D ++ G ++ urlEncode [] ++ [0] = D ++ y :: Z := by
        cases G with
        | nil => exact ⟨0, [], by simp [urlEncode]⟩
        | cons g G1 => exact ⟨g, G1 ++ [0], by simp [urlEncode]⟩
      refine ⟨D ++ 0 :: Z, ?_, by simp⟩
      unfold urlDecLoop
      rw [hrd]
      simp only [bind, Except.bind, if_true]
      rw [hsplit, wr_at]
      rfl
  | cons c rest ih =>
    intro D G fuel hf
    cases fuel with
    | zero => omega
    | succ fuel =>
      have hfl : rest.length < fuel := by simp at hf; omega
      have hok := byteOk_all c
      have henc : urlEncode (c :: rest) = urlEncByte c ++ urlEncode rest := by simp [urlEncode, List.flatMap_cons]
      unfold byteOk at hok
      by_cases hsafe : (tbl Generated.urlCharTbl c.toNat != 0) = true
      · -- literal byte
        rw [if_pos hsafe] at hok
        simp only [Bool.and_eq_true, bne_iff_ne, ne_eq] at hok
        obtain ⟨⟨hc0, hc37⟩, hc43⟩ := hok
        have hbyte : urlEncByte c = [c] := by unfold urlEncByte; rw [if_pos hsafe]
        have hbuf : D ++ G ++ urlEncode (c :: rest) ++ [0] = (D ++ G) ++ c :: (urlEncode rest ++ [0]) := by
          rw [henc, hbyte]; simp
        have hrd : rd (D ++ G ++ urlEncode (c :: rest) ++ [0]) (D.length + G.length) = .ok c := by
          rw [hbuf, ← List.length_append]; exact rd_at _ _ _
        obtain ⟨y, G', hsp, hlen⟩ := tail_split G [c] (urlEncode rest ++ [0]) (by simp)
        have hsplit : D ++ G ++ urlEncode (c :: rest) ++ [0] = D ++ y :: (G' ++ (urlEncode rest ++ [0])) := by
          rw [henc, hbyte, ← hsp]; simp
        obtain ⟨buf', hrec, htake⟩ := ih (D ++ [c]) G' fuel hfl
        refine ⟨buf', ?_, ?_⟩
        · unfold urlDecLoop
          rw [hrd]
          simp only [bind, Except.bind, hc0, hc37, hc43, if_false]
          rw [hsplit, wr_at]
          simp only []
          have h1 : D ++ c :: (G' ++ (urlEncode rest ++ [0])) = (D ++ [c]) ++ G' ++ urlEncode rest ++ [0] := by simp
          have h2 : D.length + 1 = (D ++ [c]).length := by simp
          have h3 : D.length + G.length + 1 = (D ++ [c]).length + G'.length := by
            simp only [List.length_append, List.length_cons, List.length_nil] at hlen ⊢; omega
          have h4 : (D ++ [c]).length + rest.length = D.length + (c :: rest).length := by
            simp only [List.length_append, List.length_cons, List.length_nil]; omega
          rw [h1, h2, h3, hrec, h4]
        · have : D.length + (c :: rest).length = (D ++ [c]).length + rest.length := by
            simp only [List.length_append, List.length_cons, List.length_nil]; omega
          rw [this, htake]; simp
      · -- %hh escape
        rw [if_neg hsafe] at hok
        simp only [Bool.and_eq_true, bne_iff_ne, ne_eq, beq_iff_eq] at hok
        obtain ⟨⟨hh1, hh2⟩, hx⟩ := hok
        have hbyte : urlEncByte c = [37, hexl (c >>> 4), hexl (c &&& 15)] := by
          unfold urlEncByte; rw [if_neg hsafe]
        have hbuf0 : D ++ G ++ urlEncode (c :: rest) ++ ([0] : Bytes) =
            (D ++ G) ++ (37 : UInt8) :: (hexl (c >>> 4) :: hexl (c &&& 15) :: (urlEncode rest ++ [0])) := by
          rw [henc, hbyte]; simp
        have hbuf1 : D ++ G ++ urlEncode (c :: rest) ++ ([0] : Bytes) =
            (D ++ G ++ ([37] : Bytes)) ++ hexl (c >>> 4) :: (hexl (c &&& 15) :: (urlEncode rest ++ [0])) := by
          rw [henc, hbyte]; simp
        have hbuf2 : D ++ G ++ urlEncode (c :: rest) ++ ([0] : Bytes) =
            (D ++ G ++ ([37, hexl (c >>> 4)] : Bytes)) ++ hexl (c &&& 15) :: (urlEncode rest ++ [0]) := by
          rw [henc, hbyte]; simp
        have hrd0 : rd (D ++ G ++ urlEncode (c :: rest) ++ [0]) (D.length + G.length) = .ok 37 := by
          rw [hbuf0, ← List.length_append]; exact rd_at _ _ _
        have hrd1 : rd (D ++ G ++ urlEncode (c :: rest) ++ [0]) (D.length + G.length + 1) = .ok (hexl (c >>> 4)) := by
          have : D.length + G.length + 1 = (D ++ G ++ ([37] : Bytes)).length := by simp only [List.length_append, List.length_cons, List.length_nil]
          rw [this, hbuf1]; exact rd_at _ _ _
        have hrd2 : rd (D ++ G ++ urlEncode (c :: rest) ++ [0]) (D.length + G.length + 2) = .ok (hexl (c &&& 15)) := by
          have : D.length + G.length + 2 = (D ++ G ++ ([37, hexl (c >>> 4)] : Bytes)).length := by simp only [List.length_append, List.length_cons, List.length_nil]
          rw [this, hbuf2]; exact rd_at _ _ _
        obtain ⟨y, G', hsp, hlen⟩ := tail_split G ([37, hexl (c >>> 4), hexl (c &&& 15)] : Bytes) (urlEncode rest ++ [0]) (by simp)
        have hsplit : D ++ G ++ urlEncode (c :: rest) ++ [0] = D ++ y :: (G' ++ (urlEncode rest ++ [0])) := by
          rw [henc, hbyte, ← hsp]; simp
        obtain ⟨buf', hrec, htake⟩ := ih (D ++ [c]) G' fuel hfl
        refine ⟨buf', ?_, ?_⟩
        · unfold urlDecLoop
          rw [hrd0]
          have h37 : ¬ ((37 : UInt8) = 0) := by decide
          simp only [bind, Except.bind, h37, if_false, if_true]
          rw [hrd1]
          simp only [hh1, if_false]
          rw [hrd2]
          simp only [hh2, if_false, hx]
          rw [hsplit, wr_at]
          simp only []
          have h1 : D ++ c :: (G' ++ (urlEncode rest ++ [0])) = (D ++ [c]) ++ G' ++ urlEncode rest ++ [0] := by simp
          have h2 : D.length + 1 = (D ++ [c]).length := by simp
          have h3 : D.length + G.length + 3 = (D ++ [c]).length + G'.length := by
            simp only [List.length_append, List.length_cons, List.length_nil] at hlen ⊢; omega
          have h4 : (D ++ [c]).length + rest.length = D.length + (c :: rest).length := by
            simp only [List.length_append, List.length_cons, List.length_nil]; omega
          rw [h1, h2, h3, hrec, h4]
        · have : D.length + (c :: rest).length = (D ++ [c]).length + rest.length := by
            simp only [List.length_append, List.length_cons, List.length_nil]; omega
          rw [this, htake]; simp

/-- the URL codec round trip -/
theorem urlRoundTrip : UrlRoundTrip := by
  intro x
  obtain ⟨buf', h1, h2⟩ := urlDecLoop_enc x [] [] ((urlEncode x ++ [0]).length + 1) (by
    have : x.length ≤ (urlEncode x).length := by
      induction x with
      | nil => simp
      | cons c x ih =>
        have hne := urlEncByte_ne_nil c
        have : 1 ≤ (urlEncByte c).length := by
          cases hb : urlEncByte c with
          | nil => exact absurd hb hne
          | cons _ _ => simp
        simp only [urlEncode, List.flatMap_cons, List.length_append, List.length_cons] at ih ⊢
        omega
    simp only [List.length_append, List.length_singleton]; omega)
  refine ⟨(buf', x.length), ?_, ?_⟩
  · unfold urlDecodeRaw
    simpa using h1
  · simpa using h2

end Qlibc.ListTbl

/-
  The bubble sort of `qlisttbl_sort` (payload swaps, shrinking bound `n = n2`): the result is
  sorted by name, a permutation of the input, and stable.
-/
import QlibcModel.ListTbl.Ops

namespace Qlibc.ListTbl
open Qlibc

/-! ### the order `strcmp`/`strcasecmp` induce -/

theorem strcmpC_asymm (f : UInt8 → UInt8) (a b : Bytes) : strcmpC f a b = .gt → strcmpC f b a = .lt := by
  induction a generalizing b with
  | nil => cases b <;> simp [strcmpC]
  | cons x a ih =>
    cases b with
    | nil => simp [strcmpC]
    | cons y b =>
      simp only [strcmpC]
      by_cases hxy : f x = f y
      · rw [if_pos hxy, if_pos hxy.symm]; exact ih b
      · have hyx : ¬ f y = f x := fun h3 => hxy h3.symm
        rw [if_neg hxy, if_neg hyx]
        by_cases hlt : f x < f y
        · rw [if_pos hlt]; intro h3; cases h3
        · have : f y < f x := by
            rw [UInt8.lt_iff_toNat_lt] at *
            have : (f x).toNat ≠ (f y).toNat := fun h3 => hxy (UInt8.toNat_inj.1 h3)
            omega
          rw [if_pos this]; intro _; rfl

theorem strcmpC_trans (f : UInt8 → UInt8) (a b c : Bytes) :
    strcmpC f a b ≠ .gt → strcmpC f b c ≠ .gt → strcmpC f a c ≠ .gt := by
  induction a generalizing b c with
  | nil => cases c <;> simp [strcmpC]
  | cons x a ih =>
    cases b with
    | nil => simp [strcmpC]
    | cons y b =>
      cases c with
      | nil => cases hb : strcmpC f (y :: b) [] <;> simp_all [strcmpC]
      | cons z c =>
        simp only [strcmpC]
        intro h1 h2
        by_cases hxy : f x = f y
        · rw [if_pos hxy] at h1
          by_cases hyz : f y = f z
          · rw [if_pos hyz] at h2
            rw [if_pos (hxy.trans hyz)]
            exact ih b c h1 h2
          · rw [if_neg hyz] at h2
            rw [if_neg (fun h3 => hyz (hxy ▸ h3)), hxy]
            exact h2
        · rw [if_neg hxy] at h1
          have hlt : f x < f y := by
            by_cases hl : f x < f y
            · exact hl
            · simp [hl] at h1
          by_cases hyz : f y = f z
          · rw [← hyz, if_neg hxy]; simp [hlt]
          · rw [if_neg hyz] at h2
            have hlt2 : f y < f z := by
              by_cases hl : f y < f z
              · exact hl
              · simp [hl] at h2
            have hlt3 : f x < f z := by
              rw [UInt8.lt_iff_toNat_lt] at *; omega
            have hne : ¬ f x = f z := by
              intro h3; rw [h3, UInt8.lt_iff_toNat_lt] at hlt3; omega
            rw [if_neg hne]; simp [hlt3]

/-! ### one pass -/

section
variable (gt : Node → Node → Bool)

/-- "not greater": the order the result is sorted by -/
def leB (a b : Node) : Prop := gt a b = false

/-- the properties of `gt` the proof uses -/
structure GtOk : Prop where
  asymm : ∀ a b, gt a b = true → gt b a = false
  trans : ∀ a b c, gt a b = false → gt b c = false → gt a c = false

theorem bubblePass_perm : ∀ (k i : Nat) (l : List Node) (n2 : Nat), (bubblePass gt k i l n2).1.Perm l := by
  intro k
  induction k with
  | zero => intro i l n2; unfold bubblePass; exact List.Perm.refl _
  | succ k ih =>
    intro i l n2
    match l with
    | [] => unfold bubblePass; exact List.Perm.refl _
    | [a] => unfold bubblePass; exact List.Perm.refl _
    | a :: b :: rest =>
      unfold bubblePass
      by_cases hg : gt a b = true
      · simp only [hg, if_true]
        exact ((ih (i + 1) (a :: rest) (i + 1)).cons b).trans (List.Perm.swap a b rest)
      · simp only [hg, Bool.false_eq_true, if_false]
        exact (ih (i + 1) (b :: rest) n2).cons a

/-- a pass never reorders two nodes of the same class `p` (it only swaps strictly greater pairs) -/
theorem bubblePass_filter (p : Node → Bool) (hp : ∀ a b, p a = true → p b = true → gt a b = false) :
    ∀ (k i : Nat) (l : List Node) (n2 : Nat), (bubblePass gt k i l n2).1.filter p = l.filter p := by
  intro k
  induction k with
  | zero => intro i l n2; unfold bubblePass; rfl
  | succ k ih =>
    intro i l n2
    match l with
    | [] => unfold bubblePass; rfl
    | [a] => unfold bubblePass; rfl
    | a :: b :: rest =>
      unfold bubblePass
      by_cases hg : gt a b = true
      · simp only [hg, if_true]
        have := ih (i + 1) (a :: rest) (i + 1)
        simp only [List.filter_cons] at this ⊢
        rw [this]
        cases hpa : p a <;> cases hpb : p b <;> simp
        exact absurd (hp a b hpa hpb) (by simp [hg])
      · simp only [hg, Bool.false_eq_true, if_false]
        have := ih (i + 1) (b :: rest) n2
        simp only [List.filter_cons] at this ⊢
        rw [this]

/-- the invariant of a pass: `A ++ D` was emitted, `a` is carried; `A` = everything up to the
    last swap. Conclusion: the list after the pass splits at the returned `n2`. -/
theorem bubblePass_inv (G : GtOk gt) : ∀ (k : Nat) (A D : List Node) (a : Node) (restP S : List Node),
    restP.length = k →
    List.Pairwise (leB gt) (D ++ [a]) → (∀ x ∈ A, ∀ y ∈ D ++ [a], leB gt x y) →
    (∀ x, (x ∈ A ∨ x ∈ D ∨ x = a ∨ x ∈ restP) → ∀ y ∈ S, leB gt x y) → List.Pairwise (leB gt) S →
    ∃ A' B', A ++ D ++ (bubblePass gt k (A.length + D.length) (a :: restP ++ S) A.length).1 = A' ++ B' ∧
      A'.length = (bubblePass gt k (A.length + D.length) (a :: restP ++ S) A.length).2 ∧
      A'.length ≤ A.length + D.length + k ∧
      List.Pairwise (leB gt) B' ∧ (∀ x ∈ A', ∀ y ∈ B', leB gt x y) := by
  intro k
  induction k with
  | zero =>
    intro A D a restP S hk hD hAD hS hSS
    have : restP = [] := List.eq_nil_of_length_eq_zero hk
    subst this
    have hz : bubblePass gt 0 (A.length + D.length) (a :: [] ++ S) A.length = (a :: S, A.length) := by
      unfold bubblePass; rfl
    rw [hz]
    refine ⟨A, D ++ [a] ++ S, by simp, rfl, by omega, ?_, ?_⟩
    · refine List.pairwise_append.2 ⟨hD, hSS, ?_⟩
      intro x hx y hy
      refine hS x ?_ y hy
      rcases List.mem_append.1 hx with h1 | h1
      · exact Or.inr (Or.inl h1)
      · simp only [List.mem_singleton] at h1; exact Or.inr (Or.inr (Or.inl h1))
    · intro x hx y hy
      rcases List.mem_append.1 hy with h1 | h1
      · exact hAD x hx y h1
      · exact hS x (Or.inl hx) y h1
  | succ k ih =>
    intro A D a restP S hk hD hAD hS hSS
    match restP, hk with
    | b :: restP', hk =>
      have hk' : restP'.length = k := by simpa using hk
      have hunf : bubblePass gt (k + 1) (A.length + D.length) (a :: (b :: restP') ++ S) A.length =
          if gt a b then
            ((b :: (bubblePass gt k (A.length + D.length + 1) (a :: restP' ++ S) (A.length + D.length + 1)).1),
              (bubblePass gt k (A.length + D.length + 1) (a :: restP' ++ S) (A.length + D.length + 1)).2)
          else
            ((a :: (bubblePass gt k (A.length + D.length + 1) (b :: restP' ++ S) A.length).1),
              (bubblePass gt k (A.length + D.length + 1) (b :: restP' ++ S) A.length).2) := by
        simp only [List.cons_append]
        rw [bubblePass]
      rw [hunf]
      have ha_ge : ∀ x ∈ A ++ D, leB gt x a := by
        intro x hx
        rcases List.mem_append.1 hx with h1 | h1
        · exact hAD x h1 a (by simp)
        · have := List.pairwise_append.1 hD
          exact this.2.2 x h1 a (by simp)
      by_cases hg : gt a b = true
      · simp only [hg, if_true]
        -- swap: emitted b, carry a; everything emitted so far is the new A
        have hba : leB gt b a := G.asymm a b hg
        obtain ⟨A', B', h1, h2, h3, h4, h5⟩ := ih (A ++ D ++ [b]) [] a restP' S hk'
          (by simp)
          (by
            intro x hx y hy
            simp only [List.nil_append, List.mem_singleton] at hy
            subst hy
            rcases List.mem_append.1 hx with h1 | h1
            · exact ha_ge x h1
            · simp only [List.mem_singleton] at h1; subst h1; exact hba)
          (by
            intro x hx y hy
            refine hS x ?_ y hy
            rcases hx with h1 | h1 | h1 | h1
            · have : x ∈ A ∨ x ∈ D ∨ x = b := by simpa [or_assoc] using h1
              rcases this with h2 | h2 | h2
              · exact Or.inl h2
              · exact Or.inr (Or.inl h2)
              · exact Or.inr (Or.inr (Or.inr (by simp [h2])))
            · cases h1
            · exact Or.inr (Or.inr (Or.inl h1))
            · exact Or.inr (Or.inr (Or.inr (List.mem_cons_of_mem _ h1))))
          hSS
        have hl : (A ++ D ++ [b]).length + ([] : List Node).length = A.length + D.length + 1 := by simp; omega
        have hl2 : (A ++ D ++ [b]).length = A.length + D.length + 1 := by simp; omega
        rw [hl, hl2] at h1 h2
        refine ⟨A', B', ?_, h2, ?_, h4, h5⟩
        · rw [← h1]; simp
        · rw [hl2] at h3; simp only [List.length_nil] at h3; omega
      · have hg' : gt a b = false := by simpa using hg
        simp only [hg', Bool.false_eq_true, if_false]
        -- no swap: emitted a, carry b
        obtain ⟨A', B', h1, h2, h3, h4, h5⟩ := ih A (D ++ [a]) b restP' S hk'
          (by
            refine List.pairwise_append.2 ⟨hD, by simp, ?_⟩
            intro x hx y hy
            simp only [List.mem_singleton] at hy
            subst hy
            rcases List.mem_append.1 hx with h1 | h1
            · have := (List.pairwise_append.1 hD).2.2 x h1 a (by simp)
              exact G.trans x a y this hg'
            · simp only [List.mem_singleton] at h1; subst h1; exact hg')
          (by
            intro x hx y hy
            rcases List.mem_append.1 hy with h1 | h1
            · exact hAD x hx y h1
            · simp only [List.mem_singleton] at h1; subst h1
              exact G.trans x a y (hAD x hx a (by simp)) hg')
          (by
            intro x hx y hy
            refine hS x ?_ y hy
            rcases hx with h1 | h1 | h1 | h1
            · exact Or.inl h1
            · rcases List.mem_append.1 h1 with h2 | h2
              · exact Or.inr (Or.inl h2)
              · simp only [List.mem_singleton] at h2; exact Or.inr (Or.inr (Or.inl h2))
            · exact Or.inr (Or.inr (Or.inr (by simp [h1])))
            · exact Or.inr (Or.inr (Or.inr (List.mem_cons_of_mem _ h1))))
          hSS
        have hl : A.length + (D ++ [a]).length = A.length + D.length + 1 := by simp; omega
        rw [hl] at h1 h2
        refine ⟨A', B', ?_, h2, ?_, h4, h5⟩
        · rw [← h1]; simp
        · simp only [List.length_append, List.length_cons, List.length_nil] at h3; omega

/-- the outer loop: with `L = A ++ B`, `|A| = n`, `B` sorted and above `A`, the loop ends with a
    sorted list -/
theorem bubbleLoop_sorted (G : GtOk gt) : ∀ (fuel n : Nat) (A B : List Node),
    A.length = n → n < fuel → List.Pairwise (leB gt) B → (∀ x ∈ A, ∀ y ∈ B, leB gt x y) →
    ∃ l, bubbleLoop gt fuel n (A ++ B) = .ok l ∧ List.Pairwise (leB gt) l := by
  intro fuel
  induction fuel with
  | zero => intro n A B _ hf; omega
  | succ fuel ih =>
    intro n A B hn hf hB hAB
    unfold bubbleLoop
    by_cases h0 : n = 0
    · have : A = [] := List.eq_nil_of_length_eq_zero (hn.trans h0)
      subst this
      rw [if_pos h0]
      exact ⟨B, rfl, hB⟩
    · rw [if_neg h0]
      match A, hn with
      | [], hn => exact absurd hn.symm h0
      | a :: restP, hn =>
        have hk : restP.length = n - 1 := by simp at hn; omega
        obtain ⟨A', B', h1, h2, h3, h4, h5⟩ := bubblePass_inv gt G (n - 1) [] [] a restP B hk
          (by simp) (by intro x hx; cases hx)
          (by
            intro x hx y hy
            rcases hx with h1 | h1 | h1 | h1
            · cases h1
            · cases h1
            · exact hAB x (by simp [h1]) y hy
            · exact hAB x (List.mem_cons_of_mem _ h1) y hy) hB
        simp only [List.nil_append, List.length_nil, Nat.add_zero] at h1 h2 h3
        have hcons : (a :: restP) ++ B = a :: restP ++ B := rfl
        simp only []
        rw [hcons, h1, ← h2]
        exact ih A'.length A' B' rfl (by omega) h4 h5

theorem bubbleLoop_perm : ∀ (fuel n : Nat) (l r : List Node), bubbleLoop gt fuel n l = .ok r → r.Perm l := by
  intro fuel
  induction fuel with
  | zero => intro n l r hr; simp [bubbleLoop] at hr
  | succ fuel ih =>
    intro n l r hr
    unfold bubbleLoop at hr
    split at hr
    · cases hr; exact List.Perm.refl _
    · exact (ih _ _ _ hr).trans (bubblePass_perm gt _ _ _ _)

theorem bubbleLoop_filter (p : Node → Bool) (hp : ∀ a b, p a = true → p b = true → gt a b = false) :
    ∀ (fuel n : Nat) (l r : List Node), bubbleLoop gt fuel n l = .ok r → r.filter p = l.filter p := by
  intro fuel
  induction fuel with
  | zero => intro n l r hr; simp [bubbleLoop] at hr
  | succ fuel ih =>
    intro n l r hr
    unfold bubbleLoop at hr
    split at hr
    · cases hr; rfl
    · rw [ih _ _ _ hr, bubblePass_filter gt p hp]

end

/-! ### the table operation -/

theorem reId_ids : ∀ (ns l : List Node), ns.length = l.length → (reId ns l).map (·.id) = ns.map (·.id) := by
  intro ns
  induction ns with
  | nil => intro l _; cases l <;> rfl
  | cons n ns ih =>
    intro l hl
    cases l with
    | nil => simp at hl
    | cons p l => simp only [reId, List.map_cons]; rw [ih l (by simpa using hl)]

theorem reId_kv : ∀ (ns l : List Node), ns.length = l.length → (reId ns l).map Node.kv = l.map Node.kv := by
  intro ns
  induction ns with
  | nil => intro l hl; cases l with
    | nil => rfl
    | cons p l => simp at hl
  | cons n ns ih =>
    intro l hl
    cases l with
    | nil => simp at hl
    | cons p l => simp only [reId, List.map_cons]; rw [ih l (by simpa using hl)]; rfl

theorem mem_reId : ∀ (ns l : List Node) (x : Node), x ∈ reId ns l →
    ∃ p ∈ l, x.hash = p.hash ∧ x.name = p.name ∧ x.data = p.data := by
  intro ns
  induction ns with
  | nil => intro l x hx; cases l <;> cases hx
  | cons n ns ih =>
    intro l x hx
    cases l with
    | nil => cases hx
    | cons p l =>
      simp only [reId, List.mem_cons] at hx
      rcases hx with rfl | hx
      · exact ⟨p, List.mem_cons_self .., rfl, rfl, rfl⟩
      · obtain ⟨q, hq, h1⟩ := ih l x hx
        exact ⟨q, List.mem_cons_of_mem _ hq, h1⟩

/-- the comparison `qlisttbl_sort` swaps on -/
def sortGt (o : Opts) (a b : Node) : Bool := namecmp o a.name b.name == .gt

theorem sortGt_ok (o : Opts) : GtOk (sortGt o) where
  asymm := by
    intro a b hab
    simp only [sortGt, namecmp, ord_beq_gt, decide_eq_true_eq] at hab
    have := strcmpC_asymm (fold o) _ _ hab
    simp [sortGt, namecmp, ord_beq_gt, this]
  trans := by
    intro a b c h1 h2
    simp only [sortGt, namecmp, ord_beq_gt, decide_eq_false_iff_not] at h1 h2 ⊢
    exact strcmpC_trans (fold o) _ _ _ h1 h2

variable (h : Bytes → UInt32)

/-- sort: sorted by name (under the table's comparison), a permutation, stable; node identities
    stay in place (payloads are swapped) -/
theorem sort_eq {t : Tbl} (I : Inv h t) :
    ∃ t', sort t = .ok t' ∧ Inv h t' ∧ t'.opts = t.opts ∧
      List.Pairwise (fun a b : KV => namecmp t.opts a.1 b.1 ≠ .gt) (entries t') ∧
      (entries t').Perm (entries t) ∧
      (∀ k, (entries t').filter (keyIs t.opts k) = (entries t).filter (keyIs t.opts k)) ∧
      t'.nodes.map (·.id) = t.nodes.map (·.id) := by
  obtain ⟨l, hl, hsorted⟩ := bubbleLoop_sorted (sortGt t.opts) (sortGt_ok t.opts) (t.num + 1) t.num t.nodes []
    I.num.symm (Nat.lt_succ_self _) List.Pairwise.nil (fun _ _ _ hy => by cases hy)
  rw [List.append_nil] at hl
  have hperm := bubbleLoop_perm _ _ _ _ _ hl
  have hlen : t.nodes.length = l.length := hperm.length_eq.symm
  have hsort : sort t = .ok { t with nodes := reId t.nodes l } := by
    unfold sort
    rw [if_neg (by rw [I.num]; omega)]
    have : (fun a b : Node => namecmp t.opts a.name b.name == Ordering.gt) = sortGt t.opts := rfl
    rw [this, hl]
    rfl
  refine ⟨_, hsort, ?_, rfl, ?_, ?_, ?_, reId_ids _ _ hlen⟩
  · refine ⟨?_, ?_, ?_, ?_, ?_⟩
    · have : (reId t.nodes l).length = t.nodes.length := by
        have := congrArg List.length (reId_ids t.nodes l hlen)
        simpa using this
      simp only [this]; exact I.num
    · intro x hx
      obtain ⟨p, hp, h1, h2, _⟩ := mem_reId _ _ x hx
      rw [h1, h2]; exact I.hash p (hperm.mem_iff.1 hp)
    · intro x hx
      obtain ⟨p, hp, _, _, h3⟩ := mem_reId _ _ x hx
      rw [h3]; exact I.data p (hperm.mem_iff.1 hp)
    · simp only []; rw [reId_ids _ _ hlen]; exact I.ids
    · intro x hx
      have : x.id ∈ (reId t.nodes l).map (·.id) := List.mem_map_of_mem hx
      rw [reId_ids _ _ hlen] at this
      obtain ⟨n, hn, he⟩ := List.mem_map.1 this
      rw [← he]; exact I.below n hn
  · simp only [entries]
    rw [reId_kv _ _ hlen, List.pairwise_map]
    refine hsorted.imp ?_
    intro a b hab
    simp only [leB, sortGt, ord_beq_gt, decide_eq_false_iff_not] at hab
    exact hab
  · simp only [entries]
    rw [reId_kv _ _ hlen]
    exact hperm.map _
  · intro k
    simp only [entries]
    rw [reId_kv _ _ hlen, ← filter_kv, ← filter_kv]
    congr 1
    apply bubbleLoop_filter (sortGt t.opts) (fun n => keyIs t.opts k n.kv) ?_ _ _ _ _ hl
    intro a b ha hb
    simp only [keyIs, Node.kv, eqk, beq_iff_eq] at ha hb
    have : strcmpC (fold t.opts) a.name b.name = .eq := (strcmpC_eq _ _ _).2 (ha.trans hb.symm)
    simp [sortGt, namecmp, this]

end Qlibc.ListTbl

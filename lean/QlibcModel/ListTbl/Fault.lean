/-
  Allocation-failure forms of the list-table operations (C15) and the allocation ledger (C11).

  Each `…F` form mirrors the ORDER of calloc / strdup / malloc / realloc calls of the C function
  in src/containers/qlisttbl.c (and of the helpers it calls: `qfile_load`, `_q_makeword`,
  `qurl_encode`, `qtime_gmt_str`, `DYNAMIC_VSPRINTF` inside `qio_printf`), consults the plan at
  each attempt and returns, besides the result, the number of allocation attempts made inside
  the call — the harness reports the same number from its allocator wrapper.
-/
import QlibcModel.ListTbl.Model
import QlibcModel.HashTbl.Plan

namespace Qlibc.ListTbl
open Qlibc Qlibc.Dec Qlibc.MapFault

/-- blocks a table owns: the handle, the mutex object (thread-safe option), and per node the
    node, its name and its data -/
def live (ts : Bool) (t : Tbl) : Nat := 1 + (if ts then 1 else 0) + 3 * t.nodes.length

/-- `qlisttbl(options)`: `calloc` handle, `calloc` mutex object when `QLISTTBL_THREADSAFE`.
    Returns the table (`none` = NULL/ENOMEM), the number of attempts and the number of blocks still
    allocated when the constructor returns. -/
def initF (plan : Plan) (o : Opts) (ts : Bool) : Option Tbl × Nat × Nat :=
  if plan 1 then (none, 1, 0)
  else if ts then
    if plan 2 then (none, 2, 1 - 1)                         -- free(tbl)
    else (some (init o), 2, 2)
  else (some (init o), 1, 1)

inductive PutOut where
  | ok
  | einval
  | enomem
  deriving Repr, DecidableEq

/-- `newobj()`: `strdup(name)`, `malloc(size)`, `malloc(sizeof node)` are all attempted, then
    tested; on failure whatever was obtained is freed -/
def newobjFails (plan : Plan) (a : Nat) : Bool := plan (a + 1) || plan (a + 2) || plan (a + 3)

/-- `qlisttbl_put`: the new object is built BEFORE the table is touched (the unique-removal comes
    after it), so a failure leaves the table as it was -/
def putF (plan : Plan) (t : Tbl) (name : Bytes) (hash : UInt32) (data : Bytes) : Except Fault (PutOut × Tbl × Nat) :=
  if data.length = 0 then .ok (.einval, t, 0)
  else if newobjFails plan 0 then .ok (.enomem, t, 3)
  else
    match put t name hash data with
    | .ok (_, t') => .ok (.ok, t', 3)
    | .error f => .error f

def putstrF (plan : Plan) (t : Tbl) (name : Bytes) (hash : UInt32) (str : Bytes) : Except Fault (PutOut × Tbl × Nat) :=
  putF plan t name hash (str ++ [0])

def putintF (plan : Plan) (t : Tbl) (name : Bytes) (hash : UInt32) (n : Int) : Except Fault (PutOut × Tbl × Nat) :=
  putstrF plan t name hash (intToDec n)

/-- `qlisttbl_putstrf(tbl, name, "%s", str)`: the buffers of `DYNAMIC_VSPRINTF` (a failure there
    is reported as ENOMEM before the table is looked at), then `putstr`, then `free` of the string -/
def putstrfF (plan : Plan) (t : Tbl) (name : Bytes) (hash : UInt32) (str : Bytes) : Except Fault (PutOut × Tbl × Nat) :=
  match printfF plan (vsAttempts str.length) 0 with
  | (false, a) => .ok (.enomem, t, a)
  | (true, a) =>
    match putstrF (plan.shift a) t name hash str with
    | .ok (o, t', n) => .ok (o, t', a + n)
    | .error f => .error f

inductive GetOut where
  | data (d : Bytes)
  | enoent
  | enomem
  deriving Repr, DecidableEq

/-- `qlisttbl_get(tbl, name, &size, newmem)`: one `malloc` when a match exists and a copy is
    requested -/
def getF (plan : Plan) (t : Tbl) (name : Bytes) (hash : UInt32) (newmem : Bool) : GetOut × Nat :=
  match get t name hash with
  | none => (.enoent, 0)
  | some d => if newmem then (if plan 1 then (.enomem, 1) else (.data d, 1)) else (.data d, 0)

/-- `qlisttbl_getint`: `getstr(newmem = true)`, `atoll`, `free`; `none` = ENOMEM (0 is returned) -/
def getintF (plan : Plan) (t : Tbl) (name : Bytes) (hash : UInt32) : Except Fault (Option Int) × Nat :=
  match getF plan t name hash true with
  | (.data d, n) => ((atoll d).map some, n)
  | (.enoent, n) => (.ok (some 0), n)
  | (.enomem, n) => (.ok none, n)

inductive NextOut where
  | item (c : Cursor)
  | done                      -- false / ENOENT
  | enomem (c : Cursor)       -- false / ENOMEM; the caller's object with name/data set to NULL
  deriving Repr, DecidableEq

/-- `qlisttbl_getnext(tbl, obj, name, newmem)`: `strdup(name)` and `malloc(size)` are both
    attempted when a node is about to be delivered with `newmem`. On failure the position fields
    of the caller's object (`size`, `prev`, `next`) are untouched, so the call can be repeated. -/
def getnextF (plan : Plan) (a : Nat) (t : Tbl) (cur : Cursor) (key : Option (Bytes × UInt32)) (newmem : Bool) :
    Except Fault (NextOut × Nat) :=
  match getnext t cur key with
  | .error f => .error f
  | .ok none => .ok (.done, a)
  | .ok (some c) =>
    if newmem then
      if plan (a + 1) || plan (a + 2) then .ok (.enomem { cur with name := [], data := [] }, a + 2)
      else .ok (.item c, a + 2)
    else .ok (.item c, a)

/-- `if ((numfound + 1) >= allocobjs)`: the object array must grow before the next match is stored -/
def grows (numfound allocobjs : Nat) : Bool := decide (numfound + 1 ≥ allocobjs)

/-- `allocobjs` goes 0 → 10 → 20 → 40 … -/
def newCap (numfound allocobjs : Nat) : Nat :=
  if grows numfound allocobjs then (if allocobjs = 0 then 10 else allocobjs * 2) else allocobjs

/-- attempts after the (possible) `realloc` -/
def afterGrow (numfound allocobjs a : Nat) : Nat := if grows numfound allocobjs then a + 1 else a

/-- the `while (getnext(...))` loop of `qlisttbl_getmulti` with the growth of the object array:
    the array is `realloc`ed when `numfound + 1 >= allocobjs`.
    `none` = an allocation failed: everything collected so far is released, NULL / ENOMEM. -/
def multiLoop (plan : Plan) (newmem : Bool) (key : Option (Bytes × UInt32)) :
    (fuel : Nat) → Tbl → Cursor → (numfound allocobjs a : Nat) → Except Fault (Option (List Bytes) × Nat)
  | 0, _, _, _, _, _ => .error .outOfFuel
  | fuel + 1, t, cur, numfound, allocobjs, a =>
    match getnextF plan a t cur key newmem with
    | .error f => .error f
    | .ok (.done, a1) => .ok (some [], a1)
    | .ok (.enomem _, a1) => .ok (none, a1)
    | .ok (.item c, a1) =>
      if grows numfound allocobjs && plan (a1 + 1) then .ok (none, a1 + 1)
      else
        match multiLoop plan newmem key fuel t c (numfound + 1) (newCap numfound allocobjs) (afterGrow numfound allocobjs a1) with
        | .error f => .error f
        | .ok (some rest, n) => .ok (some (c.data :: rest), n)
        | .ok (none, n) => .ok (none, n)

/-- `qlisttbl_getmulti(tbl, name, newmem, &numobjs)`: `some []` = NULL/ENOENT, `none` = NULL/ENOMEM -/
def getmultiF (plan : Plan) (t : Tbl) (name : Bytes) (hash : UInt32) (newmem : Bool) :
    Except Fault (Option (List Bytes) × Nat) :=
  multiLoop plan newmem (some (name, hash)) (t.nodes.length + 1) t Cursor.zero 0 0 0

/-! ### save -/

/-- attempts after the (possible) `qurl_encode` -/
def encCnt (enc : Bool) (a : Nat) : Nat := if enc then a + 1 else a

/-- the entry loop of `qlisttbl_save`: `qurl_encode` (one `malloc`) when encoding, then
    `qio_printf` of the line -/
def saveLinesF (plan : Plan) (sep : UInt8) (enc : Bool) : List Node → Nat → Except Fault (Option Bytes × Nat)
  | [], a => .ok (some [], a)
  | n :: rest, a =>
    if enc && plan (a + 1) then .ok (none, a + 1)
    else
      match saveLine sep enc n with
      | .error f => .error f
      | .ok l =>
        match printfF plan (vsAttempts l.length) (encCnt enc a) with
        | (false, a2) => .ok (none, a2)
        | (true, a2) =>
          match saveLinesF plan sep enc rest a2 with
          | .error f => .error f
          | .ok (some r, a3) => .ok (some (l ++ r), a3)
          | .ok (none, a3) => .ok (none, a3)

/-- `qlisttbl_save`: `qtime_gmt_str` (one `malloc`), `qio_printf` of the comment line (`hdrLen`
    bytes), then the entries. `none` = false / ENOMEM (the file is incomplete). -/
def saveF (plan : Plan) (t : Tbl) (sep : UInt8) (enc : Bool) (hdrLen : Nat) : Except Fault (Option Bytes × Nat) :=
  if plan 1 then .ok (none, 1)
  else
    match printfF plan (vsAttempts hdrLen) 1 with
    | (false, a) => .ok (none, a)
    | (true, a) => saveLinesF plan sep enc t.nodes a

/-! ### load: all entries or none -/

/-- first phase of `qlisttbl_load`: split the lines and build the new objects WITHOUT touching
    the table. Per entry line: `strdup(buf)`, the `malloc` of `_q_makeword`, then `newobj()`
    (three attempts, all made). `none` = an allocation failed: the objects built so far are freed. -/
def loadParse (plan : Plan) (sep : UInt8) (dec : Bool) :
    (fuel : Nat) → Bytes → (a : Nat) → Except Fault (Option (List (Bytes × Bytes)) × Nat)
  | 0, _, _ => .error .outOfFuel
  | fuel + 1, str, a =>
    if str = [] then .ok (some [], a)
    else
      let line := str.takeWhile (· != 10)
      let rest := (str.drop line.length).drop 1
      match parseLine line sep dec with
      | .error f => .error f
      | .ok none => loadParse plan sep dec fuel rest a
      | .ok (some e) =>
        if plan (a + 1) then .ok (none, a + 1)
        else if plan (a + 2) then .ok (none, a + 2)
        else if newobjFails plan (a + 2) then .ok (none, a + 5)
        else
          match loadParse plan sep dec fuel rest (a + 5) with
          | .error f => .error f
          | .ok (some l, n) => .ok (some (e :: l), n)
          | .ok (none, n) => .ok (none, n)

/-- second phase: the objects are put into the table in file order (unique-removal and linking
    allocate nothing) -/
def loadCommit (h : Bytes → UInt32) : List (Bytes × Bytes) → Tbl → Nat → Except Fault (Nat × Tbl)
  | [], t, cnt => .ok (cnt, t)
  | (name, data) :: l, t, cnt =>
    match put t name (h name) data with
    | .error f => .error f
    | .ok (_, t') => loadCommit h l t' (cnt + 1)

/-- `qlisttbl_load(tbl, file, sepchar, decode)` under a plan: attempt 1 is the buffer of
    `qfile_load`. `none` = -1 (nothing was loaded, the table is untouched). -/
def loadF (plan : Plan) (h : Bytes → UInt32) (t : Tbl) (file : Bytes) (sep : UInt8) (dec : Bool) :
    Except Fault (Option Nat × Tbl × Nat) :=
  if plan 1 then .ok (none, t, 1)
  else
    let str := file.takeWhile (· != 0)
    match loadParse plan sep dec (str.length + 1) str 1 with
    | .error f => .error f
    | .ok (none, n) => .ok (none, t, n)
    | .ok (some l, n) =>
      match loadCommit h l t 0 with
      | .error f => .error f
      | .ok (cnt, t') => .ok (some cnt, t', n)

end Qlibc.ListTbl

/-
  Glue of src/containers/qlisttbl.c as pure functions of the table: puts whose data / name argument
  points into the table's own storage (`newobj` copies name and data before `putobj` removes the
  equal keys of a UNIQUE table, so the call stores the sub-range of the OLD value of the first match
  in lookup direction), and the text of `qlisttbl_debug`.
-/
import QlibcModel.ListTbl.Model
import QlibcModel.HashTbl.Alias

namespace Qlibc.ListTbl
open Qlibc Qlibc.Dec

/-- the value a `putalias` call stores (`none` = skipped by the harness) -/
def aliasValue (t : Tbl) (k : Bytes) (h : UInt32) (str : Bool) (off len : Nat) : Option Bytes :=
  match get t k h with
  | none => none
  | some old =>
    if off > old.length then none
    else if str then HashTbl.subStr old off else HashTbl.subRange old off len

/-- `put(tbl, k, stored + off, len)` / `putstr(tbl, k, stored + off)` -/
def putAlias (t : Tbl) (k : Bytes) (h : UInt32) (str : Bool) (off len : Nat) : Option (Except Fault (Bool × Tbl)) :=
  (aliasValue t k h str off len).map (put t k h)

/-- the key of a `putkeyalias` call: the suffix at `off` of the STORED name of the first match
    (which may differ from `k` in case on a case-insensitive table) -/
def aliasKey (t : Tbl) (k : Bytes) (h : UInt32) (off : Nat) : Option Bytes :=
  match findobj t k h with
  | none => none
  | some n => if off > n.name.length then none else some (n.name.drop off)

/-- `qlisttbl_debug(tbl, out)` for a non-NULL stream: one line per entry, first to last -/
def debugText (t : Tbl) : Bytes :=
  t.nodes.flatMap fun n => HashTbl.debugLine n.name n.data n.hash

end Qlibc.ListTbl

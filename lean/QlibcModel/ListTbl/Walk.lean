/-
  The cursor loops of the list table model: one `getnext` call from a cursor that is "ready" at a
  position of the direction view, the walk with optional removal of the returned entries, and
  `remove` as the special case that removes every match.
-/
import QlibcModel.ListTbl.Links

namespace Qlibc.ListTbl
open Qlibc

variable (h : Bytes → UInt32)

/-- the filter of a walk: every node, or the nodes whose name matches -/
def matchP (o : Opts) (key : Option (Bytes × UInt32)) (n : Node) : Bool :=
  match key with
  | none => true
  | some (name, hash) => nameMatch o n name hash

theorem hitOf_eq (o : Opts) (key : Option (Bytes × UInt32)) (S : List Node) :
    hitOf o key S = S.find? (matchP o key) := by
  cases key with
  | none => cases S <;> rfl
  | some kh => rfl

/-- the cursor is positioned in front of `V2`: a zeroed cursor in front of the whole view, or a
    filled cursor whose continuation pointer is the head of `V2` -/
structure Ready (t : Tbl) (c : Cursor) (V1 V2 : List Node) : Prop where
  split : view t = V1 ++ V2
  zero : c.size = 0 → V1 = []
  cont : c.size ≠ 0 → c.cont t.opts = headId V2

theorem view_ids_nodup {t : Tbl} (nd : (t.nodes.map (·.id)).Nodup) : ((view t).map (·.id)).Nodup := by
  unfold view
  split
  · exact nd
  · rw [List.map_reverse]
    exact (List.reverse_perm _).nodup_iff.2 nd

theorem find_dropWhile {α : Type} (p : α → Bool) (l : List α) :
    (l.dropWhile (fun x => !p x)).find? p = l.find? p := by
  induction l with
  | nil => rfl
  | cons x l ih =>
    rw [List.dropWhile_cons]
    cases hp : p x <;> simp [hp, ih]

/-- where a ready cursor starts, as far as the search is concerned -/
theorem startOf_ready {t : Tbl} (I : Inv h t) {c : Cursor} {V1 V2 : List Node} (R : Ready t c V1 V2)
    (key : Option (Bytes × UInt32)) :
    ∃ S, startOf t c key = .ok S ∧ S.find? (matchP t.opts key) = V2.find? (matchP t.opts key) := by
  unfold startOf
  by_cases h0 : c.size = 0
  · have hV : view t = V2 := by rw [R.split, R.zero h0]; rfl
    rw [if_pos h0]
    cases key with
    | none => exact ⟨view t, rfl, by rw [hV]⟩
    | some kh =>
      obtain ⟨name, hash⟩ := kh
      refine ⟨findFrom t name hash, rfl, ?_⟩
      unfold findFrom
      by_cases hn : t.num = 0
      · have : t.nodes = [] := List.eq_nil_of_length_eq_zero (by rw [← I.num]; exact hn)
        have hv : view t = [] := by simp [view, this]
        rw [if_pos hn, ← hV, hv]
      · rw [if_neg hn, hV]
        exact find_dropWhile (matchP t.opts (some (name, hash))) V2
  · rw [if_neg h0, R.cont h0]
    cases V2 with
    | nil => exact ⟨[], rfl, rfl⟩
    | cons x V2' =>
      have nd := view_ids_nodup I.ids
      rw [R.split] at nd
      have hx := (nodup_split nd).1
      simp only [headId, List.head?_cons, Option.map_some]
      rw [R.split, suffixFrom_split V1 V2' x hx]
      exact ⟨x :: V2', rfl, rfl⟩

theorem getnext_of_start {t : Tbl} {c : Cursor} {key : Option (Bytes × UInt32)} {S : List Node}
    (hS : startOf t c key = .ok S) :
    getnext t c key =
      match S.find? (matchP t.opts key) with
      | none => .ok none
      | some n =>
        match fillNode t n with
        | .ok c => .ok (some c)
        | .error f => .error f := by
  unfold getnext
  rw [hS]
  simp only [hitOf_eq]
  rfl

/-- the outcome of one `getnext` call from a ready cursor -/
theorem getnext_ready {t : Tbl} (I : Inv h t) {c : Cursor} {V1 V2 : List Node} (R : Ready t c V1 V2)
    (key : Option (Bytes × UInt32)) :
    (V2.filter (matchP t.opts key) = [] ∧ getnext t c key = .ok none) ∨
    (∃ sk n V2' pre post, V2 = sk ++ n :: V2' ∧ sk.filter (matchP t.opts key) = [] ∧ matchP t.opts key n = true ∧
      t.nodes = pre ++ n :: post ∧ getnext t c key = .ok (some (curOf pre n post)) ∧
      (curOf pre n post).cont t.opts = headId V2' ∧
      (∀ (m f : Nat), view { t with nodes := pre ++ post, num := m, fresh := f } = (V1 ++ sk) ++ V2')) := by
  obtain ⟨S, hS, hfind⟩ := startOf_ready h I R key
  rw [getnext_of_start hS, hfind]
  cases hf : V2.find? (matchP t.opts key) with
  | none =>
    left
    refine ⟨?_, rfl⟩
    apply List.filter_eq_nil_iff.2
    intro a ha
    have := List.find?_eq_none.1 hf a ha
    simpa using this
  | some n =>
    right
    obtain ⟨hp, sk, V2', hV2, hsk⟩ := List.find?_eq_some_iff_append.1 hf
    have hv : view t = (V1 ++ sk) ++ n :: V2' := by rw [R.split, hV2]; simp
    obtain ⟨pre, post, hn, hc, hview⟩ := view_split hv
    refine ⟨sk, n, V2', pre, post, hV2, ?_, hp, hn, ?_, hc, hview⟩
    · apply List.filter_eq_nil_iff.2
      intro a ha
      have := hsk a ha
      simpa using this
    · simp only []
      rw [fillNode_split hn I.ids]

/-- what stays of `V2` when the `i`-th, `i+1`-th, … match is removed according to `rm` -/
def survivors (p : Node → Bool) (rm : Nat → Bool) : Nat → List Node → List Node
  | _, [] => []
  | i, n :: l =>
    if p n then (if rm i then survivors p rm (i + 1) l else n :: survivors p rm (i + 1) l)
    else n :: survivors p rm i l

theorem survivors_skip (p : Node → Bool) (rm : Nat → Bool) (i : Nat) (sk l : List Node)
    (hsk : sk.filter p = []) : survivors p rm i (sk ++ l) = sk ++ survivors p rm i l := by
  induction sk with
  | nil => rfl
  | cons x sk ih =>
    have hx : p x = false := by
      have := List.filter_eq_nil_iff.1 hsk x (List.mem_cons_self ..)
      simpa using this
    have hsk' : sk.filter p = [] := by
      apply List.filter_eq_nil_iff.2
      intro a ha
      exact List.filter_eq_nil_iff.1 hsk a (List.mem_cons_of_mem _ ha)
    simp only [List.cons_append, survivors, hx, Bool.false_eq_true, if_false, ih hsk']

theorem inv_unlink {t : Tbl} (I : Inv h t) {pre post : List Node} {n : Node} (hs : t.nodes = pre ++ n :: post) :
    Inv h { t with nodes := pre ++ post, num := t.num - 1 } := by
  have hsub : (pre ++ post).Sublist t.nodes := by
    rw [hs]; exact (List.Sublist.refl _).append (List.sublist_cons_self _ _)
  refine ⟨?_, fun x hx => I.hash x (hsub.subset hx), fun x hx => I.data x (hsub.subset hx),
    (hsub.map _).nodup I.ids, fun x hx => I.below x (hsub.subset hx)⟩
  have := I.num
  rw [hs] at this
  simp only [List.length_append, List.length_cons] at this ⊢
  omega

/-- the walk with removal, from a ready cursor -/
theorem walkRmLoop_ready (key : Option (Bytes × UInt32)) (rm : Nat → Bool) :
    ∀ (fuel : Nat) (t : Tbl) (c : Cursor) (V1 V2 : List Node) (i : Nat),
      Inv h t → Ready t c V1 V2 → V2.length < fuel →
      ∃ vis t', walkRmLoop fuel t c key rm i = .ok (vis, t') ∧
        vis.map (·.1.kv) = (V2.filter (matchP t.opts key)).map Node.kv ∧
        (∀ j (hj : j < vis.length), vis[j].2 = if rm (i + j) then some true else none) ∧
        Inv h t' ∧ t'.opts = t.opts ∧ t'.fresh = t.fresh ∧
        view t' = V1 ++ survivors (matchP t.opts key) rm i V2 := by
  intro fuel
  induction fuel with
  | zero => intro t c V1 V2 i _ _ hf; omega
  | succ fuel ih =>
    intro t c V1 V2 i I R hf
    rcases getnext_ready h I R key with ⟨hnil, hg⟩ | ⟨sk, n, V2', pre, post, hV2, hsk, hp, hn, hg, hc, hview⟩
    · refine ⟨[], t, by simp [walkRmLoop, hg], by simp [hnil], by intro j hj; simp at hj, I, rfl, rfl, ?_⟩
      have := survivors_skip (matchP t.opts key) rm i V2 [] hnil
      simp only [List.append_nil, survivors] at this
      rw [this, R.split]
    · have hsz : (curOf pre n post).size ≠ 0 := by
        have := I.data n (by rw [hn]; simp)
        simp only [curOf]
        exact fun h3 => this (List.eq_nil_of_length_eq_zero h3)
      have hlen : V2'.length < fuel := by rw [hV2] at hf; simp at hf; omega
      have hfilter : V2.filter (matchP t.opts key) = n :: V2'.filter (matchP t.opts key) := by
        rw [hV2, List.filter_append, hsk, List.filter_cons_of_pos hp]; rfl
      have hsurv : survivors (matchP t.opts key) rm i V2 =
          sk ++ (if rm i then survivors (matchP t.opts key) rm (i + 1) V2'
                 else n :: survivors (matchP t.opts key) rm (i + 1) V2') := by
        rw [hV2, survivors_skip _ _ _ _ _ hsk]
        simp only [survivors, hp, if_true]
      cases hr : rm i with
      | true =>
        have hrem := removeobj_curOf hn I.ids
        have I' := inv_unlink h I hn
        have R' : Ready { t with nodes := pre ++ post, num := t.num - 1 } (curOf pre n post) (V1 ++ sk) V2' :=
          ⟨hview _ _, fun h0 => absurd h0 hsz, fun _ => hc⟩
        obtain ⟨vis, t', hw, hvis, hflags, It', ho, hfr, hv'⟩ := ih _ _ _ _ (i + 1) I' R' hlen
        refine ⟨(curOf pre n post, some true) :: vis, t', ?_, ?_, ?_, It', ho, hfr, ?_⟩
        · simp only [walkRmLoop, hg, hr, if_true, hrem, hw]
        · rw [hfilter]
          simp only [List.map_cons, hvis]
          rfl
        · intro j hj
          cases j with
          | zero => simp [hr]
          | succ j =>
            have := hflags j (by simpa using hj)
            simp only [List.getElem_cons_succ]
            rw [this, show i + 1 + j = i + (j + 1) by omega]
        · rw [hv', hsurv, hr]
          simp
      | false =>
        have R' : Ready t (curOf pre n post) (V1 ++ sk ++ [n]) V2' :=
          ⟨by rw [R.split, hV2]; simp, fun h0 => absurd h0 hsz, fun _ => hc⟩
        obtain ⟨vis, t', hw, hvis, hflags, It', ho, hfr, hv'⟩ := ih t _ _ _ (i + 1) I R' hlen
        refine ⟨(curOf pre n post, none) :: vis, t', ?_, ?_, ?_, It', ho, hfr, ?_⟩
        · simp only [walkRmLoop, hg, hr, Bool.false_eq_true, if_false, hw]
        · rw [hfilter]
          simp only [List.map_cons, hvis]
          rfl
        · intro j hj
          cases j with
          | zero => simp [hr]
          | succ j =>
            have := hflags j (by simpa using hj)
            simp only [List.getElem_cons_succ]
            rw [this, show i + 1 + j = i + (j + 1) by omega]
        · rw [hv', hsurv, hr]
          simp

theorem ready_zero (t : Tbl) : Ready t Cursor.zero [] (view t) :=
  ⟨rfl, fun _ => rfl, fun h0 => absurd rfl h0⟩

theorem view_length (t : Tbl) : (view t).length = t.nodes.length := by
  unfold view; split <;> simp

/-- a plain walk is a walk that removes nothing -/
theorem walkLoop_eq_walkRm (key : Option (Bytes × UInt32)) : ∀ (fuel : Nat) (t : Tbl) (c : Cursor) (i : Nat),
    walkLoop fuel t c key =
      match walkRmLoop fuel t c key (fun _ => false) i with
      | .error f => .error f
      | .ok (vis, _) => .ok (vis.map (·.1)) := by
  intro fuel
  induction fuel with
  | zero => intro t c i; rfl
  | succ fuel ih =>
    intro t c i
    simp only [walkLoop, walkRmLoop]
    cases hg : getnext t c key with
    | error f => rfl
    | ok r =>
      cases r with
      | none => rfl
      | some c' =>
        simp only [Bool.false_eq_true, if_false]
        rw [ih t c' (i + 1)]
        cases walkRmLoop fuel t c' key (fun _ => false) (i + 1) with
        | error f => rfl
        | ok r => rfl

/-- `remove` is the walk that removes every match, counting -/
theorem removeLoop_eq_walkRm (name : Bytes) (hash : UInt32) : ∀ (fuel : Nat) (t : Tbl) (c : Cursor) (cnt i : Nat),
    removeLoop fuel t c name hash cnt =
      match walkRmLoop fuel t c (some (name, hash)) (fun _ => true) i with
      | .error f => .error f
      | .ok (vis, t') => .ok (cnt + vis.length, t') := by
  intro fuel
  induction fuel with
  | zero => intro t c cnt i; rfl
  | succ fuel ih =>
    intro t c cnt i
    simp only [removeLoop, walkRmLoop]
    cases hg : getnext t c (some (name, hash)) with
    | error f => rfl
    | ok r =>
      cases r with
      | none => rfl
      | some c' =>
        simp only [if_true]
        cases hr : removeobj t c' with
        | error f => rfl
        | ok r =>
          obtain ⟨b, t'⟩ := r
          simp only []
          rw [ih t' c' (cnt + 1) (i + 1)]
          cases walkRmLoop fuel t' c' (some (name, hash)) (fun _ => true) (i + 1) with
          | error f => rfl
          | ok r =>
            obtain ⟨vis, t''⟩ := r
            simp only [List.length_cons]
            congr 2
            omega

theorem survivors_none (p : Node → Bool) (i : Nat) (l : List Node) : survivors p (fun _ => false) i l = l := by
  induction l generalizing i with
  | nil => rfl
  | cons x l ih => simp only [survivors, Bool.false_eq_true, if_false, ih]; split <;> rfl

theorem survivors_all (p : Node → Bool) (i : Nat) (l : List Node) :
    survivors p (fun _ => true) i l = l.filter (fun n => !p n) := by
  induction l generalizing i with
  | nil => rfl
  | cons x l ih =>
    simp only [survivors, if_true, ih]
    cases hp : p x <;> simp [hp]

end Qlibc.ListTbl

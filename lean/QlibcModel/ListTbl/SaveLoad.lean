/-
  Saving a table of string values (URL-encoded) and loading the file into a table that appends
  reproduces the entries in order, and `load` returns their number.

  The round-trip property of the URL codec is taken as a hypothesis (`UrlRoundTrip`); it is
  property C16's theorem `url_roundtrip`.
-/
import QlibcModel.ListTbl.Ops

namespace Qlibc.ListTbl
open Qlibc Qlibc.Encode Qlibc.Str

/-- `qurl_decode (qurl_encode x) = x` in the form the loader uses it -/
def UrlRoundTrip : Prop := ∀ x : Bytes, ∃ r, urlDecodeRaw (urlEncode x ++ [0]) = .ok r ∧ r.1.take r.2 = x

/-! ### bytes the encoder can emit -/

def okB (b : UInt8) : Bool := b != 0 && !isWs b

theorem enc_ok_nat : ∀ n, n < 256 → (urlEncByte (UInt8.ofNat n)).all okB = true := by decide +kernel

theorem urlEncByte_ok (c b : UInt8) (hb : b ∈ urlEncByte c) : okB b = true := by
  have := enc_ok_nat c.toNat c.toNat_lt
  simp only [UInt8.ofNat_toNat, List.all_eq_true] at this
  exact this b hb

theorem urlEncode_ok (x : Bytes) (b : UInt8) (hb : b ∈ urlEncode x) : okB b = true := by
  unfold urlEncode at hb
  obtain ⟨c, _, hc⟩ := List.mem_flatMap.1 hb
  exact urlEncByte_ok c b hc

theorem urlEncByte_ne_nil (c : UInt8) : urlEncByte c ≠ [] := by
  unfold urlEncByte; split <;> simp

theorem urlEncode_ne_nil {x : Bytes} (hx : x ≠ []) : urlEncode x ≠ [] := by
  cases x with
  | nil => exact absurd rfl hx
  | cons c x =>
    unfold urlEncode
    rw [List.flatMap_cons]
    intro h0
    exact urlEncByte_ne_nil c (List.append_eq_nil_iff.1 h0).1

theorem okB_ne_zero {b : UInt8} (hb : okB b = true) : b ≠ 0 := by
  intro h0; subst h0; simp [okB] at hb

theorem okB_ne_lf {b : UInt8} (hb : okB b = true) : b ≠ 10 := by
  intro h0; subst h0; simp [okB, isWs] at hb

theorem okB_not_ws {b : UInt8} (hb : okB b = true) : isWs b = false := by
  simp only [okB, Bool.and_eq_true, Bool.not_eq_eq_eq_not, Bool.not_true] at hb
  exact hb.2

/-! ### list plumbing -/

theorem takeWhile_stop {α : Type} (p : α → Bool) (a b : List α) (x : α) (ha : ∀ y ∈ a, p y = true) (hx : p x = false) :
    (a ++ x :: b).takeWhile p = a := by
  induction a with
  | nil => simp [hx]
  | cons y a ih =>
    have hy := ha y (List.mem_cons_self ..)
    simp only [List.cons_append, List.takeWhile_cons, hy, if_true]
    rw [ih (fun z hz => ha z (List.mem_cons_of_mem _ hz))]

theorem takeWhile_all {α : Type} (p : α → Bool) (a : List α) (ha : ∀ y ∈ a, p y = true) : a.takeWhile p = a := by
  induction a with
  | nil => rfl
  | cons y a ih =>
    simp only [List.takeWhile_cons, ha y (List.mem_cons_self ..), if_true]
    rw [ih (fun z hz => ha z (List.mem_cons_of_mem _ hz))]

theorem dropWhile_snoc {α : Type} (p : α → Bool) (a : List α) (c : α) (hc : p c = false) :
    (a ++ [c]).dropWhile p = a.dropWhile p ++ [c] := by
  induction a with
  | nil => simp [hc]
  | cons x a ih =>
    simp only [List.cons_append, List.dropWhile_cons]
    cases hp : p x <;> simp [ih]

theorem trimHead_cons {c : UInt8} (hc : isWs c = false) (r : Bytes) : trimHead (c :: r) = c :: r := by
  simp [trimHead, hc]

/-- trimming the tail never removes a non-blank first byte -/
theorem trimTail_cons {c : UInt8} (hc : isWs c = false) (r : Bytes) : ∃ r', trimTail (c :: r) = c :: r' := by
  unfold trimTail
  rw [List.reverse_cons, dropWhile_snoc isWs _ c hc, List.reverse_append]
  exact ⟨_, rfl⟩

theorem trimTail_id (l : Bytes) (hl : ∀ c, l.getLast? = some c → isWs c = false) : trimTail l = l := by
  unfold trimTail
  cases hr : l.reverse with
  | nil =>
    have : l = [] := by simpa using hr
    subst this; rfl
  | cons c r =>
    have hlast : l.getLast? = some c := by rw [← List.head?_reverse, hr]; rfl
    rw [List.dropWhile_cons, hl c hlast]
    simp only [Bool.false_eq_true, if_false]
    rw [← hr, List.reverse_reverse]

theorem trim_id (l : Bytes) (hf : ∀ c, l.head? = some c → isWs c = false)
    (hl : ∀ c, l.getLast? = some c → isWs c = false) : trim l = l := by
  unfold trim
  have : trimHead l = l := by
    cases l with
    | nil => rfl
    | cons c r => exact trimHead_cons (hf c rfl) r
  rw [this, trimTail_id l hl]

/-! ### admissible content -/

/-- names `save`/`load` can carry: non-empty, no separator / LF / NUL inside, no blank at either
    end, not starting with `#` -/
structure Admissible (sep : UInt8) (name : Bytes) : Prop where
  ne : name ≠ []
  nosep : sep ∉ name
  nonul : (0 : UInt8) ∉ name
  nolf : (10 : UInt8) ∉ name
  first : ∀ c, name.head? = some c → isWs c = false ∧ c ≠ 35
  last : ∀ c, name.getLast? = some c → isWs c = false

/-- a string value as `putstr` stores it: NUL-free bytes plus the terminator -/
def StrVal (v : Bytes) : Prop := ∃ s : Bytes, v = s ++ [0] ∧ (0 : UInt8) ∉ s

/-- the line `save` writes for an entry, without its LF -/
def lineOf (sep : UInt8) (name v : Bytes) : Bytes := name ++ [sep] ++ urlEncode v

theorem getLast_mem {l : Bytes} {c : UInt8} (hc : l.getLast? = some c) : c ∈ l := by
  rw [← List.head?_reverse] at hc
  have : c ∈ l.reverse := by
    cases hr : l.reverse with
    | nil => rw [hr] at hc; cases hc
    | cons x r => rw [hr] at hc; cases hc; exact List.mem_cons_self ..
  simpa using this

theorem parseLine_entry (hrt : UrlRoundTrip) {sep : UInt8} {name v : Bytes}
    (A : Admissible sep name) (V : StrVal v) : parseLine (lineOf sep name v) sep true = .ok (some (name, v)) := by
  obtain ⟨s, hv, hs⟩ := V
  have hvne : v ≠ [] := by rw [hv]; simp
  have hene := urlEncode_ne_nil hvne
  obtain ⟨c, r, hname⟩ : ∃ c r, name = c :: r := by
    cases name with
    | nil => exact absurd rfl A.ne
    | cons c r => exact ⟨c, r, rfl⟩
  have hc := A.first c (by rw [hname]; rfl)
  -- the whole line is not trimmed
  have htrim : trim (lineOf sep name v) = c :: (r ++ [sep] ++ urlEncode v) := by
    have : lineOf sep name v = c :: (r ++ [sep] ++ urlEncode v) := by simp [lineOf, hname]
    rw [← this]
    apply trim_id
    · intro d hd
      rw [this] at hd
      cases hd
      exact hc.1
    · intro d hd
      unfold lineOf at hd
      rw [List.getLast?_append] at hd
      cases he : (urlEncode v).getLast? with
      | none =>
        have : urlEncode v = [] := by simpa using he
        exact absurd this hene
      | some e =>
        rw [he] at hd
        cases hd
        exact okB_not_ws (urlEncode_ok v d (getLast_mem he))
  unfold parseLine
  rw [htrim]
  simp only []
  rw [if_neg hc.2]
  -- makeword splits at the separator
  have hmw : makeword (c :: (r ++ [sep] ++ urlEncode v)) sep = (name, urlEncode v) := by
    have hl : c :: (r ++ [sep] ++ urlEncode v) = name ++ sep :: urlEncode v := by simp [hname]
    unfold makeword
    rw [hl]
    have htw : (name ++ sep :: urlEncode v).takeWhile (· != sep) = name :=
      takeWhile_stop _ name _ sep (fun y hy => by
        have : y ≠ sep := fun h3 => A.nosep (h3 ▸ hy)
        simp [this]) (by simp)
    simp only [htw, List.drop_left, List.drop_succ_cons, List.drop_zero]
  rw [hmw]
  simp only []
  have htn : trim name = name := trim_id name (fun d hd => (A.first d hd).1) A.last
  have hte : trim (urlEncode v) = urlEncode v :=
    trim_id _ (fun d hd => okB_not_ws (urlEncode_ok v d (List.mem_of_mem_head? hd)))
      (fun d hd => okB_not_ws (urlEncode_ok v d (getLast_mem hd)))
  rw [htn, hte]
  -- decoding gives the stored string back
  obtain ⟨rr, hdec, hstr⟩ := hrt v
  have hval : decodeVal true (urlEncode v) = .ok s := by
    unfold decodeVal
    rw [if_pos rfl, hdec]
    simp only []
    have : rr.1 = (s ++ [0]) ++ rr.1.drop rr.2 := by
      have := List.take_append_drop rr.2 rr.1
      rw [hstr, hv] at this
      exact this.symm
    rw [this, List.append_assoc]
    have := takeWhile_stop (fun b : UInt8 => b != 0) s (rr.1.drop rr.2) 0 (fun y hy => by
      have : y ≠ 0 := fun h3 => hs (h3 ▸ hy)
      simp [this]) (by simp)
    simpa using this
  rw [hval]
  simp only []
  rw [hv]

theorem parseLine_comment (hdr : Bytes) (sep : UInt8) (dec : Bool) :
    parseLine ([35, 32] ++ hdr) sep dec = .ok none := by
  unfold parseLine trim
  have h35 : isWs 35 = false := by decide
  rw [show ([35, 32] ++ hdr : Bytes) = 35 :: (32 :: hdr) from rfl, trimHead_cons h35]
  obtain ⟨r', hr'⟩ := trimTail_cons h35 (32 :: hdr)
  rw [hr']
  simp

/-! ### save -/

/-- the entry lines of a saved file -/
def bodyOf (sep : UInt8) (ns : List Node) : Bytes := ns.flatMap fun n => lineOf sep n.name n.data ++ [10]

theorem bodyOf_cons (sep : UInt8) (n : Node) (ns : List Node) :
    bodyOf sep (n :: ns) = lineOf sep n.name n.data ++ 10 :: bodyOf sep ns := by
  simp [bodyOf, List.flatMap_cons]

theorem saveLines_enc (sep : UInt8) (ns : List Node) : saveLines sep true ns = .ok (bodyOf sep ns) := by
  induction ns with
  | nil => rfl
  | cons n ns ih =>
    rw [bodyOf_cons]
    simp only [saveLines, saveLine, saveVal, if_true, ih, lineOf, List.append_assoc, List.cons_append, List.nil_append]

/-! ### load -/

variable (h : Bytes → UInt32)

/-- the loop over the entry lines written by `save`, into a table that appends -/
theorem loadLoop_lines (hrt : UrlRoundTrip) (sep : UInt8) (hsep : sep ≠ 10) :
    ∀ (ns : List Node) (fuel : Nat) (t : Tbl) (cnt : Nat),
      (∀ n ∈ ns, Admissible sep n.name ∧ StrVal n.data) →
      Inv h t → t.opts.unique = false → t.opts.insertTop = false →
      (bodyOf sep ns).length < fuel →
      ∃ t', loadLoop h sep true fuel (bodyOf sep ns) t cnt = .ok (cnt + ns.length, t') ∧
        Inv h t' ∧ t'.opts = t.opts ∧ entries t' = entries t ++ ns.map Node.kv := by
  intro ns
  induction ns with
  | nil =>
    intro fuel t cnt _ I _ _ hf
    cases fuel with
    | zero => simp at hf
    | succ fuel => exact ⟨t, by simp [loadLoop, bodyOf], I, rfl, by simp⟩
  | cons n ns ih =>
    intro fuel t cnt hadm I hu hi hf
    obtain ⟨A, V⟩ := hadm n (List.mem_cons_self ..)
    cases fuel with
    | zero => simp at hf
    | succ fuel =>
      rw [bodyOf_cons] at hf ⊢
      have hne : lineOf sep n.name n.data ++ 10 :: bodyOf sep ns ≠ [] := by simp
      have hnolf : ∀ y ∈ lineOf sep n.name n.data, (y != 10) = true := by
        intro y hy
        unfold lineOf at hy
        have : y ≠ 10 := by
          rcases List.mem_append.1 hy with h1 | h1
          · rcases List.mem_append.1 h1 with h2 | h2
            · exact fun h3 => A.nolf (h3 ▸ h2)
            · simp only [List.mem_singleton] at h2; rw [h2]; exact hsep
          · exact okB_ne_lf (urlEncode_ok _ y h1)
        simp [this]
      have htw : (lineOf sep n.name n.data ++ 10 :: bodyOf sep ns).takeWhile (· != 10) = lineOf sep n.name n.data :=
        takeWhile_stop _ _ _ 10 hnolf (by simp)
      obtain ⟨s, hv, hs⟩ := V
      have hvne : n.data ≠ [] := by rw [hv]; simp
      obtain ⟨t1, hput, I1, ho1, he1⟩ := put_eq h I n.name n.data hvne
      rw [hu, hi] at he1
      simp only [Bool.false_eq_true, if_false] at he1
      obtain ⟨t', hl, I', ho', he'⟩ := ih fuel t1 (cnt + 1) (fun m hm => hadm m (List.mem_cons_of_mem _ hm)) I1
        (by rw [ho1]; exact hu) (by rw [ho1]; exact hi)
        (by simp only [List.length_append, List.length_cons] at hf; omega)
      refine ⟨t', ?_, I', by rw [ho', ho1], ?_⟩
      · unfold loadLoop
        rw [if_neg hne]
        simp only [htw]
        rw [parseLine_entry hrt A ⟨s, hv, hs⟩]
        simp only []
        rw [hput]
        simp only [if_true]
        have hdrop : ((lineOf sep n.name n.data ++ 10 :: bodyOf sep ns).drop (lineOf sep n.name n.data).length).drop 1 =
            bodyOf sep ns := by
          rw [List.drop_left]; rfl
        rw [hdrop, hl]
        simp only [List.length_cons]
        congr 2
        omega
      · rw [he', he1]
        simp [Node.kv]

/-- saving with encoding and loading with decoding into a table that appends (e.g. a default
    table) reproduces the entries after the ones already there, in order, and reports how many
    were loaded -/
theorem save_load (hrt : UrlRoundTrip) (sep : UInt8) (hsep0 : sep ≠ 0) (hsep : sep ≠ 10)
    (hdr : Bytes) (hh0 : (0 : UInt8) ∉ hdr) (hhlf : (10 : UInt8) ∉ hdr)
    (t : Tbl) (hadm : ∀ n ∈ t.nodes, Admissible sep n.name ∧ StrVal n.data)
    (t0 : Tbl) (I0 : Inv h t0) (hu : t0.opts.unique = false) (hi : t0.opts.insertTop = false) :
    ∃ file t', saveFile hdr t sep true = .ok file ∧
      load h t0 file sep true = .ok (t.nodes.length, t') ∧ Inv h t' ∧
      entries t' = entries t0 ++ entries t := by
  have hsave : saveFile hdr t sep true = .ok ([35, 32] ++ hdr ++ [10] ++ bodyOf sep t.nodes) := by
    simp only [saveFile, saveBody, saveLines_enc]
  -- no NUL anywhere in the file
  have hbody0 : ∀ y ∈ bodyOf sep t.nodes, y ≠ 0 := by
    intro y hy
    obtain ⟨n, hn, hy⟩ := List.mem_flatMap.1 hy
    obtain ⟨A, _⟩ := hadm n hn
    simp only [lineOf, List.mem_append, List.mem_singleton] at hy
    rcases hy with ((h1 | h1) | h1) | h1
    · exact fun h3 => A.nonul (h3 ▸ h1)
    · rw [h1]; exact hsep0
    · exact okB_ne_zero (urlEncode_ok _ y h1)
    · rw [h1]; decide
  have hfile0 : ([35, 32] ++ hdr ++ [10] ++ bodyOf sep t.nodes).takeWhile (· != 0) =
      [35, 32] ++ hdr ++ [10] ++ bodyOf sep t.nodes := by
    apply takeWhile_all
    intro y hy
    have : y ≠ 0 := by
      rcases List.mem_append.1 hy with h1 | h1
      · rcases List.mem_append.1 h1 with h2 | h2
        · rcases List.mem_append.1 h2 with h3 | h3
          · simp only [List.mem_cons, List.not_mem_nil, or_false] at h3
            rcases h3 with h3 | h3 <;> (rw [h3]; decide)
          · exact fun h4 => hh0 (h4 ▸ h3)
        · simp only [List.mem_singleton] at h2; rw [h2]; decide
      · exact hbody0 y h1
    simp [this]
  obtain ⟨t', hl, I', _, he⟩ := loadLoop_lines h hrt sep hsep t.nodes
    (([35, 32] ++ hdr).length + (bodyOf sep t.nodes).length + 1) t0 0 hadm I0 hu hi (by omega)
  refine ⟨_, t', hsave, ?_, I', by rw [he]; rfl⟩
  unfold load
  rw [hfile0]
  show loadLoop h sep true (([35, 32] ++ hdr ++ [10] ++ bodyOf sep t.nodes).length + 1)
    ([35, 32] ++ hdr ++ [10] ++ bodyOf sep t.nodes) t0 0 = _
  have hlen : ([35, 32] ++ hdr ++ [10] ++ bodyOf sep t.nodes).length + 1 =
      (([35, 32] ++ hdr).length + (bodyOf sep t.nodes).length + 1) + 1 := by
    simp only [List.length_append, List.length_cons, List.length_nil]; omega
  rw [hlen]
  unfold loadLoop
  rw [if_neg (by simp)]
  have htw : ([35, 32] ++ hdr ++ [10] ++ bodyOf sep t.nodes).takeWhile (· != 10) = [35, 32] ++ hdr := by
    rw [List.append_assoc]
    apply takeWhile_stop _ _ _ 10 _ (by simp)
    intro y hy
    have : y ≠ 10 := by
      rcases List.mem_append.1 hy with h1 | h1
      · simp only [List.mem_cons, List.not_mem_nil, or_false] at h1
        rcases h1 with h1 | h1 <;> (rw [h1]; decide)
      · exact fun h3 => hhlf (h3 ▸ h1)
    simp [this]
  simp only [htw]
  rw [parseLine_comment]
  simp only []
  have hdrop : (([35, 32] ++ hdr ++ [10] ++ bodyOf sep t.nodes).drop ([35, 32] ++ hdr).length).drop 1 =
      bodyOf sep t.nodes := by
    rw [List.append_assoc, List.drop_left]
    rfl
  rw [hdrop, hl]
  simp

end Qlibc.ListTbl

/-
  The argument checks of the public entry points of src/containers/qlisttbl.c (`none` = NULL
  argument) and the battery of invalid calls the harness op `inv` makes on the current table.
-/
import QlibcModel.ListTbl.Model

namespace Qlibc.ListTbl
open Qlibc Qlibc.Dec

inductive Err where
  | none | einval | enoent | eio
  deriving DecidableEq, Repr

def Err.name : Err → String
  | .none => "0" | .einval => "EINVAL" | .enoent => "ENOENT" | .eio => "EIO"

abbrev KeyArg := Option (Bytes × UInt32)

/-- `qlisttbl_put(tbl, name, data, size)`: `newobj` rejects `name == NULL || data == NULL ||
    size <= 0` with EINVAL before the table is looked at -/
def putA (t : Tbl) (name : KeyArg) (data : Option Bytes) : Except Fault (Tbl × Bool × Err) :=
  match name, data with
  | some (n, h), some d =>
    match put t n h d with
    | .ok (b, t') => .ok (t', b, if b then .none else .einval)
    | .error f => .error f
  | _, _ => .ok (t, false, .einval)

/-- `qlisttbl_putstr`: `size = str ? strlen(str) + 1 : 0` -/
def putstrA (t : Tbl) (name : KeyArg) (str : Option Bytes) : Except Fault (Tbl × Bool × Err) :=
  putA t name (str.map (· ++ [0]))

def putstrfA (t : Tbl) (name : KeyArg) (formatted : Bytes) : Except Fault (Tbl × Bool × Err) :=
  putstrA t name (some formatted)

def putintA (t : Tbl) (name : KeyArg) (n : Int) : Except Fault (Tbl × Bool × Err) :=
  putstrA t name (some (intToDec n))

/-- `qlisttbl_get` / `getstr`: NULL name → NULL, EINVAL -/
def getA (t : Tbl) (name : KeyArg) : Option Bytes × Err :=
  match name with
  | none => (none, .einval)
  | some (n, h) =>
    match get t n h with
    | some d => (some d, .none)
    | none => (none, .enoent)

def getintA (t : Tbl) (name : KeyArg) : Except Fault Int × Err :=
  match getA t name with
  | (some d, e) => (atoll d, e)
  | (none, e) => (.ok 0, e)

/-- `qlisttbl_remove`: `if (name == NULL) return false;` (errno untouched) -/
def removeA (t : Tbl) (name : KeyArg) : Except Fault (Nat × Tbl) :=
  match name with
  | none => .ok (0, t)
  | some (n, h) => remove t n h

/-- `qlisttbl_removeobj`: `if (obj == NULL) return false;` -/
def removeobjA (t : Tbl) (obj : Option Cursor) : Except Fault (Bool × Tbl) :=
  match obj with
  | none => .ok (false, t)
  | some c => removeobj t c

/-- `qlisttbl_getnext`: `if (obj == NULL) return NULL;` -/
def getnextA (t : Tbl) (obj : Option Cursor) (key : KeyArg) : Except Fault (Option Cursor) :=
  match obj with
  | none => .ok none
  | some c => getnext t c key

/-- `qlisttbl_getmulti(tbl, name, …)`: the name goes to `getnext` unchecked, so a NULL name is
    the full scan: every entry in lookup order -/
def getmultiA (t : Tbl) (name : KeyArg) : Except Fault (List Bytes) :=
  (walk t name).map (·.map (·.data))

/-- `qlisttbl_save(tbl, filepath, …)`: NULL path → false, EINVAL; `qlisttbl_debug(tbl, NULL)` →
    false, EIO -/
def saveNullPath : Bool × Err := (false, .einval)
def debugA (out : Bool) : Bool × Err := if out then (true, .none) else (false, .eio)

abbrev Call := Tbl → Except Fault (Tbl × Bool × Err)

def invKey : Bytes := [105, 110, 118, 107, 101, 121]      -- "invkey"

def pureCall (f : Tbl → Bool × Err) : Call := fun t => .ok (t, (f t).1, (f t).2)

/-- the EINVAL group of the harness op `inv`, in its order -/
def invBattery : List Call := [
  fun t => putA t none (some [118, 0]),
  fun t => putA t (some (invKey, 0)) none,
  fun t => putA t (some (invKey, 0)) (some []),
  fun t => putstrA t none (some [118]),
  fun t => putstrA t (some (invKey, 0)) none,
  fun t => putstrfA t none [118],
  fun t => putintA t none 7,
  pureCall fun t => ((getA t none).1.isSome, (getA t none).2),
  pureCall fun t => ((getA t none).1.isSome, (getA t none).2),
  pureCall fun t => ((getA t none).1.isSome, (getA t none).2),
  pureCall fun t => ((getA t none).1.isSome, (getA t none).2),
  pureCall fun t => ((getA t none).1.isSome, (getA t none).2),
  pureCall fun t => ((match (getintA t none).1 with | .ok n => n != 0 | .error _ => true), (getintA t none).2),
  pureCall fun _ => saveNullPath ]

/-- the second group: plain failure values (errno not documented) and EIO -/
def invBattery2 : List Call := [
  fun t => match removeA t none with
    | .ok (n, t') => .ok (t', n != 0, .none)
    | .error f => .error f,
  fun t => match removeobjA t none with
    | .ok (b, t') => .ok (t', b, .none)
    | .error f => .error f,
  fun t => match getnextA t none none with
    | .ok r => .ok (t, r.isSome, .none)
    | .error f => .error f,
  fun t => match getnextA t none (some (invKey, 0)) with
    | .ok r => .ok (t, r.isSome, .none)
    | .error f => .error f,
  pureCall fun _ => debugA false ]

def runCalls : List Call → Tbl → Except Fault (Tbl × List (Bool × Err))
  | [], t => .ok (t, [])
  | c :: cs, t =>
    match c t with
    | .error f => .error f
    | .ok r =>
      match runCalls cs r.1 with
      | .error f => .error f
      | .ok rest => .ok (rest.1, (r.2.1, r.2.2) :: rest.2)

end Qlibc.ListTbl

/-
  The abstract vocabulary C08 is stated in: key equality under the options, the entry list a
  table represents, the representation invariant.
-/
import QlibcModel.ListTbl.Model

namespace Qlibc.ListTbl
open Qlibc

abbrev KV := Bytes × Bytes

/-- key equality of the table: byte equality, or equality after ASCII case folding -/
def eqk (o : Opts) (a b : Bytes) : Bool := a.map (fold o) == b.map (fold o)

def Node.kv (n : Node) : KV := (n.name, n.data)
def Cursor.kv (c : Cursor) : KV := (c.name, c.data)

/-- the ordered multimap a table represents: its entries from first to last -/
def entries (t : Tbl) : List KV := t.nodes.map Node.kv

/-- a list in lookup direction -/
def dir {α : Type} (o : Opts) (l : List α) : List α := if o.lookupFwd then l else l.reverse

/-- representation invariant -/
structure Inv (h : Bytes → UInt32) (t : Tbl) : Prop where
  num : t.num = t.nodes.length
  hash : ∀ n ∈ t.nodes, n.hash = h n.name
  data : ∀ n ∈ t.nodes, n.data ≠ []
  ids : (t.nodes.map (·.id)).Nodup
  below : ∀ n ∈ t.nodes, n.id < t.fresh

theorem strcmpC_eq (f : UInt8 → UInt8) (a b : Bytes) : strcmpC f a b = .eq ↔ a.map f = b.map f := by
  induction a generalizing b with
  | nil => cases b <;> simp [strcmpC]
  | cons x a ih =>
    cases b with
    | nil => simp [strcmpC]
    | cons y b =>
      simp only [strcmpC, List.map_cons, List.cons.injEq]
      by_cases hxy : f x = f y
      · simp [hxy, ih]
      · simp only [hxy, if_false, false_and, iff_false]
        split <;> simp

theorem ord_beq_eq (x : Ordering) : (x == Ordering.eq) = decide (x = Ordering.eq) := by cases x <;> rfl

theorem ord_beq_gt (x : Ordering) : (x == Ordering.gt) = decide (x = Ordering.gt) := by cases x <;> rfl

theorem nameMatch_eq (h : Bytes → UInt32) (o : Opts) {n : Node} (hn : n.hash = h n.name) (k : Bytes) :
    nameMatch o n k (h k) = eqk o n.name k := by
  unfold nameMatch eqk fold
  cases hc : o.caseInsens with
  | true =>
    simp only [eq_self, ite_true, ord_beq_eq]
    by_cases he : n.name.map toLower = k.map toLower
    · simp [he, (strcmpC_eq toLower n.name k).2 he]
    · have : strcmpC toLower n.name k ≠ .eq := fun h3 => he ((strcmpC_eq _ _ _).1 h3)
      simp [he, this]
  | false =>
    simp only [Bool.false_eq_true, ite_false, List.map_id, ord_beq_eq]
    by_cases he : n.name = k
    · subst he
      have : strcmpC id n.name n.name = .eq := (strcmpC_eq id _ _).2 rfl
      simp [hn, this]
    · have : strcmpC id n.name k ≠ .eq := fun h3 => he (by simpa using (strcmpC_eq id _ _).1 h3)
      simp [he, this]

end Qlibc.ListTbl

/-
  The case folding of the list table model is EXACTLY the ASCII letters (C locale `strcasecmp`):
  two bytes fold to the same byte iff they are equal or are the upper / lower case form of the same
  ASCII letter. Bytes that merely differ by 0x20 ('[' '{', '@' '`', digits / controls, bytes >= 0x80)
  stay different.
-/
import QlibcModel.ListTbl.Spec

namespace Qlibc.ListTbl
open Qlibc

/-- `isupper` in the C locale -/
def isUpperC (c : UInt8) : Bool := 65 ≤ c && c ≤ 90
theorem toLower_eq (c : UInt8) : toLower c = if isUpperC c then c + 32 else c := rfl
theorem fold_letters (a b : UInt8) :
    toLower a = toLower b ↔ a = b ∨ (isUpperC a = true ∧ b = a + 32) ∨ (isUpperC b = true ∧ a = b + 32) := by
  have key : ∀ x : UInt8, isUpperC x = true → 65 ≤ x.toNat ∧ x.toNat ≤ 90 := by
    intro x hx
    simp only [isUpperC, Bool.and_eq_true, decide_eq_true_eq, UInt8.le_iff_toNat_le] at hx
    exact hx
  have nkey : ∀ x : UInt8, isUpperC x = false → ¬ (65 ≤ x.toNat ∧ x.toNat ≤ 90) := by
    intro x hx h2
    have : isUpperC x = true := by
      simp only [isUpperC, Bool.and_eq_true, decide_eq_true_eq, UInt8.le_iff_toNat_le]
      exact h2
    rw [this] at hx; cases hx
  rw [toLower_eq, toLower_eq]
  cases ha : isUpperC a <;> cases hb : isUpperC b <;> simp only [Bool.false_eq_true, if_false, if_true, false_and, or_false, false_or, true_and]
  · have h1 := nkey a ha; have h2 := key b hb
    constructor
    · intro h; right; exact h
    · rintro (h | h)
      · subst h; rw [ha] at hb; cases hb
      · exact h
  · have h1 := key a ha; have h2 := nkey b hb
    constructor
    · intro h; right; exact h.symm
    · rintro (h | h)
      · subst h; rw [ha] at hb; cases hb
      · exact h.symm
  · have h1 := key a ha; have h2 := key b hb
    constructor
    · intro h
      left
      apply UInt8.toNat_inj.1
      have := congrArg UInt8.toNat h
      simp only [UInt8.toNat_add] at this
      have e32 : (32 : UInt8).toNat = 32 := rfl
      rw [e32] at this
      omega
    · rintro (h | h | h)
      · rw [h]
      · exfalso
        have := congrArg UInt8.toNat h
        simp only [UInt8.toNat_add] at this
        have e32 : (32 : UInt8).toNat = 32 := rfl
        rw [e32] at this
        omega
      · exfalso
        have := congrArg UInt8.toNat h
        simp only [UInt8.toNat_add] at this
        have e32 : (32 : UInt8).toNat = 32 := rfl
        rw [e32] at this
        omega

end Qlibc.ListTbl

/-
  What the public operations of the list table model do to the represented entry list.
-/
import QlibcModel.ListTbl.Walk

namespace Qlibc.ListTbl
open Qlibc

variable (h : Bytes → UInt32)

/-- key filter on entries -/
def keyIs (o : Opts) (k : Bytes) (e : KV) : Bool := eqk o e.1 k

theorem view_eq_dir (t : Tbl) : view t = dir t.opts t.nodes := rfl

theorem dir_map {α β : Type} (o : Opts) (f : α → β) (l : List α) : (dir o l).map f = dir o (l.map f) := by
  unfold dir; split <;> simp

theorem dir_filter {α : Type} (o : Opts) (p : α → Bool) (l : List α) : (dir o l).filter p = dir o (l.filter p) := by
  unfold dir; split <;> simp

theorem dir_inj {α : Type} (o : Opts) {a b : List α} (hab : dir o a = dir o b) : a = b := by
  unfold dir at hab
  split at hab
  · exact hab
  · exact List.reverse_inj.1 hab

theorem mem_dir {α : Type} (o : Opts) (l : List α) (x : α) : x ∈ dir o l ↔ x ∈ l := by
  unfold dir; split <;> simp

theorem find_congr {α : Type} (p q : α → Bool) (l : List α) (hpq : ∀ x ∈ l, p x = q x) : l.find? p = l.find? q := by
  induction l with
  | nil => rfl
  | cons x l ih =>
    rw [List.find?_cons, List.find?_cons, hpq x (List.mem_cons_self ..), ih (fun y hy => hpq y (List.mem_cons_of_mem _ hy))]

/-- on the nodes of a well-formed table the name filter of a walk is key equality -/
theorem filter_match {t : Tbl} (I : Inv h t) (k : Bytes) (l : List Node) (hl : ∀ n ∈ l, n ∈ t.nodes) :
    l.filter (matchP t.opts (some (k, h k))) = l.filter (fun n => keyIs t.opts k n.kv) := by
  apply List.filter_congr
  intro n hn
  simp only [matchP, keyIs, Node.kv]
  exact nameMatch_eq h t.opts (I.hash n (hl n hn)) k

theorem filter_kv (o : Opts) (k : Bytes) (l : List Node) :
    (l.filter (fun n => keyIs o k n.kv)).map Node.kv = (l.map Node.kv).filter (keyIs o k) := by
  rw [List.filter_map]; rfl

/-- the complete walk: every entry in lookup order, or every entry with an equal key -/
theorem walk_all {t : Tbl} (I : Inv h t) :
    ∃ cs, walk t none = .ok cs ∧ cs.map Cursor.kv = dir t.opts (entries t) := by
  obtain ⟨vis, t', hw, hvis, _⟩ := walkRmLoop_ready h none (fun _ => false) (t.nodes.length + 1) t Cursor.zero
    [] (view t) 0 I (ready_zero t) (by rw [view_length]; omega)
  refine ⟨vis.map (·.1), ?_, ?_⟩
  · unfold walk
    rw [walkLoop_eq_walkRm none _ _ _ 0, hw]
  · rw [List.map_map]
    have : (Cursor.kv ∘ fun x : Cursor × Option Bool => x.1) = fun x => x.1.kv := rfl
    rw [this, hvis]
    have hall : (view t).filter (matchP t.opts none) = view t := List.filter_eq_self.2 (fun _ _ => rfl)
    rw [hall, view_eq_dir, dir_map]; rfl

theorem walk_named {t : Tbl} (I : Inv h t) (k : Bytes) :
    ∃ cs, walk t (some (k, h k)) = .ok cs ∧
      cs.map Cursor.kv = (dir t.opts (entries t)).filter (keyIs t.opts k) := by
  obtain ⟨vis, t', hw, hvis, _⟩ := walkRmLoop_ready h (some (k, h k)) (fun _ => false) (t.nodes.length + 1) t
    Cursor.zero [] (view t) 0 I (ready_zero t) (by rw [view_length]; omega)
  refine ⟨vis.map (·.1), ?_, ?_⟩
  · unfold walk
    rw [walkLoop_eq_walkRm _ _ _ _ 0, hw]
  · rw [List.map_map]
    have : (Cursor.kv ∘ fun x : Cursor × Option Bool => x.1) = fun x => x.1.kv := rfl
    rw [this, hvis, filter_match h I k _ (fun n hn => by rw [view_eq_dir] at hn; exact (mem_dir _ _ _).1 hn),
      filter_kv, view_eq_dir, dir_map]
    rfl

/-- getmulti: the values of all entries with an equal key, in lookup order -/
theorem getmulti_eq {t : Tbl} (I : Inv h t) (k : Bytes) :
    getmulti t k (h k) = .ok (((dir t.opts (entries t)).filter (keyIs t.opts k)).map (·.2)) := by
  obtain ⟨cs, hw, hcs⟩ := walk_named h I k
  unfold getmulti
  rw [hw, ← hcs, List.map_map]
  rfl

/-- get: the value of the first entry with an equal key in lookup direction -/
theorem get_eq {t : Tbl} (I : Inv h t) (k : Bytes) :
    get t k (h k) = ((dir t.opts (entries t)).find? (keyIs t.opts k)).map (·.2) := by
  unfold get findobj findFrom
  by_cases hn : t.num = 0
  · have : t.nodes = [] := List.eq_nil_of_length_eq_zero (by rw [← I.num]; exact hn)
    simp [hn, entries, this, dir]
  · rw [if_neg hn]
    have h1 : ((view t).dropWhile (fun n => !nameMatch t.opts n k (h k))).head? =
        (view t).find? (fun n => nameMatch t.opts n k (h k)) := by
      induction view t with
      | nil => rfl
      | cons x l ih =>
        rw [List.dropWhile_cons, List.find?_cons]
        cases hx : nameMatch t.opts x k (h k) <;> simp [ih]
    rw [h1]
    have h2 : (view t).find? (fun n => nameMatch t.opts n k (h k)) =
        (view t).find? (fun n => keyIs t.opts k n.kv) := by
      have hmem : ∀ n ∈ view t, n ∈ t.nodes := fun n hn => by
        rw [view_eq_dir] at hn; exact (mem_dir _ _ _).1 hn
      exact find_congr _ _ _ (fun n hn => nameMatch_eq h t.opts (I.hash n (hmem n hn)) k)
    rw [h2, view_eq_dir, entries, ← dir_map, List.find?_map, Option.map_map]
    rfl

/-- walk (optionally name-filtered) with removal of the returned entries selected by `rm`:
    every entry that was present at the start is visited in lookup order, each `removeobj`
    reports success, and exactly the selected entries are gone afterwards -/
theorem walkRm_eq {t : Tbl} (I : Inv h t) (key : Option (Bytes × UInt32)) (rm : Nat → Bool) :
    ∃ vis t', walkRm t key rm = .ok (vis, t') ∧
      vis.map (·.1.kv) = ((view t).filter (matchP t.opts key)).map Node.kv ∧
      (∀ j (hj : j < vis.length), vis[j].2 = if rm j then some true else none) ∧
      Inv h t' ∧ t'.opts = t.opts ∧ view t' = survivors (matchP t.opts key) rm 0 (view t) := by
  obtain ⟨vis, t', hw, hvis, hfl, It', ho, _, hv⟩ := walkRmLoop_ready h key rm (t.nodes.length + 1) t Cursor.zero
    [] (view t) 0 I (ready_zero t) (by rw [view_length]; omega)
  exact ⟨vis, t', hw, hvis, by simpa using hfl, It', ho, by simpa using hv⟩

/-- remove: returns the number of entries with an equal key and deletes exactly those -/
theorem remove_eq {t : Tbl} (I : Inv h t) (k : Bytes) :
    ∃ t', remove t k (h k) = .ok (((entries t).filter (keyIs t.opts k)).length, t') ∧
      Inv h t' ∧ t'.opts = t.opts ∧ t'.fresh = t.fresh ∧
      t'.nodes = t.nodes.filter (fun n => !keyIs t.opts k n.kv) := by
  obtain ⟨vis, t', hw, hvis, _, It', ho, hfr, hv⟩ := walkRmLoop_ready h (some (k, h k)) (fun _ => true)
    (t.nodes.length + 1) t Cursor.zero [] (view t) 0 I (ready_zero t) (by rw [view_length]; omega)
  have hmem : ∀ n ∈ view t, n ∈ t.nodes := fun n hn => by
    rw [view_eq_dir] at hn; exact (mem_dir _ _ _).1 hn
  refine ⟨t', ?_, It', ho, hfr, ?_⟩
  · unfold remove
    rw [removeLoop_eq_walkRm k (h k) _ _ _ 0 0, hw]
    simp only [Nat.zero_add]
    have hlen : vis.length = ((view t).filter (matchP t.opts (some (k, h k)))).length := by
      have := congrArg List.length hvis
      simpa using this
    rw [hlen, filter_match h I k _ hmem]
    have : ((view t).filter (fun n => keyIs t.opts k n.kv)).length = ((entries t).filter (keyIs t.opts k)).length := by
      rw [← List.length_map (f := Node.kv), filter_kv, view_eq_dir, dir_map, dir_filter]
      unfold dir; split <;> simp [entries]
    rw [this]
  · rw [survivors_all] at hv
    have h3 : (view t).filter (fun n => !matchP t.opts (some (k, h k)) n) =
        (view t).filter (fun n => !keyIs t.opts k n.kv) := by
      apply List.filter_congr
      intro n hn
      simp only [matchP, keyIs, Node.kv]
      rw [nameMatch_eq h t.opts (I.hash n (hmem n hn)) k]
    rw [List.nil_append, h3, view_eq_dir, view_eq_dir, ho, dir_filter] at hv
    exact dir_inj _ hv

/-! ### put -/

theorem inv_link {t : Tbl} (I : Inv h t) (obj : Node) (hh : obj.hash = h obj.name) (hd : obj.data ≠ [])
    (hid : ∀ n ∈ t.nodes, n.id ≠ obj.id) (hb : obj.id < t.fresh) :
    Inv h (link t obj) ∧ (link t obj).opts = t.opts ∧
      entries (link t obj) = if t.opts.insertTop then obj.kv :: entries t else entries t ++ [obj.kv] := by
  have hnodes : (link t obj).nodes = if t.opts.insertTop then obj :: t.nodes else t.nodes ++ [obj] := by
    unfold link
    simp only []
    by_cases hn : t.num = 0
    · have : t.nodes = [] := List.eq_nil_of_length_eq_zero (by rw [← I.num]; exact hn)
      rw [if_pos hn, this]
      split <;> rfl
    · rw [if_neg hn]
  have hmem : ∀ x, x ∈ (link t obj).nodes → x = obj ∨ x ∈ t.nodes := by
    intro x hx
    rw [hnodes] at hx
    split at hx
    · exact List.mem_cons.1 hx
    · rcases List.mem_append.1 hx with h1 | h1
      · exact Or.inr h1
      · exact Or.inl (by simpa using h1)
  have hnot : obj.id ∉ t.nodes.map (·.id) := by
    intro hm
    obtain ⟨n, hn, he⟩ := List.mem_map.1 hm
    exact hid n hn he
  refine ⟨⟨?_, ?_, ?_, ?_, ?_⟩, rfl, ?_⟩
  · rw [hnodes]
    have : (link t obj).num = t.num + 1 := rfl
    rw [this, I.num]
    split <;> simp
  · intro x hx
    rcases hmem x hx with rfl | h1
    · exact hh
    · exact I.hash x h1
  · intro x hx
    rcases hmem x hx with rfl | h1
    · exact hd
    · exact I.data x h1
  · rw [hnodes]
    split
    · rw [List.map_cons]
      exact List.nodup_cons.2 ⟨hnot, I.ids⟩
    · rw [List.map_append]
      refine List.nodup_append.2 ⟨I.ids, by simp, ?_⟩
      intro a ha b hb hab
      simp only [List.map_cons, List.map_nil, List.mem_singleton] at hb
      exact hnot (by rw [← hb, ← hab]; exact ha)
  · intro x hx
    have hf : (link t obj).fresh = t.fresh := rfl
    rw [hf]
    rcases hmem x hx with rfl | h1
    · exact hb
    · exact I.below x h1
  · unfold entries
    rw [hnodes]
    split <;> simp

/-- put: (after deleting all entries with an equal key when the table is unique) the new entry is
    appended at the bottom, or prepended when the table inserts at the top -/
theorem put_eq {t : Tbl} (I : Inv h t) (k v : Bytes) (hv : v ≠ []) :
    ∃ t', put t k (h k) v = .ok (true, t') ∧ Inv h t' ∧ t'.opts = t.opts ∧
      entries t' =
        (if t.opts.insertTop
          then (k, v) :: (if t.opts.unique then (entries t).filter (fun e => !keyIs t.opts k e) else entries t)
          else (if t.opts.unique then (entries t).filter (fun e => !keyIs t.opts k e) else entries t) ++ [(k, v)]) := by
  have hlen : ¬ v.length = 0 := fun h0 => hv (List.eq_nil_of_length_eq_zero h0)
  have I1 : Inv h { t with fresh := t.fresh + 1 } :=
    ⟨I.num, I.hash, I.data, I.ids, fun n hn => Nat.lt_succ_of_lt (I.below n hn)⟩
  unfold put
  rw [if_neg hlen]
  simp only []
  cases hu : t.opts.unique with
  | false =>
    simp only [Bool.false_eq_true, if_false]
    obtain ⟨J, ho, he⟩ := inv_link h I1 { id := t.fresh, hash := h k, name := k, data := v } rfl hv
      (fun n hn => Nat.ne_of_lt (I.below n hn)) (Nat.lt_succ_self _)
    exact ⟨_, rfl, J, ho, he⟩
  | true =>
    simp only [if_true]
    obtain ⟨t2, hr, I2, ho2, hf2, hn2⟩ := remove_eq h I1 k
    rw [hr]
    simp only []
    have hsub : ∀ n ∈ t2.nodes, n ∈ t.nodes := by
      intro n hn
      rw [hn2] at hn
      exact (List.mem_filter.1 hn).1
    obtain ⟨J, ho, he⟩ := inv_link h I2 { id := t.fresh, hash := h k, name := k, data := v } rfl hv
      (fun n hn => Nat.ne_of_lt (I.below n (hsub n hn))) (by rw [hf2]; exact Nat.lt_succ_self _)
    refine ⟨_, rfl, J, by rw [ho, ho2], ?_⟩
    rw [he, ho2]
    have : entries t2 = (entries t).filter (fun e => !keyIs t.opts k e) := by
      unfold entries
      rw [hn2, List.filter_map]
      rfl
    rw [this]
    rfl

theorem size_eq {t : Tbl} (I : Inv h t) : size t = (entries t).length := by
  simp [size, entries, I.num]

theorem inv_init (o : Opts) : Inv h (init o) :=
  ⟨rfl, fun _ hn => (by cases hn), fun _ hn => (by cases hn), List.nodup_nil, fun _ hn => (by cases hn)⟩

theorem inv_clear {t : Tbl} : Inv h (clear t) :=
  ⟨rfl, fun _ hn => (by cases hn), fun _ hn => (by cases hn), List.nodup_nil, fun _ hn => (by cases hn)⟩

end Qlibc.ListTbl

#!/usr/bin/env python3
"""Confirm a seeded mutation and run the registered checks against it.

    python3 seedtest.py /tmp/seed_C16/out/m1 [--checks C16,C17] [--keep-name C16-m1]

1. confirm (in a scratch worktree of /repo's HEAD, removed afterwards): the patch applies, the
   library + the ten unit tests build and pass WITH the mutation, the demonstration passes
   without and fails with it;
2. apply the patch to /repo, run the quick check(s), undo it (git checkout -- .), re-run the
   check(s) on the clean tree (restores regenerated files, must be green);
3. store patch, demo and an augmented meta.json under /verif/seeded/<name>/.
"""
import argparse, glob, json, os, shutil, subprocess, sys, tempfile, time

ROOT = os.path.dirname(os.path.abspath(__file__))
REPO = "/repo"
TESTS = ["test_qstring", "test_qhashtbl", "test_qhasharr", "test_qhasharr_darkdh", "test_qtreetbl",
         "test_qlist", "test_qvector", "test_qqueue", "test_qstack", "test_qhash"]


def sh(cmd, **kw):
    return subprocess.run(cmd, capture_output=True, text=True, **kw)


def lib_sources(r):
    out = []
    for g in ["src/containers/*.c", "src/utilities/*.c", "src/internal/*.c", "src/internal/md5/*.c", "src/ipc/*.c",
              "src/extensions/qconfig.c", "src/extensions/qaconf.c", "src/extensions/qlog.c"]:
        out += sorted(glob.glob(os.path.join(r, g)))
    return out


def build(r, src, out, san=True, extra=()):
    flags = ["-std=gnu99", "-g", "-O1", "-w"] + (["-fsanitize=address,undefined", "-fno-sanitize-recover=all"] if san else [])
    cmd = ["gcc"] + flags + ["-I%s/include/qlibc" % r, "-I%s/include" % r, "-I%s/src/internal" % r, src] + \
        lib_sources(r) + ["-lpthread", "-o", out] + list(extra)
    return sh(cmd)


def demo_extra_flags(demo):
    """honour -Wl,--wrap=... and similar flags named in the demo's header comment"""
    head = open(demo, errors="replace").read(4000)
    extra = []
    for tok in head.replace("\\\n", " ").split():
        if tok.startswith("-Wl,--wrap=") or tok in ("-lm", "-ldl"):
            if tok not in extra:
                extra.append(tok)
    return extra


def run_demo(r, mdir, workdir, tag):
    demo = os.path.join(mdir, "demo.c")
    if not os.path.exists(demo):
        return None, "no demo.c"
    exe = os.path.join(workdir, "demo_" + tag)
    # a demo whose own build command (header comment) has no -fsanitize is meant to run plain
    # (multi-GiB inputs): honour that
    head = open(demo, errors="replace").read(6000)
    san = ("-fsanitize" in head) or ("gcc" not in head)
    b = build(r, demo, exe, san=san, extra=demo_extra_flags(demo))
    if b.returncode != 0:
        return None, "demo does not build: " + b.stderr[-400:]
    env = dict(os.environ, ASAN_OPTIONS="detect_leaks=1", UBSAN_OPTIONS="halt_on_error=1")
    try:
        p = subprocess.run([exe], capture_output=True, text=True, errors="replace", timeout=900, cwd=workdir, env=env)
        return p.returncode, (p.stdout + p.stderr)[-300:]
    except subprocess.TimeoutExpired:
        return 124, "timeout"


def main():
    ap = argparse.ArgumentParser()
    ap.add_argument("mdir")
    ap.add_argument("--checks")
    ap.add_argument("--keep-name")
    ap.add_argument("--skip-tests", action="store_true")
    ap.add_argument("--tier", default="quick")
    ap.add_argument("--isolated", action="store_true",
                    help="run the checks of THIS copy of /verif against a private worktree (VERIF_REPO) instead of "
                         "patching /repo: several confirmations can then run side by side, one per copy of /verif")
    a = ap.parse_args()
    mdir = os.path.abspath(a.mdir)
    meta = json.load(open(os.path.join(mdir, "meta.json")))
    prop = meta.get("property") or os.path.basename(os.path.dirname(os.path.dirname(mdir))).replace("seed_", "")
    name = a.keep_name or "%s-%s" % (prop, os.path.basename(mdir))
    checks = (a.checks.split(",") if a.checks else [prop])
    patch = os.path.join(mdir, "patch.diff")
    res = {"name": name, "property": prop, "checks_run": checks, "tier": a.tier}

    # ---- 1. confirm in a scratch worktree
    work = tempfile.mkdtemp(prefix="seedtest.")
    wt = os.path.join(work, "repo")
    try:
        assert sh(["git", "-C", REPO, "worktree", "add", "--detach", wt, "HEAD"]).returncode == 0
        rc_clean, out_clean = run_demo(wt, mdir, work, "clean")
        ap_ = sh(["git", "-C", wt, "apply", patch])
        res["patch_applies_to_head"] = ap_.returncode == 0
        if ap_.returncode != 0:
            res["apply_error"] = ap_.stderr[-300:]
            print(json.dumps(res, indent=1)); return 2
        rc_mut, out_mut = run_demo(wt, mdir, work, "mut")
        res["demo_clean_rc"], res["demo_mutated_rc"] = rc_clean, rc_mut
        res["demo_mutated_tail"] = out_mut
        tests = {}
        if not a.skip_tests:
            for f in glob.glob(os.path.join(wt, "tests", "*.bin")):
                shutil.copy(f, work)

            def one(t):
                exe = os.path.join(work, t)
                b = build(wt, os.path.join(wt, "tests", t + ".c"), exe, san=False)
                if b.returncode != 0:
                    return t, "build-failed"
                try:
                    p = subprocess.run([exe], capture_output=True, text=True, errors="replace", timeout=900, cwd=work)
                    return t, ("pass" if p.returncode == 0 else "FAIL rc=%d" % p.returncode)
                except subprocess.TimeoutExpired:
                    return t, "timeout"
            from concurrent.futures import ThreadPoolExecutor
            with ThreadPoolExecutor(max_workers=10) as ex:
                tests = dict(ex.map(one, TESTS))
        res["unit_tests_with_mutation"] = tests
    finally:
        sh(["git", "-C", REPO, "worktree", "remove", "--force", wt])
        shutil.rmtree(work, ignore_errors=True)
    res["confirmed"] = (res.get("demo_clean_rc") == 0 and res.get("demo_mutated_rc") not in (0, None)
                        and all(v == "pass" for v in res["unit_tests_with_mutation"].values()))

    # ---- 2. run the checks against the mutated /repo (or, --isolated, against a private worktree)
    target, env = REPO, dict(os.environ)
    iso = None
    if a.isolated:
        iso = tempfile.mkdtemp(prefix="seediso.")
        target = os.path.join(iso, "repo")
        assert sh(["git", "-C", REPO, "worktree", "add", "--detach", target, "HEAD"]).returncode == 0
        env["VERIF_REPO"] = target
        res["isolated"] = "checks of a private copy of /verif run with VERIF_REPO=<scratch worktree>"
    assert sh(["git", "-C", target, "status", "--porcelain", "--untracked-files=no"]).stdout.strip() == "", "target not clean"
    assert sh(["git", "-C", target, "apply", patch]).returncode == 0
    det = {}
    try:
        for c in checks:
            t0 = time.time()
            p = sh(["python3", "check.py", c, "--tier", a.tier], cwd=ROOT, env=env)
            vio = [l for l in p.stdout.splitlines() if l.startswith("VIOLATION")]
            notes = [l.strip() for l in p.stderr.splitlines() if "violation:" in l or "corr:" in l or "proof:" in l][:4]
            det[c] = {"exit": p.returncode, "violations": vio[:3], "n_violations": len(vio), "notes": [n[:300] for n in notes],
                      "wall_s": round(time.time() - t0, 1)}
    finally:
        sh(["git", "-C", target, "checkout", "--", "."])
    res["checks_on_mutated_tree"] = det
    res["detected"] = any(d["exit"] != 0 for d in det.values())
    res["detected_with_failing_input"] = any(d["exit"] != 0 and any("no-failing-input-found" not in v for v in d["violations"]) for d in det.values())
    clean = {}
    for c in checks:
        p = sh(["python3", "check.py", c, "--tier", "quick"], cwd=ROOT, env=env)
        clean[c] = p.returncode
    if iso:
        sh(["git", "-C", REPO, "worktree", "remove", "--force", target])
        shutil.rmtree(iso, ignore_errors=True)
    res["checks_on_clean_tree_after_revert"] = clean

    # ---- 3. store
    dst = os.path.join(ROOT, "seeded", name)
    os.makedirs(dst, exist_ok=True)
    shutil.copy(patch, os.path.join(dst, "patch.diff"))
    for f in glob.glob(os.path.join(mdir, "demo*")):
        shutil.copy(f, dst)
    meta.update({"confirmation": res})
    json.dump(meta, open(os.path.join(dst, "meta.json"), "w"), indent=1)
    print(json.dumps({k: res[k] for k in ("name", "confirmed", "detected", "detected_with_failing_input")}, indent=None),
          {c: (d["exit"], d["n_violations"], d["notes"][:1]) for c, d in det.items()})
    return 0


if __name__ == "__main__":
    sys.exit(main())

"""Facts that are data in src/containers/qvector.c, extracted by regex over the function bodies and
emitted as lean/QlibcModel/Generated/VectorPrims.lean:
  * which libc primitive remove_at() uses for the (overlapping) tail shift;
  * how the constructor resolves the growth-policy bits of the option word (what vector->options
    starts from, the order of the if / else-if tests, which branch prepares initnum) and, as a
    separate fact, the order of the tests and the capacity formulas of qvector_addat()'s growth
    block. The model is assembled from both; that they agree for every option word is a theorem
    (Props/C10.lean capacity_grows_every_option_word), re-checked whenever the facts change.
An unrecognised shape raises SystemExit (the check keeps the previous facts and relies on the
correspondence run)."""
import os, re, sys


def function_body(text, header_re):
    m = re.search(header_re, text)
    if not m:
        raise SystemExit("vecprims: function header not found: " + header_re)
    i = text.index("{", m.end() - 1)
    depth, j = 0, i
    while j < len(text):
        if text[j] == "{":
            depth += 1
        elif text[j] == "}":
            depth -= 1
            if depth == 0:
                return text[i:j + 1]
        j += 1
    raise SystemExit("vecprims: unbalanced braces")


def strip_c_comments(text):
    text = re.sub(r"/\*.*?\*/", " ", text, flags=re.S)
    return re.sub(r"//[^\n]*", " ", text)


BITS = {"QVECTOR_THREADSAFE": 1, "QVECTOR_RESIZE_DOUBLE": 2, "QVECTOR_RESIZE_LINEAR": 4, "QVECTOR_RESIZE_EXACT": 8}
FORMULAS = {"(vector->max+1)*2": "double", "vector->max+vector->initnum": "linear", "vector->max+1": "exact"}


def block_at(text, i):
    """text[i] == '{': returns (inside, index after the closing brace)"""
    depth, j = 0, i
    while j < len(text):
        if text[j] == "{":
            depth += 1
        elif text[j] == "}":
            depth -= 1
            if depth == 0:
                return text[i + 1:j], j + 1
        j += 1
    raise SystemExit("vecprims: unbalanced braces")


def if_chain(text, start, subject):
    """parse `if (<subject> & BIT) {..} else if (<subject> & BIT) {..} ... [else {..}]` beginning at
    or after `start`; returns ([(bitname, body)], else_body or None)"""
    head = re.compile(r"if\s*\(\s*" + subject + r"\s*&\s*(QVECTOR_RESIZE_\w+)\s*\)\s*\{")
    m = head.search(text, start)
    if not m:
        raise SystemExit("vecprims: no policy test on %s found" % subject)
    chain, els = [], None
    while True:
        body, end = block_at(text, m.end() - 1)
        chain.append((m.group(1), body))
        m2 = re.compile(r"\s*else\s+").match(text, end)
        if not m2:
            break
        m3 = head.match(text, m2.end())
        if m3:
            m = m3
            continue
        m4 = re.compile(r"\{").match(text, m2.end())
        if not m4:
            raise SystemExit("vecprims: unrecognised else branch in the policy chain")
        els, _ = block_at(text, m4.start())
        break
    return chain, els


def extract_policy(src):
    """the constructor's resolution of the policy bits and addat's growth rule, as two separate facts"""
    # ---- qvector(): what vector->options starts from, the if/else-if chain, where initnum is set
    ctor = function_body(src, r"qvector_t\s*\*\s*qvector\s*\(\s*size_t\s+max\s*,\s*size_t\s+objsize\s*,\s*int\s+options\s*\)\s*\{")
    m = re.search(r"vector->options\s*=\s*(\w+)\s*;", ctor)
    if not m or m.group(1) not in ("0", "options"):
        raise SystemExit("vecprims: qvector() does not initialise vector->options with 0 or options")
    raw = m.group(1) == "options"
    chain, els = if_chain(ctor, m.end(), "options")

    def branch(body):
        ors = re.findall(r"vector->options\s*\|=\s*(QVECTOR_RESIZE_\w+)\s*;", body)
        if len(ors) != 1:
            raise SystemExit("vecprims: a branch of qvector()'s policy chain does not OR in exactly one policy bit")
        sets_init = "vector->initnum" in body
        if sets_init:
            flat = re.sub(r"\s+", "", body)
            ok = ("if(max==0){vector->initnum=1;}else{vector->initnum=max;}" in flat
                  or "vector->initnum=(max==0)?1:max;" in flat or "vector->initnum=max==0?1:max;" in flat)
            if not ok:
                raise SystemExit("vecprims: unrecognised initnum computation in qvector()")
        return BITS[ors[0]], sets_init
    ctor_chain = [(BITS[b],) + branch(body) for b, body in chain]
    if els is None:
        raise SystemExit("vecprims: qvector()'s policy chain has no else branch")
    ctor_else = branch(els)
    # ---- qvector_addat(): the growth block
    addat = function_body(src, r"bool\s+qvector_addat\s*\(\s*qvector_t\s*\*\s*vector\s*,\s*int\s+index\s*,\s*const\s+void\s*\*\s*data\s*\)\s*\{")
    m = re.search(r"if\s*\(\s*vector->num\s*>=\s*vector->max\s*\)\s*\{", addat)
    if not m:
        raise SystemExit("vecprims: qvector_addat() has no `if (vector->num >= vector->max)` block")
    grow, _ = block_at(addat, m.end() - 1)
    init = re.search(r"size_t\s+newmax\s*(?:=\s*([^;]+))?;", grow)
    if not init:
        raise SystemExit("vecprims: growth block does not declare newmax")

    def formula(body):
        asg = re.findall(r"newmax\s*=\s*([^;]+);", body)
        if len(asg) != 1 or re.sub(r"\s+", "", asg[0]) not in FORMULAS:
            raise SystemExit("vecprims: unrecognised capacity formula in the growth block: %r" % asg)
        return FORMULAS[re.sub(r"\s+", "", asg[0])]
    gchain, gels = if_chain(grow, init.end(), r"vector->options")
    grow_chain = [(BITS[b], formula(body)) for b, body in gchain]
    if gels is not None:
        grow_default = formula(gels)
    elif init.group(1) and re.sub(r"\s+", "", init.group(1)) in FORMULAS:
        grow_default = FORMULAS[re.sub(r"\s+", "", init.group(1))]
    else:
        raise SystemExit("vecprims: growth block has neither an else branch nor an initialised newmax")
    return {"ctorRaw": raw, "ctorChain": ctor_chain, "ctorElse": ctor_else, "growChain": grow_chain, "growDefault": grow_default}


def extract(repo):
    src = strip_c_comments(open(os.path.join(repo, "src/containers/qvector.c")).read())
    body = function_body(src, r"static\s+bool\s+remove_at\s*\(\s*qvector_t\s*\*\s*vector\s*,\s*int\s+index\s*\)\s*\{")
    calls = re.findall(r"\b(memcpy|memmove)\s*\(\s*dst\s*,\s*src\s*,\s*size\s*\)", body)
    if len(calls) != 1:
        raise SystemExit("vecprims: expected exactly one memcpy/memmove(dst, src, size) in remove_at, found %r" % calls)
    other = [c for c in re.findall(r"\b(\w+)\s*\(", body) if c not in ("memcpy", "memmove", "if", "sizeof")]
    if other:
        raise SystemExit("vecprims: remove_at calls something unexpected: %r" % other)
    facts = {"removeAt": calls[0]}
    facts.update(extract_policy(src))
    return facts


def lean_bool(b):
    return "true" if b else "false"


def render(facts):
    ctor = ", ".join("(%d, %d, %s)" % (t, o, lean_bool(i)) for t, o, i in facts["ctorChain"])
    grow = ", ".join("(%d, .%s)" % (t, k) for t, k in facts["growChain"])
    return ("/- generated by translator/vecprims.py from src/containers/qvector.c -- do not edit -/\n"
            "import QlibcModel.Seq.CopyPrim\n"
            "namespace Qlibc.Generated\n"
            "open Qlibc.Seq\n\n"
            "/-- the primitive `remove_at` calls to shift the tail down by one slot -/\n"
            "def removeAtPrim : CopyPrim := .%s\n\n"
            "/-- qvector(): `vector->options = options` (true) or `= 0` (false) in front of the policy chain -/\n"
            "def ctorStoresRaw : Bool := %s\n\n"
            "/-- qvector(): the `if (options & BIT) … else if …` chain in source order:\n"
            "    (bit tested, bit ORed into vector->options, branch sets initnum = max == 0 ? 1 : max) -/\n"
            "def ctorChain : List (Nat × Nat × Bool) := [%s]\n\n"
            "/-- qvector(): the final `else` of that chain: (bit ORed in, sets initnum) -/\n"
            "def ctorElse : Nat × Bool := (%d, %s)\n\n"
            "/-- qvector_addat(): the `if (vector->options & BIT) newmax = …` chain of the growth block in\n"
            "    source order: (bit tested, capacity formula) -/\n"
            "def growChain : List (Nat × GrowKind) := [%s]\n\n"
            "/-- qvector_addat(): the formula when no test of the chain fires -/\n"
            "def growDefault : GrowKind := .%s\n\n"
            "end Qlibc.Generated\n" % (facts["removeAt"], lean_bool(facts["ctorRaw"]), ctor,
                                       facts["ctorElse"][0], lean_bool(facts["ctorElse"][1]), grow, facts["growDefault"]))


if __name__ == "__main__":
    print(render(extract(sys.argv[1] if len(sys.argv) > 1 else "/repo")), end="")

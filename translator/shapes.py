#!/usr/bin/env python3
"""K-gen translator: "shape facts" of the current headers and sources that the models take for
granted and that no operation history of practical size can exhibit:

* widths (sizeof, in bytes) of the size / count / index / epoch fields of the public structs - the
  models use unbounded naturals for them, which is exact only while the C field is as wide as the
  model assumes (a `size_t namesize` narrowed to `uint32_t` changes nothing below 4 GiB);
* writable static storage (function-local statics, file-scope statics, globals: the symbols an
  object file defines in .data/.bss) of the library sources - the models treat the parsers, encoders, hash and string functions (and the formatting macro used by
  the containers) as functions of their arguments, which a hidden static buffer breaks only when two
  threads are inside at once.

* the formatting macro DYNAMIC_VSPRINTF of src/internal/qinternal.h (behind qstrdupf / qstrcatf, the
  putstrf of the containers, qaconf's error message and qconfig's `section.key` names): the size of
  the first block, the factor of the `*=` growth step (0 when the step has another form) and the
  blank-normalised text of the whole macro - the models transcribe "1024, doubled until the text
  fits with its terminator"; a rewrite that stops fitting only for some exact lengths (a hang)
  passes every test that does not hit such a length.

Emits lean/QlibcModel/Generated/Shapes.lean; the obligations are in lean/QlibcModel/Shapes/*.lean
(one small module per family so that a change alarms only the checks of that family)."""
import os, re, subprocess, sys, tempfile

FIELDS = [
    # family, name, C expression whose sizeof is taken
    ("tree", "obj_namesize", "((qtreetbl_obj_t*)0)->namesize"), ("tree", "obj_datasize", "((qtreetbl_obj_t*)0)->datasize"),
    ("tree", "obj_tid", "((qtreetbl_obj_t*)0)->tid"), ("tree", "tbl_tid", "((qtreetbl_t*)0)->tid"), ("tree", "tbl_num", "((qtreetbl_t*)0)->num"),
    ("hashtbl", "obj_hash", "((qhashtbl_obj_t*)0)->hash"), ("hashtbl", "obj_size", "((qhashtbl_obj_t*)0)->size"),
    ("hashtbl", "tbl_num", "((qhashtbl_t*)0)->num"), ("hashtbl", "tbl_range", "((qhashtbl_t*)0)->range"),
    ("listtbl", "obj_hash", "((qlisttbl_obj_t*)0)->hash"), ("listtbl", "obj_size", "((qlisttbl_obj_t*)0)->size"),
    ("listtbl", "tbl_num", "((qlisttbl_t*)0)->num"), ("listtbl", "data_size", "((qlisttbl_data_t*)0)->size"),
    ("seq", "list_obj_size", "((qlist_obj_t*)0)->size"), ("seq", "list_num", "((qlist_t*)0)->num"), ("seq", "list_max", "((qlist_t*)0)->max"),
    ("seq", "list_datasum", "((qlist_t*)0)->datasum"),
    ("seq", "vector_num", "((qvector_t*)0)->num"), ("seq", "vector_max", "((qvector_t*)0)->max"), ("seq", "vector_objsize", "((qvector_t*)0)->objsize"),
    ("seq", "vector_initnum", "((qvector_t*)0)->initnum"), ("seq", "vector_obj_index", "((qvector_obj_t*)0)->index"),
    ("harr", "slot_count", "((qhasharr_slot_t*)0)->count"), ("harr", "slot_hash", "((qhasharr_slot_t*)0)->hash"),
    ("harr", "slot_datasize", "((qhasharr_slot_t*)0)->datasize"), ("harr", "slot_link", "((qhasharr_slot_t*)0)->link"),
    ("harr", "pair_namesize", "((qhasharr_slot_t*)0)->data.pair.namesize"),
    ("harr", "hdr_maxslots", "((qhasharr_data_t*)0)->maxslots"), ("harr", "hdr_usedslots", "((qhasharr_data_t*)0)->usedslots"),
    ("harr", "hdr_num", "((qhasharr_data_t*)0)->num"),
    ("conf", "aconf_lineno", "((qaconf_t*)0)->lineno"), ("conf", "cbdata_level", "((qaconf_cbdata_t*)0)->level"),
    ("conf", "cbdata_section", "((qaconf_cbdata_t*)0)->section"), ("conf", "cbdata_argc", "((qaconf_cbdata_t*)0)->argc"),
    ("conf", "option_take", "((qaconf_option_t*)0)->take"), ("conf", "option_sectionid", "((qaconf_option_t*)0)->sectionid"),
]

# which preprocessed sources belong to which family (function-local mutable statics)
SOURCES = {
    "tree": ["src/containers/qtreetbl.c"], "hashtbl": ["src/containers/qhashtbl.c"], "listtbl": ["src/containers/qlisttbl.c"],
    "seq": ["src/containers/qlist.c", "src/containers/qqueue.c", "src/containers/qstack.c", "src/containers/qgrow.c", "src/containers/qvector.c"],
    "harr": ["src/containers/qhasharr.c"],
    "conf": ["src/extensions/qconfig.c", "src/extensions/qaconf.c", "src/internal/qinternal.c"],
    "encode": ["src/utilities/qencode.c", "src/internal/qinternal.c"],
    "hash": ["src/utilities/qhash.c", "src/internal/md5/md5c.c"],
    "str": ["src/utilities/qstring.c"],
}
FAMILIES = ["tree", "hashtbl", "listtbl", "seq", "harr", "conf", "encode", "hash", "str"]


def die(msg):
    raise SystemExit("translator/shapes.py: " + msg)


def incl(repo):
    return ["-I", os.path.join(repo, "include/qlibc"), "-I", os.path.join(repo, "include"), "-I", os.path.join(repo, "src/internal")]


def widths(repo):
    prog = ['#include <stdio.h>', '#include <stddef.h>', '#include <stdbool.h>', '#include <stdint.h>', '#include "qlibc.h"',
            '#include "extensions/qaconf.h"', 'int main(void) {']
    for fam, name, expr in FIELDS:
        prog.append('  printf("%s %s %%zu\\n", sizeof(%s));' % (fam, name, expr))
    prog += ['  return 0;', '}']
    with tempfile.TemporaryDirectory(prefix="shapes_") as d:
        src, exe = os.path.join(d, "w.c"), os.path.join(d, "w")
        open(src, "w").write("\n".join(prog) + "\n")
        r = subprocess.run(["gcc", "-std=gnu99"] + incl(repo) + [src, "-o", exe], capture_output=True, text=True)
        if r.returncode != 0:
            die("the width program does not compile against the current headers:\n" + r.stderr[:1500])
        out = subprocess.run([exe], capture_output=True, text=True, check=True).stdout
    res = {}
    for line in out.splitlines():
        fam, name, v = line.split()
        res.setdefault(fam, []).append((name, int(v)))
    return res


def statics_of(repo, rel):
    """writable static storage of one translation unit, whatever its syntax (function-local statics,
    file-scope statics, globals): the symbols its object file defines in .data / .bss / common"""
    path = os.path.join(repo, rel)
    with tempfile.TemporaryDirectory(prefix="shapes_") as d:
        obj = os.path.join(d, "u.o")
        r = subprocess.run(["gcc", "-c", "-O1", "-std=gnu99", "-w"] + incl(repo) + [path, "-o", obj], capture_output=True, text=True)
        if r.returncode != 0:
            die("cannot compile %s:\n%s" % (rel, r.stderr[:800]))
        nm = subprocess.run(["nm", "--defined-only", obj], capture_output=True, text=True)
        if nm.returncode != 0:
            die("nm failed on %s" % rel)
    out = []
    for line in nm.stdout.splitlines():
        f = line.split()
        if len(f) == 3 and f[1] in "dDbBcCsSgG":
            out.append(re.sub(r"\.\d+$", "", f[2]))         # function-local statics carry a numeric suffix
    return sorted(out)


def fmt_macro(repo):
    """(initial size, growth factor, normalised text) of DYNAMIC_VSPRINTF in the current header"""
    src = open(os.path.join(repo, "src/internal/qinternal.h")).read()
    m = re.search(r"^#define\s+DYNAMIC_VSPRINTF\b(.*?[^\\])$", src.replace("\\\n", "\x01"), re.M | re.S)
    if not m:
        die("DYNAMIC_VSPRINTF not found in src/internal/qinternal.h")
    text = " ".join(m.group(1).replace("\x01", " ").split())
    loop = re.search(r"for\s*\(\s*(\w+)\s*=\s*(\d+)\s*;\s*;\s*(\w+)\s*\*=\s*(\d+)\s*\)", text)
    if loop and loop.group(1) == loop.group(3):
        init, grow = int(loop.group(2)), int(loop.group(4))
    else:
        m0 = re.search(r"=\s*(\d+)\s*;", text)
        init, grow = (int(m0.group(1)) if m0 else 0), 0
    return {"init": init, "grow": grow, "text": text}




def asserts_of(repo, rel):
    """the argument texts of the assert() calls of one source file (blank-normalised): under -DNDEBUG -
    the project's release build - they are not evaluated, so they must be free of side effects; the
    expected texts are reviewed by hand in lean/QlibcModel/Shapes/*.lean"""
    src = open(os.path.join(repo, rel), errors="replace").read()
    src = re.sub(r"/\*.*?\*/", " ", src, flags=re.S)
    src = re.sub(r"//[^\n]*", " ", src)
    out = []
    for m in re.finditer(r"\bassert\s*\(", src):
        i, depth = m.end(), 1
        while i < len(src) and depth:
            depth += {"(": 1, ")": -1}.get(src[i], 0)
            i += 1
        out.append(" ".join(src[m.end():i - 1].split())[:160])
    return out


def extract(repo):
    w = widths(repo)
    st = {}
    for fam in FAMILIES:
        acc = []
        for rel in SOURCES[fam]:
            acc += [(os.path.basename(rel), d) for d in statics_of(repo, rel)]
        st[fam] = acc
    asr = {}
    for fam in FAMILIES:
        acc = []
        for rel in SOURCES[fam]:
            acc += [(os.path.basename(rel), a) for a in asserts_of(repo, rel)]
        asr[fam] = acc
    return {"widths": w, "statics": st, "asserts": asr, "fmt": fmt_macro(repo)}


def lstr(s):
    return '"' + s.replace("\\", "\\\\").replace('"', '\\"') + '"'


def render(d):
    L = ["/- GENERATED by translator/shapes.py from the current headers (sizeof of struct fields, printed by a",
         "   C program compiled against them) and the preprocessed sources (function-local non-const statics)",
         "   - do not edit. -/", "namespace Qlibc.Generated.Shapes", ""]
    for fam in FAMILIES:
        ws = d["widths"].get(fam, [])
        L.append("/-- sizeof, in bytes, of the size / count / index fields the %s models take as unbounded -/" % fam)
        L.append("def %sWidths : List (String × Nat) := [%s]" % (fam, ", ".join("(%s, %d)" % (lstr(n), v) for n, v in ws)))
        L.append("/-- writable static storage (symbols in .data/.bss) defined by the sources of this family -/")
        L.append("def %sStatics : List (String × String) := [%s]" % (fam, ", ".join("(%s, %s)" % (lstr(f), lstr(x)) for f, x in d["statics"][fam])))
        L.append("/-- argument texts of the assert() calls in the sources of this family (not evaluated under -DNDEBUG) -/")
        L.append("def %sAsserts : List (String × String) := [%s]" % (fam, ", ".join("(%s, %s)" % (lstr(f), lstr(x)) for f, x in d["asserts"][fam])))
        L.append("")
    f = d["fmt"]
    L.append("/-- DYNAMIC_VSPRINTF (src/internal/qinternal.h): size of the first block, factor of the `*=` step of the")
    L.append("    retry loop (0: the step has another form), blank-normalised text of the macro -/")
    L.append("def fmtInitSize : Nat := %d" % f["init"])
    L.append("def fmtGrowFactor : Nat := %d" % f["grow"])
    L.append("def fmtMacroText : String := %s" % lstr(f["text"]))
    L.append("")
    L.append("end Qlibc.Generated.Shapes")
    return "\n".join(L) + "\n"


if __name__ == "__main__":
    print(render(extract(sys.argv[1] if len(sys.argv) > 1 else "/repo")))

"""K-gen translator: lock skeleton (control-flow graph with lock/unlock/access/write/call/alloc/return
events) of every public function of the lockable containers, from clang-14's typed JSON AST.

    python3 -m translator.lockcfg [repo]        # prints a report, writes nothing
    lockcfg.extract(repo) -> Result             # used by checks/c14.py, checks/c13.py
    lockcfg.render_cfg(result), lockcfg.render_certs(result)  -> Lean source text

The AST is taken with the ANALYSIS-ONLY header translator/lockshim.h, which turns the four
Q_MUTEX_* macros of src/internal/qinternal.h into calls of marker functions; the translator maps

    __verif_mutex_enter(m)  -> event lock          __verif_mutex_leave(m)   -> event unlock
    __verif_mutex_new(r)    -> event alloc         __verif_mutex_destroy(m) -> event call

A function of the analysed files whose whole body is one ENTER (resp. LEAVE) marker -- qlist_lock,
qvector_unlock, ... -- is itself a primitive: a call to it, directly or through the method table
(`tbl->lock(tbl)`), is the event lock (resp. unlock).  Every other call to a function defined in the
analysed files is INLINED (across files: qqueue -> qlist), through the method table as well (the
targets of `x->m(...)` are the functions assigned to field m of that struct type anywhere in the
analysed files; several targets give a branch).  A call that would re-enter a function already on
the inline stack (the recursive tree helpers) is the event `call g`; the translator checks that no
function on a recursive cycle contains a lock primitive, so the depth inside the recursion equals
the depth at the call site and its field accesses are those of the first, inlined level.

Events of the Lean skeleton: lock, unlock, ret, alloc, access/write of fields of the CONTAINER structs
(qvector_t, qlist_t, ...), calls that are not libc noise (callbacks, other qlibc modules, recursive
re-entries, the mutex destructor).  Accesses to NODE structs (qlist_obj_t, ...) and libc calls without
lock/allocation/container effect are contracted away (see skeleton_event).  Nodes are numbered in
depth-first preorder so that most edges are fall-through edges (cheap for the Lean checker); the
translator also computes the depth labelling (the certificate) and prints the offending path of every
function that is unbalanced or touches mutable container state at depth 0.

Field classification: a field is IMMUTABLE iff no function of the analysed files other than the
constructors assigns it (directly, through x->f[i] = / *x->f =, ++/--, or by taking its address).

Path-insensitive: every syntactic path (if/else, loops, switch, goto, break, continue, return,
short-circuit operators, ?:) is a path of the graph.
"""
import json, os, re, subprocess, sys
from concurrent.futures import ThreadPoolExecutor

HERE = os.path.dirname(os.path.abspath(__file__))
SHIM = os.path.join(HERE, "lockshim.h")

FILES = ["src/containers/qtreetbl.c", "src/containers/qhashtbl.c", "src/containers/qlisttbl.c",
         "src/containers/qlist.c", "src/containers/qqueue.c", "src/containers/qstack.c",
         "src/containers/qgrow.c", "src/containers/qvector.c", "src/extensions/qlog.c"]

# struct types whose fields are container state
CONTAINER_T = re.compile(r"^q(vector|list|listtbl|hashtbl|treetbl|queue|stack|grow|log)_t$")
NODE_T = re.compile(r"^q(list|listtbl|hashtbl|treetbl)_obj_t$")
CONSTRUCTORS = {"qvector", "qlist", "qlisttbl", "qhashtbl", "qtreetbl", "qqueue", "qstack", "qgrow", "qlog"}
ALLOC_FUNCS = {"malloc", "calloc", "realloc", "strdup", "strndup", "__verif_mutex_new"}
M_ENTER, M_LEAVE, M_NEW, M_DESTROY = ("__verif_mutex_enter", "__verif_mutex_leave", "__verif_mutex_new",
                                      "__verif_mutex_destroy")

# C13 scope: insert/put, copying get, remove/pop, clear, flattening of the five containers
C13_SCOPE = re.compile(
    r"^(qvector_(add(first|last|at)|get(first|last|at)|set(first|last|at)|pop(first|last|at)|remove(first|last|at)|"
    r"clear|toarray|reverse|resize)"
    r"|qlist_(add(first|last|at)|get(first|last|at)|pop(first|last|at)|remove(first|last|at)|clear|toarray|tostring|"
    r"reverse|setsize)"
    r"|qqueue_(push|pushstr|pushint|pop|popstr|popint|popat|get|getstr|getint|getat|clear|setsize)"
    r"|qstack_(push|pushstr|pushint|pop|popstr|popint|popat|get|getstr|getint|getat|clear|setsize)"
    r"|qgrow_(add|addstr|addstrf|toarray|tostring|clear)"
    r"|qhashtbl_(put|putstr|putstrf|putint|get|getstr|getint|remove|clear)"
    r"|qlisttbl_(put|putstr|putstrf|putint|get|getstr|getint|getmulti|remove|removeobj|clear|sort|"
    r"reverse|save|load)"
    r"|qtreetbl_(put|putstr|putstrf|putobj|get|getstr|getobj|remove|removeobj|clear|find_nearest|"
    r"find_min|find_max))$")


def clang_ast(repo, rel):
    cmd = ["clang-14", "-fsyntax-only", "-w", "-Xclang", "-ast-dump=json", "-D_GNU_SOURCE",
           "-I", os.path.join(repo, "include/qlibc"), "-I", os.path.join(repo, "include"),
           "-I", os.path.join(repo, "src/internal"), "-include", SHIM, os.path.join(repo, rel)]
    r = subprocess.run(cmd, capture_output=True, text=True)
    if r.returncode != 0:
        raise SystemExit("lockcfg: clang-14 failed on %s:\n%s" % (rel, r.stderr[:2000]))
    return json.loads(r.stdout)


def base_type(qual):
    """'const qvector_t *' -> 'qvector_t'; 'struct qlist_s *' -> 'qlist_t' (the typedef naming of qlibc)"""
    t = qual.replace("const", "").replace("volatile", "").replace("*", "").strip()
    m = re.match(r"struct\s+(\w+)_s$", t)
    if m:
        t = m.group(1) + "_t"
    return t


class Func:
    def __init__(self, name, node, body, static, file, src):
        self.name, self.node, self.body, self.static, self.file, self.src = name, node, body, static, file, src
        self.params = [c for c in node.get("inner", []) if c.get("kind") == "ParmVarDecl"]


def strip_casts(e):
    while e.get("kind") in ("ImplicitCastExpr", "CStyleCastExpr", "ParenExpr") and e.get("inner"):
        e = e["inner"][-1]
    return e


class LineMap:
    def __init__(self, path):
        data = open(path, "rb").read()
        self.starts = [0]
        for i, b in enumerate(data):
            if b == 10:
                self.starts.append(i + 1)

    def line(self, off):
        import bisect
        return bisect.bisect_right(self.starts, off)


def node_offset(n):
    r = n.get("range", {}).get("begin", {})
    if "offset" in r:
        return r["offset"]
    if "expansionLoc" in r and "offset" in r["expansionLoc"]:
        return r["expansionLoc"]["offset"]
    return None


class Program:
    """all analysed translation units"""

    def __init__(self, repo, files=FILES):
        self.repo = repo
        self.funcs = {}          # name -> Func (definitions)
        self.order = []          # definition order
        self.methods = {}        # (T, field) -> [function names]
        self.fields = {}         # T -> [field names] in declaration order
        with ThreadPoolExecutor(9) as ex:
            asts = list(ex.map(lambda f: clang_ast(repo, f), files))
        for rel, ast in zip(files, asts):
            lm = LineMap(os.path.join(repo, rel))
            for n in ast.get("inner", []):
                k = n.get("kind")
                if k == "RecordDecl" and n.get("completeDefinition") and n.get("name", "").endswith("_s"):
                    t = n["name"][:-2] + "_t"
                    if CONTAINER_T.match(t) or NODE_T.match(t):
                        self.fields.setdefault(t, [c["name"] for c in n.get("inner", []) if c.get("kind") == "FieldDecl"])
                if k != "FunctionDecl":
                    continue
                body = [c for c in n.get("inner", []) if c.get("kind") == "CompoundStmt"]
                if not body or n["name"].startswith("__verif"):
                    continue
                # only definitions located in the main file (headers define inline helpers elsewhere)
                loc = n.get("loc", {})
                if "includedFrom" in loc or "includedFrom" in loc.get("expansionLoc", {}):
                    continue
                f = Func(n["name"], n, body[0], n.get("storageClass") == "static", rel, lm)
                key = n["name"] if not f.static else n["name"]
                if f.static and key in self.funcs:
                    key = "%s@%s" % (n["name"], os.path.basename(rel))
                f.key = key
                f.unit = rel
                self.funcs[(rel, n["name"])] = f
                self.order.append(f)
        # name resolution: static functions are visible in their own file only
        self.globals = {f.name: f for f in self.order if not f.static}
        self._collect_methods()
        self.primitive = {}
        for f in self.order:
            p = self._primitive_kind(f)
            if p:
                self.primitive[(f.unit, f.name)] = p

    def lookup(self, unit, name):
        return self.funcs.get((unit, name)) or self.globals.get(name)

    def _primitive_kind(self, f):
        stmts = [s for s in f.body.get("inner", []) if s.get("kind") != "NullStmt"]
        if len(stmts) != 1:
            return None
        s = strip_casts(stmts[0])
        if s.get("kind") == "CallExpr":
            c = strip_casts(s["inner"][0])
            nm = c.get("referencedDecl", {}).get("name")
            if nm == M_ENTER:
                return "lock"
            if nm == M_LEAVE:
                return "unlock"
        return None

    def _collect_methods(self):
        def walk(n, unit):
            if n.get("kind") == "BinaryOperator" and n.get("opcode") == "=":
                lhs, rhs = n["inner"][0], strip_casts(n["inner"][1])
                l = strip_casts(lhs)
                if l.get("kind") == "MemberExpr" and rhs.get("kind") == "DeclRefExpr" and \
                        rhs.get("referencedDecl", {}).get("kind") == "FunctionDecl":
                    t = base_type(l["inner"][0]["type"]["qualType"])
                    tgt = rhs["referencedDecl"]["name"]
                    fn = self.lookup(unit, tgt)
                    lst = self.methods.setdefault((t, l["name"]), [])
                    ent = (fn.unit, fn.name) if fn else (None, tgt)
                    if ent not in lst:
                        lst.append(ent)
            for c in n.get("inner", []):
                if isinstance(c, dict):
                    walk(c, unit)
        for f in self.order:
            walk(f.body, f.unit)

    def public_functions(self):
        """external-linkage definitions + static functions installed in a method table"""
        meth = set()
        for lst in self.methods.values():
            meth.update(e for e in lst if e[0])
        out = []
        for f in self.order:
            if (not f.static) or (f.unit, f.name) in meth:
                out.append(f)
        return out


# ------------------------------------------------------------------------------ CFG construction

class Builder:
    MAX_NODES = 60000

    def __init__(self, prog, root):
        self.p, self.root = prog, root
        self.ev, self.succ, self.line = [], [], []
        self.cur = []
        self.stack = []            # inline frames: dict(func, returns=[], labels={})
        self.breaks, self.conts = [], []
        self.root_params = {c["id"] for c in root.params}
        self.local_vars = set()
        self.recursive_calls = set()
        self.direct_calls = []     # functions of the analysed files called by the root's own body
        self.writes = set()        # (T, field) written anywhere in this graph (incl. inlined code)
        self.entry = self.new(("entry",), self.fline(root.node))
        self.cur = [self.entry]
        self.inline(root, top=True)

    # --- graph primitives
    def fline(self, n):
        f = self.stack[-1]["func"] if self.stack else self.root
        off = node_offset(n)
        return (os.path.basename(f.file), f.src.line(off) if off is not None else 0)

    def new(self, ev, line):
        if len(self.ev) > self.MAX_NODES:
            raise SystemExit("lockcfg: CFG of %s exceeds %d nodes" % (self.root.name, self.MAX_NODES))
        self.ev.append(ev); self.succ.append([]); self.line.append(line)
        return len(self.ev) - 1

    def emit(self, ev, n):
        i = self.new(ev, self.fline(n) if n is not None else ("", 0))
        for c in self.cur:
            self.succ[c].append(i)
        self.cur = [i]
        return i

    def join(self, target):
        for c in self.cur:
            self.succ[c].append(target)
        self.cur = []

    # --- functions
    def inline(self, f, top=False, callnode=None):
        frame = {"func": f, "returns": [], "labels": {}, "top": top}
        self.stack.append(frame)
        sb, sc = self.breaks, self.conts
        self.breaks, self.conts = [], []
        self.stmt(f.body)
        self.breaks, self.conts = sb, sc
        if top:
            if self.cur:                      # falling off the end of a void function
                self.emit(("ret",), None)
                self.line[-1] = (os.path.basename(f.file), f.src.line(f.node["range"]["end"].get("offset", 0)))
            self.cur = []
        else:
            self.cur = self.cur + frame["returns"]
        self.stack.pop()

    def label(self, declid, n):
        lab = self.stack[-1]["labels"]
        if declid not in lab:
            lab[declid] = self.new(("nop",), self.fline(n))
        return lab[declid]

    # --- statements
    def stmt(self, s):
        if not s:
            return
        k = s.get("kind")
        inner = s.get("inner", [])
        if k == "CompoundStmt":
            for c in inner:
                self.stmt(c)
        elif k == "DeclStmt":
            for d in inner:
                if d.get("kind") == "VarDecl":
                    self.local_vars.add(d["id"])
                    for e in d.get("inner", []):
                        if "kind" in e and not e["kind"].endswith("Comment") and not e["kind"].endswith("Attr"):
                            self.expr(e)
        elif k == "IfStmt":
            parts = [c for c in inner]
            # [init?] [condvar?] cond then [else]
            has_else = s.get("hasElse", False)
            if has_else:
                cond, then, els = parts[-3], parts[-2], parts[-1]
            else:
                cond, then, els = parts[-2], parts[-1], None
            self.expr(cond)
            branch = self.emit(("nop",), cond)
            self.stmt(then)
            after_then = self.cur
            self.cur = [branch]
            if els is not None:
                self.stmt(els)
            self.cur = after_then + self.cur
        elif k == "WhileStmt":
            cond, body = inner[-2], inner[-1]
            head = self.emit(("nop",), s)
            self.expr(cond)
            test = self.emit(("nop",), cond)
            self.breaks.append([]); self.conts.append([])
            self.stmt(body)
            br, co = self.breaks.pop(), self.conts.pop()
            self.cur += co
            self.join(head)
            self.cur = [test] + br
        elif k == "DoStmt":
            body, cond = inner[0], inner[1]
            head = self.emit(("nop",), s)
            self.breaks.append([]); self.conts.append([])
            self.stmt(body)
            br, co = self.breaks.pop(), self.conts.pop()
            self.cur += co
            self.expr(cond)
            test = self.emit(("nop",), cond)
            self.join(head)
            self.cur = [test] + br
        elif k == "ForStmt":
            init, condvar, cond, inc, body = inner
            if init:
                self.stmt(init) if init.get("kind") == "DeclStmt" else self.expr(init)
            head = self.emit(("nop",), s)
            if cond:
                self.expr(cond)
            test = self.emit(("nop",), s)
            self.breaks.append([]); self.conts.append([])
            self.stmt(body)
            br, co = self.breaks.pop(), self.conts.pop()
            self.cur += co
            if inc:
                self.expr(inc)
            self.join(head)
            self.cur = ([test] if cond else []) + br
        elif k == "ReturnStmt":
            for e in inner:
                self.expr(e)
            if self.stack[-1]["top"]:
                self.emit(("ret",), s)
                self.cur = []
            else:
                self.stack[-1]["returns"] += self.cur
                self.cur = []
        elif k == "BreakStmt":
            self.breaks[-1] += self.cur
            self.cur = []
        elif k == "ContinueStmt":
            self.conts[-1] += self.cur
            self.cur = []
        elif k == "GotoStmt":
            self.join(self.label(s["targetLabelDeclId"], s))
        elif k == "LabelStmt":
            l = self.label(s["declId"], s)
            self.join(l)
            self.cur = [l]
            for c in inner:
                self.stmt(c)
        elif k == "SwitchStmt":
            cond, body = inner[-2], inner[-1]
            self.expr(cond)
            sw = self.emit(("nop",), s)
            self.breaks.append([])
            self.switches = getattr(self, "switches", [])
            self.switches.append({"node": sw, "default": False})
            self.cur = []
            self.stmt(body)
            info = self.switches.pop()
            br = self.breaks.pop()
            self.cur = self.cur + br + ([] if info["default"] else [sw])
        elif k in ("CaseStmt", "DefaultStmt"):
            info = self.switches[-1]
            if k == "DefaultStmt":
                info["default"] = True
            lab = self.new(("nop",), self.fline(s))
            self.succ[info["node"]].append(lab)
            self.join(lab)
            self.cur = [lab]
            # CaseStmt inner: ConstantExpr (value), [rhs], substatement (last)
            self.stmt(inner[-1])
        elif k == "NullStmt":
            pass
        elif k in ("AttributedStmt",):
            for c in inner:
                self.stmt(c)
        else:
            self.expr(s)

    # --- expressions (evaluation order: operands left to right, then the operator's own event)
    def field_event(self, m, write):
        basee = m["inner"][0]
        t = base_type(basee["type"]["qualType"])
        if not (CONTAINER_T.match(t) or NODE_T.match(t)):
            return
        b = strip_casts(basee)
        if b.get("kind") == "DeclRefExpr":
            rid = b.get("referencedDecl", {}).get("id")
            if not m.get("isArrow") and rid in self.local_vars:
                return                               # a local struct variable: not shared
            if NODE_T.match(t) and rid in self.root_params:
                return                               # the caller's own cursor/object of node type
        if write:
            self.writes.add((t, m["name"]))
        self.emit(("write" if write else "access", t, m["name"]), m)

    def lvalue(self, e, compound=False):
        """evaluate e as the target of a store"""
        x = strip_casts(e)
        k = x.get("kind")
        if k == "MemberExpr":
            self.expr(x["inner"][0])
            if compound:
                self.field_event(x, False)
            self.field_event(x, True)
        elif k == "ArraySubscriptExpr":
            a, i = x["inner"]
            sa = strip_casts(a)
            if sa.get("kind") == "MemberExpr":
                # x->f[i] = ...: the pointer f is read, the array it designates is written; the
                # array is reported under the field's name (conservative: the field counts as mutable)
                self.expr(sa["inner"][0])
                self.field_event(sa, False)
                self.expr(i)
                self.field_event(sa, True)
            else:
                self.expr(a); self.expr(i)
        elif k == "UnaryOperator" and x.get("opcode") == "*":
            sa = strip_casts(x["inner"][0])
            if sa.get("kind") == "MemberExpr":
                self.expr(sa["inner"][0])
                self.field_event(sa, False)
                self.field_event(sa, True)
            else:
                self.expr(x["inner"][0])
        else:
            self.expr(x)

    def expr(self, e):
        if not e or "kind" not in e:
            return
        k = e["kind"]
        inner = e.get("inner", [])
        if k in ("ImplicitCastExpr", "CStyleCastExpr", "ParenExpr", "ConstantExpr"):
            for c in inner:
                self.expr(c)
        elif k == "UnaryExprOrTypeTraitExpr":
            return                                   # sizeof/alignof: unevaluated
        elif k == "MemberExpr":
            self.expr(inner[0])
            self.field_event(e, False)
        elif k == "BinaryOperator":
            op = e.get("opcode")
            if op == "=":
                self.expr(inner[1])
                self.lvalue(inner[0])
            elif op in ("&&", "||"):
                self.expr(inner[0])
                short = self.emit(("nop",), e)
                self.expr(inner[1])
                self.cur = self.cur + [short]
            else:
                self.expr(inner[0]); self.expr(inner[1])
        elif k == "CompoundAssignOperator":
            self.expr(inner[1])
            self.lvalue(inner[0], compound=True)
        elif k == "UnaryOperator":
            op = e.get("opcode")
            if op in ("++", "--"):
                self.lvalue(inner[0], compound=True)
            elif op == "&":
                x = strip_casts(inner[0])
                if x.get("kind") == "MemberExpr":
                    # address of a field escapes: count as read and write (conservative)
                    self.expr(x["inner"][0])
                    self.field_event(x, False)
                    self.field_event(x, True)
                else:
                    self.expr(inner[0])
            else:
                self.expr(inner[0])
        elif k == "ConditionalOperator":
            self.expr(inner[0])
            br = self.emit(("nop",), e)
            self.expr(inner[1])
            a = self.cur
            self.cur = [br]
            self.expr(inner[2])
            self.cur = a + self.cur
        elif k == "BinaryConditionalOperator":
            for c in inner:
                self.expr(c)
        elif k == "CallExpr":
            self.call(e)
        elif k == "StmtExpr":
            for c in inner:
                self.stmt(c)
        elif k == "DeclRefExpr":
            return
        else:
            for c in inner:
                if isinstance(c, dict) and c.get("kind", "").endswith(("Stmt",)):
                    self.stmt(c)
                else:
                    self.expr(c)

    def call(self, e):
        inner = e["inner"]
        callee = strip_casts(inner[0])
        unit = self.stack[-1]["func"].unit
        targets = None
        label = None
        if callee.get("kind") == "DeclRefExpr" and callee.get("referencedDecl", {}).get("kind") == "FunctionDecl":
            name = callee["referencedDecl"]["name"]
            f = self.p.lookup(unit, name)
            targets = [(f.unit, f.name)] if f else [(None, name)]
        elif callee.get("kind") == "MemberExpr":
            self.expr(callee["inner"][0])
            self.field_event(callee, False)
            t = base_type(callee["inner"][0]["type"]["qualType"])
            targets = self.p.methods.get((t, callee["name"]))
            label = "%s.%s" % (t, callee["name"])
        else:
            self.expr(inner[0])
            label = "*"
        for a in inner[1:]:
            self.expr(a)
        if not targets:
            self.emit(("call", label or "*"), e)
            return
        start = self.cur
        outs = []
        for (u, name) in targets:
            self.cur = list(start)
            if len(targets) > 1:
                self.emit(("nop",), e)
            self.call_target(u, name, e)
            outs += self.cur
        self.cur = outs

    def call_target(self, u, name, e):
        if len(self.stack) == 1 and u is not None:
            prim = self.p.primitive.get((u, name))
            self.direct_calls.append(prim or name)
        elif len(self.stack) == 1 and name in (M_ENTER, M_LEAVE):
            self.direct_calls.append("lock" if name == M_ENTER else "unlock")
        if name == M_ENTER:
            self.emit(("lock",), e); return
        if name == M_LEAVE:
            self.emit(("unlock",), e); return
        if name in ALLOC_FUNCS:
            self.emit(("alloc", name), e); return
        if u is None:
            self.emit(("call", name), e); return
        prim = self.p.primitive.get((u, name))
        if prim:
            self.emit((prim,), e); return
        f = self.p.funcs[(u, name)]
        if any(fr["func"] is f for fr in self.stack):
            self.recursive_calls.add((u, name))
            self.emit(("call", name), e); return
        self.inline(f)


# ------------------------------------------------------------------------------ post-processing

# libc / compiler functions without lock, allocation or container-state effects: not events
LIBC_SILENT = {"__errno_location", "free", "memcpy", "memmove", "memset", "memcmp", "strlen", "strcmp", "strncmp",
               "strcasecmp", "strncasecmp", "strchr", "strrchr", "strstr", "strcpy", "strncpy", "strcat", "fprintf",
               "printf", "snprintf", "vsnprintf", "sprintf", "fflush", "fputs", "fputc", "fwrite", "fileno",
               "fchmod", "fopen", "fclose", "open", "close", "time", "localtime", "gmtime", "mktime", "strftime",
               "atoll", "atoi", "__builtin_va_start", "__builtin_va_end", "__assert_fail", "usleep", "unlink",
               "__builtin_expect", "abs", "qsort"}


def skeleton_event(e):
    """events kept in the Lean skeleton: lock, unlock, ret, alloc, access/write of CONTAINER struct
    fields, calls that are not libc noise.  Node-struct fields (qlist_obj_t, ...) are not container
    fields in the sense of C13 (fresh and unlinked nodes are private to the thread); their race
    freedom is sampled by the TSan stress run, not certified."""
    if e[0] in ("access", "write") and NODE_T.match(e[1]):
        return ("nop",)
    if e[0] == "call" and e[1] in LIBC_SILENT:
        return ("nop",)
    return e


class Cfg:
    """nop nodes contracted; nodes renumbered in depth-first preorder from the entry; depth labelling"""

    def __init__(self, name, b):
        self.name = name
        self.file = b.root.file
        ev, succ, line = [skeleton_event(e) for e in b.ev], [list(dict.fromkeys(s)) for s in b.succ], b.line
        n = len(ev)
        # contract nop nodes (not the entry, not nop self-loops, not where both fan-in and fan-out
        # exceed one: that would multiply edges)
        pred = [set() for _ in range(n)]
        for i in range(n):
            for j in succ[i]:
                pred[j].add(i)
        # unreachable code (after return/goto) has no predecessors: prune first
        reach, todo = {b.entry}, [b.entry]
        while todo:
            i = todo.pop()
            for j in succ[i]:
                if j not in reach:
                    reach.add(j); todo.append(j)
        for i in range(n):
            if i not in reach:
                for j in succ[i]:
                    pred[j].discard(i)
                succ[i] = []
        for i in range(n):
            if i not in reach or ev[i][0] != "nop" or i in succ[i]:
                continue
            if len(pred[i]) > 1 and len(succ[i]) > 1:
                continue
            for p_ in list(pred[i]):
                new = []
                for j in succ[p_]:
                    if j == i:
                        for t in succ[i]:
                            if t not in new:
                                new.append(t)
                    elif j not in new:
                        new.append(j)
                succ[p_] = new
                for t in succ[i]:
                    pred[t].add(p_)
            for t in succ[i]:
                pred[t].discard(i)
            pred[i] = set()
            succ[i] = []
        # depth-first preorder numbering: the first successor of a node usually gets the next number
        order, seen = [], set()
        stack = [b.entry]
        while stack:
            i = stack.pop()
            if i in seen:
                continue
            seen.add(i); order.append(i)
            for j in reversed(succ[i]):
                if j not in seen:
                    stack.append(j)
        idx = {o: k for k, o in enumerate(order)}
        self.ev = [ev[o] for o in order]
        self.line = [line[o] for o in order]
        self.succ = [[idx[j] for j in succ[o]] for o in order]
        self.recursive = sorted(b.recursive_calls)
        self.direct_calls = list(b.direct_calls)
        self.writes = b.writes
        self.label()

    def label(self):
        """depth before each node's event, by BFS; collect violations with a witness path"""
        n = len(self.ev)
        self.depth = [None] * n
        self.parent = [None] * n
        self.depth[0] = 0
        self.problems = []
        todo = [0]
        while todo:
            nxt = []
            for i in todo:
                d = self.depth[i]
                k = self.ev[i][0]
                if k == "lock":
                    d2 = d + 1
                elif k == "unlock":
                    if d == 0:
                        self.problems.append(("unlock at depth 0", i, None))
                        d2 = 0
                    else:
                        d2 = d - 1
                else:
                    d2 = d
                if k == "ret" and d != 0:
                    self.problems.append(("returns at depth %d" % d, i, None))
                for j in self.succ[i]:
                    if self.depth[j] is None:
                        self.depth[j] = d2; self.parent[j] = i; nxt.append(j)
                    elif self.depth[j] != d2:
                        self.problems.append(("node reached at depths %d and %d" % (self.depth[j], d2), j, i))
            todo = nxt

    def label_phases(self):
        """phase labels for the one-critical-section certificate (Conc/Atomic.lean): 1 inside a critical
        section (depth >= 1); at depth 0: 0 = certainly no critical section so far, 2 = possibly after
        one.  Least labelling with label(target) >= phase after the source's event.  A `lock` at depth 0
        from a node labelled 2 is a SECOND outermost critical section on some path."""
        n = len(self.ev)
        ph = [0] * n
        for i in range(n):
            if (self.depth[i] or 0) >= 1:
                ph[i] = 1
        self.phase_parent = [None] * n
        changed = True
        while changed:
            changed = False
            for i in range(n):
                d = self.depth[i] or 0
                k = self.ev[i][0]
                if k == "lock" and d == 0:
                    a = 1
                elif k == "unlock" and d == 1:
                    a = 2
                else:
                    a = ph[i]
                for j in self.succ[i]:
                    if (self.depth[j] or 0) == 0 and a == 2 and ph[j] != 2:
                        ph[j] = 2; self.phase_parent[j] = i; changed = True
        self.phase = ph
        self.second_cs = [i for i in range(n) if self.ev[i][0] == "lock" and (self.depth[i] or 0) == 0 and ph[i] == 2]
        return ph

    def atomic(self):
        if not hasattr(self, "phase"):
            self.label_phases()
        return self.balanced() and not self.second_cs

    def atomic_problem_text(self):
        out = []
        for i in self.second_cs[:3]:
            # walk back to the release that ended the first critical section, then to the entry
            chain, j = [i], i
            while self.phase_parent[j] is not None:
                j = self.phase_parent[j]; chain.append(j)
            first = self.path_to(chain[-1])
            nodes = first + chain[::-1][1:]
            shown = [k for k in nodes if self.ev[k][0] in ("lock", "unlock", "entry")]
            out.append("  %s: second outermost critical section on one path, entered at %s\n    path: %s" % (
                self.name, self.describe(i), "  ->  ".join(self.describe(k) for k in shown)))
        return "\n".join(out)

    def max_sections(self):
        """'0', '1' or '2+' outermost critical sections on some path"""
        if not hasattr(self, "phase"):
            self.label_phases()
        if self.second_cs:
            return "2+"
        return "1" if any(e[0] == "lock" for e in self.ev) else "0"

    def path_to(self, i):
        p = []
        while i is not None:
            p.append(i); i = self.parent[i]
        return p[::-1]

    def describe(self, i):
        e = self.ev[i]
        f, l = self.line[i]
        return "%s:%d %s" % (f, l, " ".join(str(x) for x in e))

    def problem_text(self):
        out = []
        for what, i, via in self.problems[:4]:
            out.append("  %s: %s at %s" % (self.name, what, self.describe(i)))
            path = self.path_to(via if via is not None else i)
            if via is not None:
                path = path + [i]
            shown = [k for k in path if self.ev[k][0] in ("lock", "unlock", "ret", "alloc", "entry")]
            if path and path[-1] not in shown:
                shown.append(path[-1])
            out.append("    path: " + "  ->  ".join(self.describe(k) for k in shown))
        return "\n".join(out)

    def balanced(self):
        return not self.problems

    def unlocked_accesses(self, immutable):
        """accesses/writes of mutable fields at depth 0"""
        bad = []
        for i, e in enumerate(self.ev):
            if e[0] in ("access", "write") and self.depth[i] == 0:
                if e[0] == "write" or (e[1], e[2]) not in immutable:
                    bad.append(i)
        return bad


class Result:
    pass


def extract(repo, files=FILES):
    prog = Program(repo, files)
    res = Result()
    res.prog = prog
    res.cfgs = {}
    res.names = []
    res.primitives = sorted("%s" % n for (u, n) in prog.primitive)
    builders = {}
    for f in prog.public_functions():
        if (f.unit, f.name) in prog.primitive:
            continue
        b = Builder(prog, f)
        nm = f.name
        if nm in res.cfgs:
            nm = "%s_%s" % (os.path.basename(f.file)[:-2], f.name)
        if os.path.basename(f.file) == "qlog.c" and f.static:
            nm = "qlog_" + f.name.strip("_")
        res.cfgs[nm] = Cfg(nm, b)
        res.names.append(nm)
        builders[nm] = b
    # field classification: immutable = never written outside the constructors.  The writes are
    # collected from every function body of the analysed files (not only from the public graphs).
    written = set()
    ctor_written = set()

    def scan(n, acc):
        k = n.get("kind")
        tgt = None
        if k == "BinaryOperator" and n.get("opcode") == "=" or k == "CompoundAssignOperator":
            tgt = n["inner"][0]
        elif k == "UnaryOperator" and n.get("opcode") in ("++", "--", "&"):
            tgt = n["inner"][0]
        if tgt is not None:
            x = strip_casts(tgt)
            if x.get("kind") in ("ArraySubscriptExpr",) or (x.get("kind") == "UnaryOperator" and x.get("opcode") == "*"):
                x = strip_casts(x["inner"][0])
            if x.get("kind") == "MemberExpr":
                t = base_type(x["inner"][0]["type"]["qualType"])
                if CONTAINER_T.match(t) or NODE_T.match(t):
                    acc.add((t, x["name"]))
        for c in n.get("inner", []):
            if isinstance(c, dict):
                scan(c, acc)
    for f in prog.order:
        scan(f.body, ctor_written if f.name in CONSTRUCTORS else written)
    res.fields = []
    for t, fl in sorted(prog.fields.items()):
        for fld in fl:
            res.fields.append((t, fld))
    res.field_id = {tf: i for i, tf in enumerate(res.fields)}
    res.immutable = set(tf for tf in res.fields if tf not in written)
    res.written = written
    # recursion must be lock-free
    res.recursion_problems = []
    rec = set()
    for c in res.cfgs.values():
        rec.update(c.recursive)
    for (u, n) in sorted(rec):
        f = prog.funcs[(u, n)]
        b = Builder(prog, f)
        if any(e[0] in ("lock", "unlock") for e in b.ev):
            res.recursion_problems.append("%s is recursive and contains a lock primitive" % n)
    res.recursive = sorted(n for (_, n) in rec)
    res.c13 = [n for n in res.names if C13_SCOPE.match(n)]
    # wrapper layer: every public function of the containers except constructors/destructors and qlog
    res.atomic = [n for n in res.names if n not in CONSTRUCTORS and not n.endswith("_free") and not n.startswith("qlog")
                  and (n.startswith("q") or n in ("namematch", "namecasematch"))]
    locking = {n for n in res.names if any(e[0] == "lock" for e in res.cfgs[n].ev)}
    res.table = []
    for n in res.names:
        c = res.cfgs[n]
        calls = c.direct_calls
        own = "lock" in calls
        sl = [x for x in calls if x in locking]           # self-locking public callees, one entry per call site
        sec = c.max_sections()
        if sec == "2+":
            cls = "NOT ATOMIC: several critical sections on one path"
        elif sec == "0":
            cls = "no lock taken" + (" (reads container fields unlocked)" if c.unlocked_accesses(res.immutable) else "")
        elif own:
            cls = "own lock" + (" held across %d self-locking call(s)" % len(sl) if sl else "")
        elif sl:
            cls = "one self-locking call per path" + (" (%d call sites on alternative paths)" % len(sl) if len(sl) > 1 else "")
        else:
            cls = "lock taken by a non-public helper"
        res.table.append((n, sec, cls, sorted(set(sl))))
    return res


# ------------------------------------------------------------------------------ Lean output

def lean_ev(res, e):
    k = e[0]
    if k in ("entry", "nop"):
        return ".nop"
    if k == "lock":
        return ".lock"
    if k == "unlock":
        return ".unlock"
    if k == "ret":
        return ".ret"
    if k == "alloc":
        return ".alloc"
    if k == "call":
        return ".call %d" % res.callee_id.setdefault(e[1], len(res.callee_id))
    if k in ("access", "write"):
        fid = res.field_id.get((e[1], e[2]))
        if fid is None:
            fid = res.field_id.setdefault((e[1], e[2]), len(res.fields))
            res.fields.append((e[1], e[2]))
        return ".%s %d" % (k, fid)
    raise ValueError(e)


def render_cfg(res):
    res.callee_id = {}
    body = []
    for nm in res.names:
        c = res.cfgs[nm]
        rows = []
        for i in range(len(c.ev)):
            d = c.depth[i] if c.depth[i] is not None else 0
            rows.append("  ⟨%s, %d, [%s], %d⟩" % (lean_ev(res, c.ev[i]), d, ", ".join(map(str, c.succ[i])), c.line[i][1]))
        body.append("/-- %s (%s), %d nodes -/\ndef cfg_%s : Cfg := ⟨[\n%s]⟩\n" % (nm, c.file, len(c.ev), nm, ",\n".join(rows)))
    hdr = ["/- GENERATED by translator/lockcfg.py from the current source tree -- do not edit.",
           "   Lock skeletons (DESIGN.md section 1, K-gen) of the public functions of",
           "   " + ", ".join(os.path.basename(f) for f in FILES) + ".",
           "   Node = ⟨event, depth label (before the event), successors, source line⟩; node 0 is the entry. -/",
           "import QlibcModel.Conc.Cfg", "namespace Qlibc.Generated", "open Qlibc.Conc", ""]
    flds = ",\n".join('  (%d, "%s.%s")' % (i, t, f) for i, (t, f) in enumerate(res.fields))
    imm = [res.field_id[tf] for tf in res.fields if tf in res.immutable]
    tail = ["/-- field numbering used by `access`/`write` events -/",
            "def fieldNames : List (Nat × String) := [\n%s]\n" % flds,
            "/-- fields never assigned outside the constructors (%s): reading them needs no lock -/" % ", ".join(sorted(CONSTRUCTORS)),
            "def immutableFields : List Nat := [%s]\n" % ", ".join(map(str, imm)),
            "/-- the same as names, for the reader -/",
            "def immutableFieldNames : List String := [%s]\n" % ", ".join('"%s.%s"' % tf for tf in res.fields if tf in res.immutable),
            "/-- fields exempt from the lock requirement of `wellLockedCfg` -/",
            "def lockExempt : List Nat := immutableFields\n",
            "/-- callee numbering used by `call` events (functions that are not inlined: libc, other qlibc modules,",
            "    user callbacks `T.field`, recursive re-entries).  Calls of libc functions without lock, allocation",
            "    or container-state effect and accesses to fields of NODE structs are not events of the skeleton. -/",
            "def calleeNames : List (Nat × String) := [\n%s]\n" % ",\n".join('  (%d, "%s")' % (i, n) for n, i in sorted(res.callee_id.items(), key=lambda x: x[1])),
            "/-- functions that ARE the lock primitives (body = one Q_MUTEX_ENTER / Q_MUTEX_LEAVE); they change the",
            "    depth by design and are events, not graphs -/",
            "def lockPrimitives : List String := [%s]\n" % ", ".join('"%s"' % n for n in res.primitives),
            "/-- functions re-entered recursively (summarised by a `call` event; checked lock-free by the translator) -/",
            "def recursiveHelpers : List String := [%s]\n" % ", ".join('"%s"' % n for n in res.recursive),
            "def allCfgs : List (String × Cfg) := [\n%s]\n" % ",\n".join('  ("%s", cfg_%s)' % (n, n) for n in res.names),
            "/-- C13 scope: insert/put, copying get, remove/pop, clear, flattening (+ cursor steps) of the five containers -/",
            "def c13Cfgs : List (String × Cfg) := [\n%s]\n" % ",\n".join('  ("%s", cfg_%s)' % (n, n) for n in res.c13),
            "end Qlibc.Generated", ""]
    return "\n".join(hdr) + "\n" + "\n".join(body) + "\n" + "\n".join(tail)


CERT_PARTS = 4


def render_certs(res):
    """-> {module file name: text}: LockCerts1..N.lean (balance, C14), LockWl1..N.lean (C13),
    LockAtomic1..N.lean (one critical section per call, C13) and the aggregating LockCerts.lean /
    LockWl.lean / LockAtomic.lean.  Split so that lake checks the parts in parallel."""
    files = {}

    def parts(names):
        k = (len(names) + CERT_PARTS - 1) // CERT_PARTS or 1
        return [names[i:i + k] for i in range(0, len(names), k)]

    def agg_term(thm, names):
        t = "fun _ h => absurd h List.not_mem_nil"
        for n in reversed(names):
            t = "List.forall_mem_cons.2 ⟨%s_%s, %s⟩" % (thm, n, t)
        return t
    for stem, names, thm, stmt, lst in (
            ("LockCerts", res.names, "bal", "balancedCfg cfg_%s = true", "allCfgs"),
            ("LockWl", res.c13, "wl", "wellLockedCfg lockExempt cfg_%s = true", "c13Cfgs"),
            ("LockAtomic", res.atomic, "atomic", "phasesOk phases_%s cfg_%s = true", "atomicCfgs")):
        imports = []
        for k, chunk in enumerate(parts(names), 1):
            out = ["/- GENERATED by translator/lockcfg.py -- do not edit.  One certificate per function; a function",
                   "   whose skeleton has an unbalanced path / an unlocked access / a second critical section on",
                   "   one path makes its `decide` fail. -/",
                   "import QlibcModel.Generated.LockCfg"] + (["import QlibcModel.Conc.Atomic"] if thm == "atomic" else []) + [
                   "namespace Qlibc.Generated", "open Qlibc.Conc", ""]
            for n in chunk:
                if thm == "atomic":
                    out.append("def phases_%s : List Nat := [%s]" % (n, ", ".join(map(str, res.cfgs[n].label_phases()))))
                    out.append("theorem atomic_%s : %s := by decide +kernel" % (n, stmt % (n, n)))
                else:
                    out.append("theorem %s_%s : %s := by decide +kernel" % (thm, n, stmt % n))
            out += ["", "end Qlibc.Generated", ""]
            files["%s%d.lean" % (stem, k)] = "\n".join(out)
            imports.append("import QlibcModel.Generated.%s%d" % (stem, k))
        agg = ["/- GENERATED by translator/lockcfg.py -- do not edit. -/"] + imports + [
            "namespace Qlibc.Generated", "open Qlibc.Conc", ""]
        if thm == "atomic":
            agg += ["/-- wrapper layer (C13): every public function of the containers except constructors and destructors,",
                    "    with the phase labelling that certifies ONE outermost critical section per call -/",
                    "def atomicCfgs : List (String × List Nat × Cfg) := [\n%s]\n" % ",\n".join(
                        '  ("%s", phases_%s, cfg_%s)' % (n, n, n) for n in names),
                    "/-- how each public function reaches the lock (function, #outermost critical sections on a path,",
                    "    classification, self-locking public functions it calls directly) -- documentation of the table",
                    "    the certificates decide -/",
                    "def wrapperLayer : List (String × String × String × List String) := [\n%s]\n" % ",\n".join(
                        '  ("%s", "%s", "%s", [%s])' % (n, sec, cls, ", ".join('"%s"' % x for x in sl)) for n, sec, cls, sl in res.table),
                    "theorem atomic_all : ∀ c ∈ atomicCfgs, phasesOk c.2.1 c.2.2 = true :=",
                    "  " + agg_term(thm, names), "",
                    "/-- the same functions are balanced (C14's certificates) -/",
                    "theorem atomic_bal_all : ∀ c ∈ atomicCfgs, balancedCfg c.2.2 = true :=",
                    "  " + agg_term("bal", names)]
            agg.insert(1, "import QlibcModel.Generated.LockCerts")
        else:
            pred = "balancedCfg c.2" if thm == "bal" else "wellLockedCfg lockExempt c.2"
            agg += ["theorem %s_all : ∀ c ∈ %s, %s = true :=" % (thm, lst, pred), "  " + agg_term(thm, names)]
        agg += ["", "end Qlibc.Generated", ""]
        files[stem + ".lean"] = "\n".join(agg)
    return files


def write_if_changed(path, text):
    if not os.path.exists(path) or open(path).read() != text:
        os.makedirs(os.path.dirname(path), exist_ok=True)
        open(path, "w").write(text)
        return True
    return False


def report(res, out=sys.stdout):
    nb = [n for n in res.names if not res.cfgs[n].balanced()]
    print("lockcfg: %d public functions, %d nodes total, %d unbalanced, primitives %s" % (
        len(res.names), sum(len(c.ev) for c in res.cfgs.values()), len(nb), res.primitives), file=out)
    for n in nb:
        print(res.cfgs[n].problem_text(), file=out)
    for p in res.recursion_problems:
        print("  " + p, file=out)
    for n in res.atomic:
        if not res.cfgs[n].atomic() and res.cfgs[n].balanced():
            print(res.cfgs[n].atomic_problem_text(), file=out)
    for n in res.c13:
        c = res.cfgs[n]
        bad = c.unlocked_accesses(res.immutable)
        if bad:
            print("  %s: mutable container state touched outside the lock: %s" % (
                n, "; ".join(c.describe(i) for i in bad[:6])), file=out)


def pointer_escapes(prog):
    """REPORT ONLY (source-order approximation, no certificate): per function, locals that are assigned inside
    the function from a container/node field (or a struct copy of a node) and are used -- dereferenced, member
    accessed, or passed to a call -- at a source position AFTER the last unlock call of that function.
    -> [(function, local, first use line, how)]"""
    out = []
    for f in prog.order:
        unlocks, saved, uses = [], {}, []

        def is_unlock(call):
            c = strip_casts(call["inner"][0])
            if c.get("kind") == "DeclRefExpr":
                nm = c.get("referencedDecl", {}).get("name", "")
                return nm == M_LEAVE or prog.primitive.get((f.unit, nm)) == "unlock" or \
                    (prog.lookup(f.unit, nm) and prog.primitive.get((prog.lookup(f.unit, nm).unit, nm)) == "unlock")
            if c.get("kind") == "MemberExpr":
                return c.get("name") == "unlock"
            return False

        def has_field(e):
            if e.get("kind") == "MemberExpr":
                t = base_type(e["inner"][0]["type"]["qualType"])
                if CONTAINER_T.match(t) or NODE_T.match(t):
                    return True
            if e.get("kind") == "UnaryOperator" and e.get("opcode") == "*":
                t = base_type(e["inner"][0].get("type", {}).get("qualType", ""))
                if NODE_T.match(t):
                    return True
            return any(has_field(c) for c in e.get("inner", []) if isinstance(c, dict))

        def walk(n, parent=None):
            k = n.get("kind")
            if k == "CallExpr" and is_unlock(n):
                unlocks.append(node_offset(n) or 0)
            if k == "VarDecl" and n.get("inner"):
                init = [c for c in n["inner"] if "kind" in c]
                ty = n.get("type", {}).get("qualType", "")
                if init and has_field(init[0]) and ("*" in ty or NODE_T.match(base_type(ty))):
                    saved[n["id"]] = n.get("name")
            if k == "BinaryOperator" and n.get("opcode") == "=":
                l = strip_casts(n["inner"][0])
                if l.get("kind") == "DeclRefExpr" and l.get("referencedDecl", {}).get("kind") == "VarDecl" and has_field(n["inner"][1]):
                    ty = l.get("type", {}).get("qualType", "")
                    if "*" in ty or NODE_T.match(base_type(ty)):
                        saved[l["referencedDecl"]["id"]] = l["referencedDecl"].get("name")
            if k == "DeclRefExpr" and n.get("referencedDecl", {}).get("kind") == "VarDecl" and parent is not None:
                pk = parent.get("kind")
                how = None
                if pk == "MemberExpr":
                    how = "member access"
                elif pk == "UnaryOperator" and parent.get("opcode") == "*":
                    how = "dereference"
                elif pk == "CallExpr":
                    how = "passed to " + (strip_casts(parent["inner"][0]).get("referencedDecl", {}).get("name") or "a call")
                if how:
                    uses.append((n["referencedDecl"]["id"], node_offset(n) or 0, how))
            for c in n.get("inner", []):
                if isinstance(c, dict):
                    walk(c, n if k not in ("ImplicitCastExpr", "ParenExpr", "CStyleCastExpr") else parent)
        walk(f.body)
        if not unlocks or not saved:
            continue
        last = max(unlocks)
        seen = set()
        for vid, off, how in sorted(uses, key=lambda x: x[1]):
            if vid in saved and off > last and (vid, how) not in seen:
                seen.add((vid, how))
                out.append((f.name, saved[vid], "%s:%d" % (os.path.basename(f.file), f.src.line(off)), how))
    return out


def print_table(res, out=sys.stdout):
    for n, sec, cls, sl in res.table:
        print("%-22s %-2s %s%s" % (n, sec, cls, (" -> " + ", ".join(sl)) if sl else ""), file=out)


if __name__ == "__main__":
    repo = sys.argv[1] if len(sys.argv) > 1 and not sys.argv[1].startswith("-") else os.environ.get("VERIF_REPO", "/repo")
    r = extract(repo)
    report(r)
    if "--table" in sys.argv:
        print_table(r)
    if "--escapes" in sys.argv:
        for row in pointer_escapes(r.prog):
            print("escape: %-24s local %-10s used after the last unlock at %s (%s)" % row)

#!/usr/bin/env python3
"""K-gen translator: layout of the static hash table image (include/qlibc/containers/qhasharr.h).

Compiles a one-line C program against the CURRENT headers that prints Q_HASHARR_NAMESIZE,
Q_HASHARR_DATASIZE, sizeof of the header / slot / union views / handle and offsetof of every field,
and emits lean/QlibcModel/Generated/HarrLayout.lean.  The model constants (`nameSize`, `dataSize`,
`extSize`, the offsets of the `pair` view inside the union) come from there, and
`HashArr/Model.lean` re-checks by `decide` the layout facts it relies on (views fit into the
union, fields do not overlap), so a changed knob either regenerates the model constants or breaks
a proof obligation.
"""
import os, subprocess, sys, tempfile

PROG = r'''
#include <stdio.h>
#include <stddef.h>
#include <stdbool.h>
#include <stdint.h>
#include "containers/qhasharr.h"
#define P(n, v) printf("%s %zu\n", n, (size_t)(v))
int main(void) {
  P("nameSize", Q_HASHARR_NAMESIZE); P("dataSize", Q_HASHARR_DATASIZE);
  P("sizeofHandle", sizeof(qhasharr_t)); P("sizeofHeader", sizeof(qhasharr_data_t)); P("sizeofSlot", sizeof(qhasharr_slot_t));
  P("sizeofPair", sizeof(struct Q_HASHARR_SLOT_KEYVAL)); P("extSize", sizeof(struct Q_HASHARR_SLOT_EXT));
  P("sizeofUnion", sizeof(((qhasharr_slot_t*)0)->data));
  P("offMaxslots", offsetof(qhasharr_data_t, maxslots)); P("offUsedslots", offsetof(qhasharr_data_t, usedslots)); P("offNum", offsetof(qhasharr_data_t, num));
  P("sizeofMaxslots", sizeof(((qhasharr_data_t*)0)->maxslots));
  P("offCount", offsetof(qhasharr_slot_t, count)); P("sizeofCount", sizeof(((qhasharr_slot_t*)0)->count));
  P("offHash", offsetof(qhasharr_slot_t, hash)); P("sizeofHash", sizeof(((qhasharr_slot_t*)0)->hash));
  P("offDatasize", offsetof(qhasharr_slot_t, datasize)); P("sizeofDatasize", sizeof(((qhasharr_slot_t*)0)->datasize));
  P("offLink", offsetof(qhasharr_slot_t, link)); P("sizeofLink", sizeof(((qhasharr_slot_t*)0)->link));
  P("offUnion", offsetof(qhasharr_slot_t, data));
  P("offPairData", offsetof(struct Q_HASHARR_SLOT_KEYVAL, data)); P("offPairName", offsetof(struct Q_HASHARR_SLOT_KEYVAL, name));
  P("offPairNamesize", offsetof(struct Q_HASHARR_SLOT_KEYVAL, namesize)); P("sizeofPairNamesize", sizeof(((struct Q_HASHARR_SLOT_KEYVAL*)0)->namesize));
  P("offPairMd5", offsetof(struct Q_HASHARR_SLOT_KEYVAL, namemd5)); P("sizeofPairMd5", sizeof(((struct Q_HASHARR_SLOT_KEYVAL*)0)->namemd5));
  P("offExtData", offsetof(struct Q_HASHARR_SLOT_EXT, data));
  return 0;
}
'''

# Digest handling of truncated keys, observed on the CURRENT qhasharr.c: the source file is compiled into a
# tiny program with memcmp / memcpy replaced by recording macros (function name, argument text, byte count
# as the compiler evaluates it - `sizeof` of an array, of a pointer, a literal, ...), the three library
# functions it calls stubbed; two 20-byte keys with a common 16-byte prefix are stored and read back.
#   digestCmpBytes    byte counts of the memcmp calls of get_idx() that mention an md5 operand
#   digestCopyBytes   byte counts of the memcpy calls of put_data() that mention an md5 operand
#   longNameCmpBytes  byte counts of the memcmp calls of get_idx() on pair.name for a key longer than the inline name
DIGEST_PROG = r'''
#include <stdio.h>
#include <stdlib.h>
#include <string.h>
#include <stdbool.h>
#include <stdint.h>
static int verif_rec_cmp(const char *fn, const char *args, size_t n, const void *a, const void *b) {
    printf("cmp %s %zu %s\n", fn, n, args); return (memcmp)(a, b, n);
}
static void *verif_rec_cpy(const char *fn, const char *args, size_t n, void *d, const void *s) {
    printf("cpy %s %zu %s\n", fn, n, args); return (memcpy)(d, s, n);
}
#define memcmp(a, b, n) verif_rec_cmp(__func__, #a "|" #b, (size_t) (n), (a), (b))
#define memcpy(d, s, n) verif_rec_cpy(__func__, #d "|" #s, (size_t) (n), (d), (s))
#include "SRC"
#undef memcmp
#undef memcpy
int main(void) {
    static char mem[8192];
    qhasharr_t *t = qhasharr(mem, sizeof mem);
    if (!t) return 3;
    const char *k1 = "AAAAAAAAAAAAAAAAbbb1", *k2 = "AAAAAAAAAAAAAAAAbbb2";
    if (!qhasharr_put_by_obj(t, k1, 20, "x", 1) || !qhasharr_put_by_obj(t, k2, 20, "y", 1)) return 4;
    size_t sz; void *d;
    puts("phase get");
    d = qhasharr_get_by_obj(t, k1, 20, &sz); if (!d) return 5; free(d);
    d = qhasharr_get_by_obj(t, k2, 20, &sz); if (!d) return 6; free(d);
    return 0;
}
'''


# the three library functions qhasharr.c calls, in a translation unit of their own (linked by name)
DIGEST_STUBS = r'''
#include <stddef.h>
#include <stdint.h>
#include <stdbool.h>
uint32_t qhashmurmur3_32(const void *data, size_t nbytes) { (void) data; (void) nbytes; return 7; }
bool qhashmd5(const void *data, size_t nbytes, void *retbuf) {
    for (int i = 0; i < 16; i++) ((unsigned char *) retbuf)[i] = (unsigned char) (((const unsigned char *) data)[nbytes - 1] + i);
    return true;
}
void _q_textout(void *fp, void *data, size_t size, size_t max) { (void) fp; (void) data; (void) size; (void) max; }
'''


def digest_facts(repo):
    src = os.path.join(repo, "src/containers/qhasharr.c")
    with tempfile.TemporaryDirectory(prefix="harr_digest_") as d:
        c, exe = os.path.join(d, "d.c"), os.path.join(d, "d")
        open(c, "w").write(DIGEST_PROG.replace("SRC", src))
        st = os.path.join(d, "stubs.c")
        open(st, "w").write(DIGEST_STUBS)
        r = subprocess.run(["gcc", "-std=gnu99", "-O0", "-w", "-I", os.path.join(repo, "include/qlibc"), "-I", os.path.join(repo, "include"),
                            "-I", os.path.join(repo, "src/internal"), c, st, "-o", exe], capture_output=True, text=True)
        if r.returncode != 0:
            raise SystemExit("translator/harr_layout.py: digest program does not compile:\n" + r.stderr[:2000])
        p = subprocess.run([exe], capture_output=True, text=True, timeout=20)
        if p.returncode != 0:
            raise SystemExit("translator/harr_layout.py: digest program failed (exit %d)" % p.returncode)
    cmp_, cpy, name, getphase = set(), set(), set(), False
    for line in p.stdout.splitlines():
        if line == "phase get":
            getphase = True
            continue
        kind, fn, n, args = line.split(" ", 3)
        md5 = "md5" in args.lower()
        if kind == "cmp" and fn == "get_idx" and md5:
            cmp_.add(int(n))
        if kind == "cmp" and fn == "get_idx" and not md5 and getphase and "name" in args:
            name.add(int(n))
        if kind == "cpy" and fn == "put_data" and md5:
            cpy.add(int(n))
    return {"digestCmpBytes": sorted(cmp_), "digestCopyBytes": sorted(cpy), "longNameCmpBytes": sorted(name)}


LISTS = ["digestCmpBytes", "digestCopyBytes", "longNameCmpBytes"]

ORDER = ["nameSize", "dataSize", "extSize", "sizeofHandle", "sizeofHeader", "sizeofSlot", "sizeofPair", "sizeofUnion",
         "offMaxslots", "offUsedslots", "offNum", "sizeofMaxslots",
         "offCount", "sizeofCount", "offHash", "sizeofHash", "offDatasize", "sizeofDatasize", "offLink", "sizeofLink",
         "offUnion", "offPairData", "offPairName", "offPairNamesize", "sizeofPairNamesize", "offPairMd5", "sizeofPairMd5",
         "offExtData"]


_memo = {}


def extract(repo):
    """memoised per process on the modification times of the two source files"""
    key = (repo,) + tuple(os.stat(os.path.join(repo, f)).st_mtime_ns for f in
                          ("include/qlibc/containers/qhasharr.h", "src/containers/qhasharr.c"))
    if key not in _memo:
        _memo[key] = extract_now(repo)
    return dict(_memo[key])


def extract_now(repo):
    with tempfile.TemporaryDirectory(prefix="harr_layout_") as d:
        src, exe = os.path.join(d, "l.c"), os.path.join(d, "l")
        open(src, "w").write(PROG)
        r = subprocess.run(["gcc", "-std=gnu99", "-I", os.path.join(repo, "include/qlibc"), "-I", os.path.join(repo, "include"),
                            src, "-o", exe], capture_output=True, text=True)
        if r.returncode != 0:
            raise SystemExit("translator/harr_layout.py: layout program does not compile:\n" + r.stderr[:2000])
        out = subprocess.run([exe], capture_output=True, text=True, check=True).stdout
    vals = {}
    for line in out.splitlines():
        k, v = line.split()
        vals[k] = int(v)
    missing = [k for k in ORDER if k not in vals]
    if missing:
        raise SystemExit("translator/harr_layout.py: missing " + ",".join(missing))
    vals.update(digest_facts(repo))
    return vals


def render(vals):
    lines = ["/- GENERATED by translator/harr_layout.py from include/qlibc/containers/qhasharr.h (sizeof/offsetof",
             "   printed by a C program compiled against the current headers) — do not edit. -/",
             "namespace Qlibc.Generated.HarrLayout", ""]
    for k in ORDER:
        lines.append("def %s : Nat := %d" % (k, vals[k]))
    lines += ["", "/- digest handling of truncated keys as the CURRENT qhasharr.c performs it (byte counts of the memcmp calls of",
              "   get_idx() and of the memcpy calls of put_data() that mention an md5 operand, and of the name comparison of a",
              "   key longer than the inline name; recorded by running the source with recording memcmp / memcpy macros) -/"]
    for k in LISTS:
        lines.append("def %s : List Nat := [%s]" % (k, ", ".join(str(x) for x in vals[k])))
    lines += ["", "end Qlibc.Generated.HarrLayout"]
    return "\n".join(lines) + "\n"


def regenerate(repo, out):
    text = render(extract(repo))
    if not os.path.exists(out) or open(out).read() != text:
        open(out, "w").write(text)
    return out


def main():
    repo = sys.argv[1] if len(sys.argv) > 1 else "/repo"
    out = sys.argv[2]
    regenerate(repo, out)
    print(open(out).read())


if __name__ == "__main__":
    main()

/* ANALYSIS-ONLY shim (never compiled into the library): makes the mutex macros of
 * src/internal/qinternal.h primitives of the lock skeleton.  Passed to clang with -include so
 * that it is read before the translation unit; it pulls in the real qinternal.h (whose include
 * guard then makes the source's own #include a no-op) and replaces the four Q_MUTEX_* macros by
 * calls to marker functions which translator/lockcfg.py recognises by name. */
#include <stdio.h>
#include <stdlib.h>
#include <stdbool.h>
#include <stdint.h>
#include <string.h>
#include <stdarg.h>
#include <errno.h>
#include <assert.h>
#include "qinternal.h"
#undef Q_MUTEX_NEW
#undef Q_MUTEX_ENTER
#undef Q_MUTEX_LEAVE
#undef Q_MUTEX_DESTROY
void *__verif_mutex_new(int recursive);
void __verif_mutex_enter(void *m);
void __verif_mutex_leave(void *m);
void __verif_mutex_destroy(void *m);
#define Q_MUTEX_NEW(m, r)   do { (m) = __verif_mutex_new(r); } while (0)
#define Q_MUTEX_ENTER(m)    __verif_mutex_enter(m)
#define Q_MUTEX_LEAVE(m)    __verif_mutex_leave(m)
#define Q_MUTEX_DESTROY(m)  __verif_mutex_destroy(m)

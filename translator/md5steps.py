#!/usr/bin/env python3
"""K-gen translator for property C18: facts that are *data in the source* of the hash functions.

From the CURRENT src/internal/md5/md5c.c (raw source, comments stripped, and `gcc -E -P` output):
  * the 64 step lines `FF/GG/HH/II (a, b, c, d, x[k], Sij, 0x...)` of MD5Transform, in source order,
    with the `#define Sij n` shift amounts resolved;
  * the four initialisation words of MD5Init, the PADDING array;
  * a fingerprint of the macros F G H I ROTATE_LEFT FF GG HH II and of the non-step statements of
    MD5Transform (`md5MacrosAsModelled`): the Lean model transcribes exactly these texts;
  * the bit-count bookkeeping of MD5Update: index shift/mask, the `<< 3` of the low word with its
    carry test, the `>> 29` added to the high word (the model's `bufIndex`/`countUpdate` are driven
    by these), and a fingerprint of the other statements of MD5Update, MD5Pad, MD5Final
    (`md5UpdateAsModelled`).
From `gcc -E -P` of src/utilities/qhash.c (so the `#ifdef __GNUC__` branches are resolved):
  * FNV offset bases and the shift lists of the shift-add multiplications;
  * MurmurHash3 constants c1/c2, rotation amounts, the `h*5+n` constants, fmix shifts/multipliers,
    the tail `switch` tables (case label, tail index, shift).
Emits lean/QlibcModel/Generated/HashConsts.lean.  Anything that does not have the expected shape
aborts the translation (SystemExit), which the check reports as a broken proof obligation.
"""
import os, re, subprocess, sys


def die(msg):
    raise SystemExit("translator/md5steps.py: " + msg)


def strip_comments(src):
    src = re.sub(r"/\*.*?\*/", " ", src, flags=re.S)
    return re.sub(r"//[^\n]*", " ", src)


def preprocess(repo, rel):
    r = subprocess.run(["gcc", "-E", "-P", "-std=gnu99", "-D_GNU_SOURCE", "-I", os.path.join(repo, "include/qlibc"),
                        "-I", os.path.join(repo, "include"), "-I", os.path.join(repo, "src/internal"),
                        os.path.join(repo, rel)], capture_output=True, text=True)
    if r.returncode != 0:
        die("gcc -E failed on %s: %s" % (rel, r.stderr[-300:]))
    return r.stdout


def func_body(text, name):
    """text of the body `{...}` of the function definition `name(...) {`"""
    for m in re.finditer(r"\b" + re.escape(name) + r"\s*\(", text):
        i, depth = m.end(), 1
        while depth and i < len(text):            # skip the parameter list
            depth += {"(": 1, ")": -1}.get(text[i], 0)
            i += 1
        j = i
        while j < len(text) and text[j] in " \t\r\n":
            j += 1
        if j < len(text) and text[j] == "{":
            k, depth = j + 1, 1
            while depth and k < len(text):
                depth += {"{": 1, "}": -1}.get(text[k], 0)
                k += 1
            return text[j + 1:k - 1]
    die("function %s not found" % name)


def norm(s):
    return re.sub(r"\s+", "", s)


def cint(tok):
    return int(re.sub(r"[uUlL]+$", "", tok), 0)


# ------------------------------------------------------------------ md5c.c

MACROS_EXPECTED = {
    "F(x,y,z)": "(((x)&(y))|((~x)&(z)))",
    "G(x,y,z)": "(((x)&(z))|((y)&(~z)))",
    "H(x,y,z)": "((x)^(y)^(z))",
    "I(x,y,z)": "((y)^((x)|(~z)))",
    "ROTATE_LEFT(x,n)": "(((x)<<(n))|((x)>>(32-(n))))",
    "FF(a,b,c,d,x,s,ac)": "{(a)+=F((b),(c),(d))+(x)+(u_int32_t)(ac);(a)=ROTATE_LEFT((a),(s));(a)+=(b);}",
    "GG(a,b,c,d,x,s,ac)": "{(a)+=G((b),(c),(d))+(x)+(u_int32_t)(ac);(a)=ROTATE_LEFT((a),(s));(a)+=(b);}",
    "HH(a,b,c,d,x,s,ac)": "{(a)+=H((b),(c),(d))+(x)+(u_int32_t)(ac);(a)=ROTATE_LEFT((a),(s));(a)+=(b);}",
    "II(a,b,c,d,x,s,ac)": "{(a)+=I((b),(c),(d))+(x)+(u_int32_t)(ac);(a)=ROTATE_LEFT((a),(s));(a)+=(b);}",
}
# MD5Transform without its step lines and #defines, whitespace removed
TRANSFORM_FRAME = ("u_int32_ta=state[0],b=state[1],c=state[2],d=state[3],x[16];Decode(x,block,64);"
                   "state[0]+=a;state[1]+=b;state[2]+=c;state[3]+=d;memset((void*)x,0,sizeof(x));")
STEP_RE = re.compile(r"\b(FF|GG|HH|II)\s*\(\s*([abcd])\s*,\s*([abcd])\s*,\s*([abcd])\s*,\s*([abcd])\s*,"
                     r"\s*x\s*\[\s*(\w+)\s*\]\s*,\s*(\w+)\s*,\s*(\w+)\s*\)\s*;")


def extract_md5(repo):
    raw = strip_comments(open(os.path.join(repo, "src/internal/md5/md5c.c")).read())
    # join continued lines, collect object-like and function-like defines
    joined = raw.replace("\\\n", " ")
    defines = {}
    for m in re.finditer(r"^[ \t]*#[ \t]*define[ \t]+(\w+(?:\([^)]*\))?)[ \t]+(.*)$", joined, re.M):
        defines[norm(m.group(1))] = m.group(2).strip()
    macros_ok = all(norm(defines.get(k, "")) == v for k, v in MACROS_EXPECTED.items())
    body = func_body(joined, "MD5Transform")
    steps = []
    for m in STEP_RE.finditer(body):
        fn = ["FF", "GG", "HH", "II"].index(m.group(1))
        regs = ["abcd".index(m.group(i)) for i in range(2, 6)]
        k = cint(m.group(6))
        s = m.group(7)
        s = cint(defines[s]) if s in defines else cint(s)
        steps.append((fn, regs[0], regs[1], regs[2], regs[3], k, s, cint(m.group(8)) & 0xFFFFFFFF))
    frame = norm(re.sub(r"^[ \t]*#.*$", "", STEP_RE.sub("", body), flags=re.M))
    frame_ok = frame == TRANSFORM_FRAME
    pre = preprocess(repo, "src/internal/md5/md5c.c")
    # little-endian build: Decode/Encode are memcpy
    le_ok = "memcpy(x, block, 64)" in re.sub(r"\s+", " ", func_body(pre, "MD5Transform")).replace("( ", "(")
    init_body = func_body(pre, "MD5Init")
    init = []
    for i in range(4):
        m = re.search(r"context\s*->\s*state\s*\[\s*%d\s*\]\s*=\s*(\w+)\s*;" % i, init_body)
        if not m:
            die("MD5Init: state[%d] initialiser not found" % i)
        init.append(cint(m.group(1)) & 0xFFFFFFFF)
    m = re.search(r"unsigned\s+char\s+PADDING\s*\[\s*64\s*\]\s*=\s*\{([^}]*)\}", pre)
    if not m:
        die("PADDING[64] not found")
    padding = [cint(t.strip()) & 0xFF for t in m.group(1).split(",") if t.strip()]
    padding += [0] * (64 - len(padding))      # C zero-fills a short initialiser list
    if len(padding) != 64:
        die("PADDING has %d initialisers" % len(padding))
    res = {"steps": steps, "init": init, "padding": padding,
           "macros_ok": macros_ok and frame_ok and le_ok}
    res.update(extract_update(joined))
    return res


# MD5Update: the bit-count statements carry the extracted constants, the rest is a fixed frame
UPDATE_COUNT_RE = re.compile(
    r"^unsignedinti,idx,partLen;"
    r"idx=\(unsignedint\)\(\(context->count\[0\]>>(\w+)\)&(\w+)\);"
    r"if\(\(context->count\[0\]\+=\(\(u_int32_t\)inputLen<<(\w+)\)\)<\(\(u_int32_t\)inputLen<<(\w+)\)\)context->count\[1\]\+\+;"
    r"context->count\[1\]\+=\(\(u_int32_t\)inputLen>>(\w+)\);"
    r"partLen=64-idx;(.*)$")
UPDATE_REST = ("if(inputLen>=partLen){memcpy((void*)&context->buffer[idx],(constvoid*)input,partLen);"
               "MD5Transform(context->state,context->buffer);"
               "for(i=partLen;i+63<inputLen;i+=64)MD5Transform(context->state,&input[i]);idx=0;}elsei=0;"
               "memcpy((void*)&context->buffer[idx],(constvoid*)&input[i],inputLen-i);")
PAD_RE = re.compile(r"^unsignedcharbits\[8\];unsignedintidx,padLen;Encode\(bits,context->count,8\);"
                    r"idx=\(unsignedint\)\(\(context->count\[0\]>>(\w+)\)&(\w+)\);"
                    r"padLen=\(idx<56\)\?\(56-idx\):\(120-idx\);"
                    r"MD5Update\(context,PADDING,padLen\);MD5Update\(context,bits,8\);$")
FINAL_FRAME = "MD5Pad(context);Encode(digest,context->state,16);memset((void*)context,0,sizeof(*context));"


def extract_update(joined):
    """the bit-count bookkeeping of MD5Update (shift amounts, index mask) and a fingerprint of the
    remaining statements of MD5Update, MD5Pad, MD5Final"""
    m = UPDATE_COUNT_RE.match(norm(func_body(joined, "MD5Update")))
    if not m:
        die("MD5Update: the bit-count statements (idx = (count[0] >> 3) & 0x3F; count[0] += inputLen << 3 "
            "with carry into count[1]; count[1] += inputLen >> 29; partLen = 64 - idx) do not have the modelled shape")
    idx_shr, idx_mask, shl_a, shl_b, shr, rest = m.groups()
    if cint(shl_a) != cint(shl_b):
        die("MD5Update: count[0] is increased by inputLen << %s but compared with inputLen << %s" % (shl_a, shl_b))
    p = PAD_RE.match(norm(func_body(joined, "MD5Pad")))
    pad_ok = bool(p) and cint(p.group(1)) == cint(idx_shr) and cint(p.group(2)) == cint(idx_mask)
    final_ok = norm(func_body(joined, "MD5Final")) == FINAL_FRAME
    return {"idx_shr": cint(idx_shr), "idx_mask": cint(idx_mask), "cnt_shl": cint(shl_a), "cnt_shr": cint(shr),
            "update_ok": rest == UPDATE_REST and pad_ok and final_ok}


# ------------------------------------------------------------------ qhash.c

def shifts_of(body, var):
    """`h += (h<<1) + (h<<4) + ...;` -> [1, 4, ...]"""
    m = re.search(r"\b%s\s*\+=\s*((?:\(\s*%s\s*<<\s*\d+\s*\)\s*\+?\s*)+);" % (var, var), body)
    if not m:
        die("shift-add multiplication `%s += (%s<<..)+...` not found" % (var, var))
    return [int(x) for x in re.findall(r"<<\s*(\d+)", m.group(1))]


def const_of(body, pat, what):
    m = re.search(pat, body)
    if not m:
        die(what + " not found")
    return cint(m.group(1))


def rotations(body, width):
    """all `v = (v << n) | (v >> (W - n));` in source order -> [(v, n)]"""
    out = []
    for m in re.finditer(r"\b(\w+)\s*=\s*\(\s*(\w+)\s*<<\s*(\d+)\s*\)\s*\|\s*\(\s*(\w+)\s*>>\s*\(\s*(\d+)\s*-\s*(\d+)\s*\)\s*\)\s*;", body):
        v, v2, n, v3, w, n2 = m.groups()
        if not (v == v2 == v3 and int(w) == width and n == n2):
            die("rotation statement of unexpected shape: " + m.group(0))
        out.append((v, int(n)))
    return out


def tail_table(body, width):
    """the tail switch: [(case label, variable, tail index, shift)] in source order"""
    sw = re.search(r"switch\s*\(\s*nbytes\s*&\s*(\d+)\s*\)\s*\{", body)
    if not sw or int(sw.group(1)) != (3 if width == 32 else 15):
        die("tail switch `switch (nbytes & %d)` not found" % (3 if width == 32 else 15))
    seg = body[sw.end():]
    out, label = [], None
    for m in re.finditer(r"case\s+(\d+)\s*:|(\w+)\s*\^=\s*(?:\(\s*uint64_t\s*\)\s*)?\(?\s*tail\s*\[\s*(\d+)\s*\]\s*\)?\s*(?:<<\s*(\d+))?\s*;", seg):
        if m.group(1):
            label = int(m.group(1))
        else:
            out.append((label, m.group(2), int(m.group(3)), int(m.group(4) or 0)))
    return out


def extract_qhash(repo):
    pre = preprocess(repo, "src/utilities/qhash.c")
    res = {}
    b = func_body(pre, "qhashfnv1_32")
    res["fnv32Offset"] = const_of(b, r"uint32_t\s+h\s*=\s*(\w+)\s*;", "fnv32 offset basis")
    res["fnv32Shifts"] = shifts_of(b, "h")
    b = func_body(pre, "qhashfnv1_64")
    res["fnv64Offset"] = const_of(b, r"uint64_t\s+h\s*=\s*(\w+)\s*;", "fnv64 offset basis")
    res["fnv64Shifts"] = shifts_of(b, "h")

    b = func_body(pre, "qhashmurmur3_32")
    res["m32C1"] = const_of(b, r"uint32_t\s+c1\s*=\s*(\w+)\s*;", "murmur32 c1")
    res["m32C2"] = const_of(b, r"uint32_t\s+c2\s*=\s*(\w+)\s*;", "murmur32 c2")
    rot = rotations(b, 32)
    if [v for v, _ in rot] != ["k", "h", "k"]:
        die("murmur32: expected rotations of k, h, k; found %s" % rot)
    res["m32RotK"], res["m32RotH"], res["m32RotKTail"] = rot[0][1], rot[1][1], rot[2][1]
    m = re.search(r"\bh\s*=\s*\(\s*h\s*\*\s*(\w+)\s*\)\s*\+\s*(\w+)\s*;", b)
    if not m:
        die("murmur32: h = (h * 5) + n not found")
    res["m32HMul"], res["m32HAdd"] = cint(m.group(1)), cint(m.group(2))
    tt = tail_table(b, 32)
    if [(l, v, j) for l, v, j, _ in tt] != [(3, "k", 2), (2, "k", 1), (1, "k", 0)]:
        die("murmur32: unexpected tail switch %s" % tt)
    res["m32Tail"] = [(l, j, s) for l, _, j, s in tt]
    fm = re.search(r"h\s*\^=\s*nbytes\s*;\s*h\s*\^=\s*h\s*>>\s*(\d+)\s*;\s*h\s*\*=\s*(\w+)\s*;\s*h\s*\^=\s*h\s*>>\s*(\d+)\s*;"
                   r"\s*h\s*\*=\s*(\w+)\s*;\s*h\s*\^=\s*h\s*>>\s*(\d+)\s*;\s*return\s+h\s*;", b)
    if not fm:
        die("murmur32: finaliser not found")
    res["m32Fmix"] = [int(fm.group(1)), cint(fm.group(2)), int(fm.group(3)), cint(fm.group(4)), int(fm.group(5))]

    b = func_body(pre, "qhashmurmur3_128")
    res["m128C1"] = const_of(b, r"uint64_t\s+c1\s*=\s*(\w+)\s*;", "murmur128 c1")
    res["m128C2"] = const_of(b, r"uint64_t\s+c2\s*=\s*(\w+)\s*;", "murmur128 c2")
    rot = rotations(b, 64)
    if [v for v, _ in rot] != ["k1", "h1", "k2", "h2", "k2", "k1"]:
        die("murmur128: expected rotations of k1 h1 k2 h2 (body), k2 k1 (tail); found %s" % rot)
    (res["m128RotK1"], res["m128RotH1"], res["m128RotK2"], res["m128RotH2"],
     res["m128RotK2Tail"], res["m128RotK1Tail"]) = [n for _, n in rot]
    for v, o in (("h1", "h2"), ("h2", "h1")):
        m = re.search(r"\b%s\s*\+=\s*%s\s*;\s*%s\s*=\s*%s\s*\*\s*(\w+)\s*\+\s*(\w+)\s*;" % (v, o, v, v), b)
        if not m:
            die("murmur128: %s += %s; %s = %s * 5 + n not found" % (v, o, v, v))
        res["m128%sMul" % v.upper()], res["m128%sAdd" % v.upper()] = cint(m.group(1)), cint(m.group(2))
    tt = tail_table(b, 64)
    want = [(j + 1, "k2" if j >= 8 else "k1", j) for j in range(14, -1, -1)]
    if [(l, v, j) for l, v, j, _ in tt] != want:
        die("murmur128: unexpected tail switch %s" % tt)
    res["m128Tail"] = [(l, j, s) for l, _, j, s in tt]
    fms = re.findall(r"\b(h[12])\s*\^=\s*\1\s*>>\s*(\d+)\s*;\s*\1\s*\*=\s*(\w+)\s*;\s*\1\s*\^=\s*\1\s*>>\s*(\d+)\s*;"
                     r"\s*\1\s*\*=\s*(\w+)\s*;\s*\1\s*\^=\s*\1\s*>>\s*(\d+)\s*;", b)
    # the two mixes touch one variable each, so their relative order is immaterial
    if sorted(f[0] for f in fms) != ["h1", "h2"]:
        die("murmur128: finaliser not found")
    fms.sort(key=lambda f: f[0])
    res["m128Fmix1"] = [int(fms[0][1]), cint(fms[0][2]), int(fms[0][3]), cint(fms[0][4]), int(fms[0][5])]
    res["m128Fmix2"] = [int(fms[1][1]), cint(fms[1][2]), int(fms[1][3]), cint(fms[1][4]), int(fms[1][5])]
    # statement frame of the function ends (so that a reordering is noticed): checked loosely
    fin = norm(b)
    res["m128FrameOk"] = (("h1^=nbytes;h2^=nbytes;h1+=h2;h2+=h1;" in fin or "h2^=nbytes;h1^=nbytes;h1+=h2;h2+=h1;" in fin)
                          and fin.count("h1+=h2;h2+=h1;") == 2
                          and "memcpy(retbuf,&h1,sizeof(h1));memcpy((uint8_t*)retbuf+sizeof(h1),&h2,sizeof(h2));" in fin)
    return res


def extract(repo):
    try:
        d = extract_md5(repo)
        d.update(extract_qhash(repo))
    except SystemExit:
        raise
    except Exception as e:                       # unexpected source shape: report, do not crash the check
        die("cannot translate the current source: %s: %s" % (type(e).__name__, e))
    return d


# ------------------------------------------------------------------ rendering

def render(d):
    L = ["/- GENERATED by translator/md5steps.py from src/internal/md5/md5c.c and src/utilities/qhash.c",
         "   of the current source tree — do not edit. -/",
         "namespace Qlibc.Generated", "",
         "/-- the 64 step lines of MD5Transform in source order:",
         "    (macro 0=FF 1=GG 2=HH 3=II, the four register arguments 0=a 1=b 2=c 3=d, k of x[k],",
         "     shift amount (Sij resolved), additive constant) -/",
         "def md5Steps : List (Nat × Nat × Nat × Nat × Nat × Nat × Nat × Nat) := ["]
    for i, st in enumerate(d["steps"]):
        L.append("  (%d, %d, %d, %d, %d, %d, %d, 0x%08x)%s" % (st + ("," if i + 1 < len(d["steps"]) else "",)))
    L += ["]", "",
          "/-- `context->state[0..3]` as set by MD5Init -/",
          "def md5Init : List Nat := [%s]" % ", ".join("0x%08x" % v for v in d["init"]), "",
          "/-- `PADDING[64]` -/",
          "def md5Padding : List UInt8 := [%s]" % ", ".join(str(v) for v in d["padding"]), "",
          "/-- the macros F G H I ROTATE_LEFT FF GG HH II, the statements of MD5Transform around the",
          "    step lines and `Decode = memcpy` are textually the ones the model transcribes -/",
          "def md5MacrosAsModelled : Bool := %s" % ("true" if d["macros_ok"] else "false"), "",
          "/-- MD5Update: `idx = (count[0] >> md5IdxShr) & md5IdxMask` -/",
          "def md5IdxShr : Nat := %d" % d["idx_shr"],
          "def md5IdxMask : Nat := 0x%x" % d["idx_mask"],
          "/-- MD5Update: `count[0] += inputLen << md5CntShl` (carry into count[1]);",
          "    `count[1] += inputLen >> md5CntShr` -/",
          "def md5CntShl : Nat := %d" % d["cnt_shl"],
          "def md5CntShr : Nat := %d" % d["cnt_shr"],
          "/-- the remaining statements of MD5Update (partLen logic, block loop, buffering), MD5Pad (same",
          "    index expression, padLen rule, the two updates) and MD5Final are textually the modelled ones -/",
          "def md5UpdateAsModelled : Bool := %s" % ("true" if d["update_ok"] else "false"), ""]

    def nat(name, doc, v, hexw=None):
        L.append("/-- %s -/" % doc)
        L.append("def %s : Nat := %s" % (name, ("0x%0*x" % (hexw, v)) if hexw else str(v)))

    def natlist(name, doc, vs):
        L.append("/-- %s -/" % doc)
        L.append("def %s : List Nat := [%s]" % (name, ", ".join(str(v) if v < 4096 else hex(v) for v in vs)))

    def triples(name, doc, vs):
        L.append("/-- %s -/" % doc)
        L.append("def %s : List (Nat × Nat × Nat) := [%s]" % (name, ", ".join("(%d, %d, %d)" % t for t in vs)))

    nat("fnv32Offset", "`uint32_t h = ...` of qhashfnv1_32", d["fnv32Offset"], 8)
    natlist("fnv32Shifts", "`h += (h<<s1) + (h<<s2) + ...` of qhashfnv1_32", d["fnv32Shifts"])
    nat("fnv64Offset", "`uint64_t h = ...` of qhashfnv1_64", d["fnv64Offset"], 16)
    natlist("fnv64Shifts", "`h += (h<<s1) + (h<<s2) + ...` of qhashfnv1_64", d["fnv64Shifts"])
    L.append("")
    nat("m32C1", "qhashmurmur3_32: c1", d["m32C1"], 8)
    nat("m32C2", "qhashmurmur3_32: c2", d["m32C2"], 8)
    nat("m32RotK", "block loop: k = (k << n) | (k >> (32 - n))", d["m32RotK"])
    nat("m32RotH", "block loop: h = (h << n) | (h >> (32 - n))", d["m32RotH"])
    nat("m32HMul", "block loop: h = (h * m) + a", d["m32HMul"])
    nat("m32HAdd", "block loop: h = (h * m) + a", d["m32HAdd"], 8)
    nat("m32RotKTail", "tail: k = (k << n) | (k >> (32 - n))", d["m32RotKTail"])
    triples("m32Tail", "tail switch in source order: (case label, index into tail, left shift)", d["m32Tail"])
    natlist("m32Fmix", "finaliser: h ^= h >> s1; h *= m1; h ^= h >> s2; h *= m2; h ^= h >> s3", d["m32Fmix"])
    L.append("")
    nat("m128C1", "qhashmurmur3_128: c1", d["m128C1"], 16)
    nat("m128C2", "qhashmurmur3_128: c2", d["m128C2"], 16)
    for k in ("RotK1", "RotH1", "RotK2", "RotH2", "RotK2Tail", "RotK1Tail"):
        nat("m128" + k, "rotation amount (" + k + ")", d["m128" + k])
    for v in ("H1", "H2"):
        nat("m128%sMul" % v, "block loop: %s = %s * m + a" % (v.lower(), v.lower()), d["m128%sMul" % v])
        nat("m128%sAdd" % v, "block loop: %s = %s * m + a" % (v.lower(), v.lower()), d["m128%sAdd" % v], 8)
    triples("m128Tail", "tail switch in source order: (case label, index into tail, left shift)", d["m128Tail"])
    natlist("m128Fmix1", "finaliser of h1", d["m128Fmix1"])
    natlist("m128Fmix2", "finaliser of h2", d["m128Fmix2"])
    L.append("/-- the finalisation statements around fmix and the memcpy stores have the modelled shape -/")
    L.append("def m128FrameAsModelled : Bool := %s" % ("true" if d["m128FrameOk"] else "false"))
    L += ["", "end Qlibc.Generated"]
    return "\n".join(L) + "\n"


def main():
    repo = sys.argv[1] if len(sys.argv) > 1 else "/repo"
    out = sys.argv[2]
    text = render(extract(repo))
    old = open(out).read() if os.path.exists(out) else None
    if old != text:
        open(out, "w").write(text)
        print("regenerated", out)


if __name__ == "__main__":
    main()
